#!/usr/bin/env python3
"""
Translator, third part for the tree code: the entry points of src/bintree.c that tools/c2lean_tree.py
(class TreeFn2) does not reach  ->  Lean 4, module Cstl.Gen.TreeLC3 (area `treel3`).

  cstl_bintree_foreach_visit, cstl_bintree_foreach   (the `switch (dir)` that picks the selector pair)
  __cstl_bintree_clear_visit, cstl_bintree_clear     (fires the client function on POST / LEAF; re-initialisation)
  __cstl_bintree_height, cstl_bintree_height         (walk up the parent links on LEAF visits; min / max)
  cstl_bintree_swap
  __cstl_bintree_prev                                (with TreeFn2, like __cstl_bintree_next)

The module is self-contained: cstl_bintree_slide, __cstl_bintree_adjacent, __cstl_bintree_next and the
recursion __cstl_bintree_foreach are re-translated with TreeFn2 (same text as in Cstl.Gen.TreeLC2), so that
everything reflects the current source.

Vocabulary (lean/Cstl/TreeL/Model.lean, lean/Cstl/TreeL/CSem3.lean):

  bt->root, bt->size                  bt.root, bt.size   ({ bt with … } for stores)
  bn->p                               m.pr bn
  the (l, r) selector arguments       one Bool: (__cstl_bintree_left, __cstl_bintree_right) = true, the
                                      exchanged pair = false (the two inline selectors are checked to
                                      return &n->l / &n->r)
  enum constants                      their numbers (visit orders 0..3, directions 0..1)
  switch (x) { case K: … break; }     match x with | K => … | _ => …
  visit callbacks                     σ → TM → Nat → Nat → σ × TM × Int  (client state, memory, node, order)
  struct …_priv locals                members `bt` / `priv` have no counterpart (the client state is threaded),
                                      function-pointer members become parameters of the callback; a call
                                      through such a member is an application of that parameter
  struct cstl_bintree_height_priv     HeightP (it IS the client state of the height traversal)
  a callback with a loop              returns Option; handed to the total callback interface through
                                      `liftVisit` (a `none` client state = fuel exhausted, sticky)
  for (…; c; …) ;                     fuelled auxiliary definition (`none` = fuel exhausted)
  out parameters *min, *max           extra results
  SIZE_MAX                            18446744073709551615
  cstl_swap(a, b, &t, sizeof(t))      t = a; a = b; b = t on the two headers
"""
import os
import re
import sys

sys.path.insert(0, os.path.dirname(os.path.abspath(__file__)))
import c2lean                                                   # noqa: E402
from c2lean import Unsupported, clang_ast                       # noqa: E402
import c2lean_tree                                              # noqa: E402
from c2lean_tree import TreeFn2, check_selectors, SELECTORS     # noqa: E402

MODULE = "TreeLC3"
HEADER = "import Cstl.TreeL.Model\nimport Cstl.TreeL.CSem3\n"
OPENS = "open Cstl.TreeL\nopen Cstl.Tree (Color)\n"

BASE = ["cstl_bintree_slide", "__cstl_bintree_adjacent", "__cstl_bintree_next", "__cstl_bintree_prev",
        "__cstl_bintree_foreach"]
IDENT = ("__cstl_bintree_node", "__cstl_bintree_element", "cstl_bintree_element")
VISIT_T = "σ → TM → Nat → Nat → σ × TM × Int"

# private structures.  closure: member -> (parameter name, Lean type, kind of call)
PRIV = {
    "cstl_bintree_foreach_priv": dict(skip=("bt", "priv"), closure={"visit": ("visit", VISIT_T, "visit")}),
    "cstl_bintree_clear_priv": dict(skip=("bt", "priv"), closure={"clr": ("clr", "σ → TM → Nat → σ × TM", "xtor")}),
    "cstl_bintree_height_priv": dict(state="HeightP", fields=("min", "max")),
}

# name -> kind: callback (bn, order, priv) | entry (bt, …)
NEW = [
    ("cstl_bintree_foreach_visit", "callback"),
    ("cstl_bintree_foreach", "entry"),
    ("__cstl_bintree_clear_visit", "callback"),
    ("cstl_bintree_clear", "entry"),
    ("__cstl_bintree_height", "callback"),
    ("cstl_bintree_height", "entry"),
]


def qt(n):
    return n.get("type", {}).get("qualType", "")


def walk(n):
    if isinstance(n, dict):
        yield n
        for c in n.get("inner", []):
            for x in walk(c):
                yield x


def lean_name(name):
    return "c_" + ("priv_" + name[2:] if name.startswith("__") else name)


class CbFn:
    def __init__(self, decl, kind, known):
        self.decl = decl
        self.kind = kind
        self.known = known              # name -> CbFn | TreeFn2
        self.name = decl["name"]
        self.params = [p for p in decl["inner"] if p["kind"] == "ParmVarDecl"]
        self.body = [c for c in decl["inner"] if c["kind"] == "CompoundStmt"][0]
        self.ret = decl["type"]["qualType"].split("(")[0].strip()
        self.hdr = None                 # struct cstl_bintree * parameter
        self.vars = {}                  # C name -> Lean type of value parameters / locals
        self.args = []                  # (lean name, type) value parameters in order
        self.outs = []                  # out parameters (size_t *)
        self.closure = []               # (name, type, kind)
        self.closure_env = {}           # member -> Lean text bound at the creation site
        self.privvar = None             # the C name of the private-data pointer / structure
        self.privstruct = None
        self.state_type = None          # Lean type of the client state (σ or HeightP); None: no client state
        self.alias = {}
        self.tmp = 0
        self.nloops = 0
        self.prelude = []
        self.nfuel = 0
        self.fuel_of = {}
        self.cb_params = []             # callback-pointer parameters of an entry point: (C name, lean, type, kind)
        for p in self.params:
            t, n = qt(p), p["name"]
            if "struct cstl_bintree *" in t:
                self.hdr = n
            elif "visit_func_t" in t:
                self.cb_params.append((n, n, VISIT_T, "visit"))
            elif "cstl_xtor_func_t" in t:
                self.cb_params.append((n, n, "σ → TM → Nat → σ × TM", "xtor"))
            elif kind == "callback" and t.startswith("void *"):
                self.privvar = n
            elif kind == "entry" and t.startswith("void *"):
                self.state_param = n          # the client's private pointer = the threaded client state
            elif re.match(r"^size_t \*", t):
                self.outs.append(n)
            else:
                self.vars[n] = "Nat"
                self.args.append((n, "Nat"))
        if kind == "callback":
            for x in walk(self.body):
                if x.get("kind") == "VarDecl":
                    pr = [p for p in PRIV if ("struct " + p + " *") in qt(x)]
                    if pr:
                        self.privstruct = pr[0]
            if self.privstruct is None:
                raise Unsupported("callback without a known private structure")
            cfg = PRIV[self.privstruct]
            if "state" in cfg:
                self.state_type = cfg["state"]
            else:
                self.state_type = "σ"
                for mem, (pn, ty, ck) in cfg["closure"].items():
                    self.closure.append((pn, ty, ck))
        else:
            self.state_type = "σ" if self.cb_params else None
        self.loopy = any(x.get("kind") in ("WhileStmt", "ForStmt") for x in walk(self.body))
        for x in walk(self.body):
            if x.get("kind") == "CallExpr":
                cn = self.callee(x)
                g = known.get(cn)
                if g is not None and getattr(g, "loopy", False):
                    self.loopy = True
        self.opt = self.loopy           # Option-valued (do-notation) or a total term

    # ------------------------------------------------------------------ helpers
    def strip(self, e):
        while e["kind"] in ("ImplicitCastExpr", "ParenExpr", "CStyleCastExpr", "ConstantExpr"):
            if e["kind"] in ("ImplicitCastExpr", "CStyleCastExpr") and e.get("castKind") == "NullToPointer":
                return {"kind": "NULL"}
            e = e["inner"][0]
        return e

    def callee(self, e):
        c = self.strip(e["inner"][0])
        if c["kind"] == "DeclRefExpr" and c["referencedDecl"].get("kind") == "FunctionDecl":
            return c["referencedDecl"]["name"]
        return None

    @staticmethod
    def atom(s):
        return s if re.match(r"^[A-Za-z_][A-Za-z0-9_.']*$", s) or s.isdigit() or (s.startswith("(") and s.endswith(")")) \
            else "(%s)" % s

    def priv_of(self, e):
        t = qt(e)
        for k in PRIV:
            if ("struct " + k) in t:
                return k
        return None

    def fuels(self, node, count):
        nid = node.get("id")
        if nid not in self.fuel_of:
            self.fuel_of[nid] = self.nfuel
            self.nfuel += count
        base = self.fuel_of[nid]
        return ["fuel%d" % (base + i + 1) for i in range(count)]

    def const_value(self, n):
        if n.get("kind") == "ConstantExpr" and "value" in n:
            return n["value"]
        if n.get("kind") == "IntegerLiteral":
            return n["value"]
        if n.get("kind") == "DeclRefExpr" and n.get("referencedDecl", {}).get("kind") == "EnumConstantDecl":
            nm = n["referencedDecl"]["name"]
            return str(self.enums[nm]) if nm in self.enums else None
        for c in n.get("inner", []):
            v = self.const_value(c)
            if v is not None:
                return v
        return None

    # ------------------------------------------------------------------ expressions
    def expr(self, e, pre):
        e = self.strip(e)
        k = e["kind"]
        if k == "NULL":
            return "0"
        if k == "IntegerLiteral":
            return e["value"]
        if k == "DeclRefExpr":
            rd = e["referencedDecl"]
            n = rd["name"]
            if rd.get("kind") == "EnumConstantDecl":
                if n not in self.enums:
                    raise Unsupported("enum constant %s" % n)
                return str(self.enums[n])
            if n in self.alias:
                return self.alias[n]
            if n in self.vars:
                return n
            raise Unsupported("reference to %s" % n)
        if k == "MemberExpr":
            base = self.strip(e["inner"][0])
            f = e["name"]
            if e.get("isArrow") and base["kind"] == "DeclRefExpr" and base["referencedDecl"]["name"] == self.hdr:
                if f in ("root", "size"):
                    return "%s.%s" % (self.hdr, f)
                raise Unsupported("header field %s" % f)
            pr = self.priv_of(base)
            if pr:
                cfg = PRIV[pr]
                if "state" in cfg and f in cfg["fields"]:
                    return "%s.%s" % (self.expr(base, pre), f)
                raise Unsupported("private member %s has no value" % f)
            if e.get("isArrow") and "cstl_bintree_node" in qt(base) and f in ("p", "l", "r"):
                return "m.%s %s" % ({"p": "pr", "l": "lf", "r": "rt"}[f], self.atom(self.expr(base, pre)))
            raise Unsupported("member access %s" % f)
        if k == "UnaryOperator" and e["opcode"] == "&":
            i = self.strip(e["inner"][0])
            if i["kind"] == "DeclRefExpr" and self.priv_of(i):
                return self.alias.get(i["referencedDecl"]["name"], i["referencedDecl"]["name"])
            raise Unsupported("address-of")
        if k == "BinaryOperator":
            op = e["opcode"]
            a, b = e["inner"]
            if op in ("==", "!=", "<", ">", "<=", ">="):
                lop = {"==": "=", "!=": "≠", "<=": "≤", ">=": "≥"}.get(op, op)
                return "%s %s %s" % (self.atom(self.expr(a, pre)), lop, self.atom(self.expr(b, pre)))
            if op in ("&&", "||"):
                n0 = len(pre)
                l = self.expr(a, pre)
                r = self.expr(b, pre)
                if len(pre) != n0:
                    raise Unsupported("effect inside %s" % op)
                return "(%s) %s (%s)" % (l, "∧" if op == "&&" else "∨", r)
            if op in ("+", "-"):
                return "%s %s %s" % (self.atom(self.expr(a, pre)), op, self.atom(self.expr(b, pre)))
            raise Unsupported("binary %s" % op)
        if k == "CallExpr":
            return self.call(e, pre)
        raise Unsupported("expression kind %s" % k)

    def selector_pair(self, l, r):
        l, r = self.strip(l), self.strip(r)
        names = [x.get("referencedDecl", {}).get("name") for x in (l, r)]
        if names == ["__cstl_bintree_left", "__cstl_bintree_right"]:
            return "true"
        if names == ["__cstl_bintree_right", "__cstl_bintree_left"]:
            return "false"
        raise Unsupported("selector arguments %s" % names)

    def bind(self, pre, name, val, monadic):
        pre.append("let %s %s %s" % (name, "←" if monadic else ":=", val))

    def call(self, e, pre):
        c0 = self.strip(e["inner"][0])
        args = e["inner"][1:]
        # call through a function-pointer member of the private structure
        if c0["kind"] == "MemberExpr" and self.priv_of(self.strip(c0["inner"][0])):
            pr = self.priv_of(self.strip(c0["inner"][0]))
            cl = PRIV[pr].get("closure", {}).get(c0["name"])
            if cl is None:
                raise Unsupported("call through private member %s" % c0["name"])
            pn, _, ck = cl
            self.tmp += 1
            r = "r%d" % self.tmp
            a0 = self.atom(self.expr(args[0], pre))
            if ck == "visit":
                a1 = self.atom(self.expr(args[1], pre))
                self.bind(pre, r, "%s st m %s %s" % (pn, a0, a1), False)
                pre += ["let st := %s.1" % r, "let m := %s.2.1" % r]
                return "%s.2.2" % r
            self.bind(pre, r, "%s st m %s" % (pn, a0), False)
            pre += ["let st := %s.1" % r, "let m := %s.2" % r]
            return None
        fn = self.callee(e)
        if fn in IDENT:
            return self.expr(args[1], pre)
        g = self.known.get(fn)
        if fn == "__cstl_bintree_foreach" and g is not None:
            # (node, visit function, private data, l, r)
            node = self.atom(self.expr(args[0], pre))
            cb = self.strip(args[1])
            if cb["kind"] != "DeclRefExpr" or cb["referencedDecl"]["name"] not in self.known:
                raise Unsupported("visit argument of __cstl_bintree_foreach")
            h = self.known[cb["referencedDecl"]["name"]]
            pv = self.strip(args[2])
            if not (pv["kind"] == "UnaryOperator" and pv["opcode"] == "&"):
                raise Unsupported("private-data argument of __cstl_bintree_foreach")
            pvn = self.strip(pv["inner"][0])["referencedDecl"]["name"]
            cfg = PRIV[self.priv_of(self.strip(pv["inner"][0]))]
            d = self.selector_pair(args[3], args[4])
            cl = []
            for (pn, _, _) in h.closure:
                if pn not in self.closure_env:
                    raise Unsupported("callback %s used before its `%s` member is set" % (h.name, pn))
                cl.append(self.closure_env[pn])
            hf = ["fuel%d" % (self.nfuel + i + 1) for i in range(h.nfuel)] if False else self.fuels(cb, h.nfuel)
            cbtxt = " ".join([h.lean()] + cl + hf)
            if len(cl) + len(hf) > 0:
                cbtxt = "(%s)" % cbtxt
            fu = self.fuels(e, 1)[0]
            self.tmp += 1
            r = "r%d" % self.tmp
            if "state" in cfg:
                # the private structure is the client state; a callback with loops goes through liftVisit
                st0 = pvn
                if h.opt:
                    cbtxt = "(liftVisit %s)" % cbtxt
                    st0 = "(some %s)" % pvn
                self.bind(pre, r, "c_priv_cstl_bintree_foreach %s %s %s m %s %s" % (cbtxt, fu, st0, node, d), True)
                if h.opt:
                    self.bind(pre, pvn, "%s.1" % r, True)
                else:
                    pre.append("let %s := %s.1" % (pvn, r))
                pre.append("let m := %s.2.1" % r)
            else:
                self.bind(pre, r, "c_priv_cstl_bintree_foreach %s %s st m %s %s" % (cbtxt, fu, node, d), True)
                pre += ["let st := %s.1" % r, "let m := %s.2.1" % r]
            return "%s.2.2" % r
        raise Unsupported("call to %s" % fn)

    # ------------------------------------------------------------------ statements
    def effects(self, n):
        """names assigned in n (st / m / the header / locals / out cells)"""
        out = set()
        for x in walk(n):
            k = x.get("kind")
            tgt = None
            if k == "BinaryOperator" and x.get("opcode") == "=":
                tgt = self.strip(x["inner"][0])
            elif k == "UnaryOperator" and x.get("opcode") in ("++", "--"):
                tgt = self.strip(x["inner"][0])
            if tgt is not None:
                if tgt["kind"] == "DeclRefExpr":
                    out.add(self.alias.get(tgt["referencedDecl"]["name"], tgt["referencedDecl"]["name"]))
                elif tgt["kind"] == "MemberExpr":
                    b = self.strip(tgt["inner"][0])
                    if b["kind"] == "DeclRefExpr":
                        nm = b["referencedDecl"]["name"]
                        pr = self.priv_of(b)
                        if nm == self.hdr:
                            out.add(self.hdr)
                        elif pr and "state" in PRIV[pr]:
                            out.add(self.alias.get(nm, nm))
                elif tgt["kind"] == "UnaryOperator" and tgt["opcode"] == "*":
                    b = self.strip(tgt["inner"][0])
                    if b["kind"] == "DeclRefExpr" and b["referencedDecl"]["name"] in self.outs:
                        out.add(b["referencedDecl"]["name"] + "_cell")
            if k == "CallExpr":
                c0 = self.strip(x["inner"][0])
                if c0["kind"] == "MemberExpr" and self.priv_of(self.strip(c0["inner"][0])):
                    out |= {"st", "m"}
                elif self.callee(x) == "__cstl_bintree_foreach":
                    out.add("m")
                    pv = self.strip(x["inner"][3])
                    if pv["kind"] == "UnaryOperator":
                        i = self.strip(pv["inner"][0])
                        pr = self.priv_of(i)
                        if pr and "state" in PRIV[pr]:
                            out.add(i["referencedDecl"]["name"])
                        else:
                            out.add("st")
        return out

    def scope(self):
        vs = []
        if self.state_type is not None:
            vs.append("st")
        vs.append("m")
        if self.hdr and self.kind == "entry":
            vs.append(self.hdr)
        return vs + [o + "_cell" for o in self.outs] + list(self.locals)

    def pure_(self, tup):
        return ("pure %s" if self.opt else "%s") % tup

    @staticmethod
    def tup(vs):
        return vs[0] if len(vs) == 1 else "(%s)" % ", ".join(vs)

    def unpack(self, j, vs, pad, out):
        if len(vs) == 1:
            return
        for i, v in enumerate(vs):
            proj = ".2" * i + (".1" if i < len(vs) - 1 else "")
            out.append(pad + "let %s := %s%s" % (v, j, proj))

    def assign(self, lhs, rhs, pre):
        lhs = self.strip(lhs)
        k = lhs["kind"]
        if k == "MemberExpr":
            b = self.strip(lhs["inner"][0])
            pr = self.priv_of(b)
            f = lhs["name"]
            if pr and "state" not in PRIV[pr]:
                cfg = PRIV[pr]
                if f in cfg["skip"]:
                    return
                if f in cfg["closure"]:
                    v = self.strip(rhs)
                    if v["kind"] != "DeclRefExpr":
                        raise Unsupported("value of member %s" % f)
                    self.closure_env[cfg["closure"][f][0]] = v["referencedDecl"]["name"]
                    return
                raise Unsupported("private member %s" % f)
        v = rhs if isinstance(rhs, str) else self.expr(rhs, pre)
        if k == "DeclRefExpr":
            n = lhs["referencedDecl"]["name"]
            if n not in self.vars:
                raise Unsupported("assignment to %s" % n)
            pre.append("let %s := %s" % (n, v))
            return
        if k == "MemberExpr":
            b = self.strip(lhs["inner"][0])
            f = lhs["name"]
            if lhs.get("isArrow") and b["kind"] == "DeclRefExpr" and b["referencedDecl"]["name"] == self.hdr \
                    and f in ("root", "size"):
                pre.append("let %s := { %s with %s := %s }" % (self.hdr, self.hdr, f, v))
                return
            pr = self.priv_of(b)
            if pr and "state" in PRIV[pr] and f in PRIV[pr]["fields"]:
                bn = self.expr(b, pre)
                pre.append("let %s := { %s with %s := %s }" % (bn, bn, f, v))
                return
        if k == "UnaryOperator" and lhs["opcode"] == "*":
            b = self.strip(lhs["inner"][0])
            if b["kind"] == "DeclRefExpr" and b["referencedDecl"]["name"] in self.outs:
                pre.append("let %s_cell := %s" % (b["referencedDecl"]["name"], v))
                return
        raise Unsupported("assignment target")

    def stmts(self, lst, ind, k):
        pad = "  " * ind
        out = []
        for idx, st in enumerate(lst):
            rest = lst[idx + 1:]
            kind = st["kind"]
            if kind == "NullStmt":
                continue
            if kind == "CompoundStmt":
                saved = list(self.locals)
                inner = self.stmts(st.get("inner", []), ind, lambda i: None)
                self.locals = saved
                out += [l for l in inner if l is not None]
                continue
            if kind == "DeclStmt":
                for v in st["inner"]:
                    n, t = v["name"], qt(v)
                    pr = [p for p in PRIV if ("struct " + p) in t]
                    if pr and "*" in t:
                        init = self.strip(v["inner"][0])
                        if init["kind"] == "DeclRefExpr" and init["referencedDecl"]["name"] == self.privvar:
                            self.alias[n] = "st"
                            continue
                        raise Unsupported("private-data pointer")
                    if pr:
                        cfg = PRIV[pr[0]]
                        if "state" in cfg:
                            if n not in self.vars:
                                raise Unsupported("private structure declared in a nested block")
                        continue            # members are tracked in closure_env
                    tt = t.replace("const", "").strip()
                    self.vars[n] = "Int" if tt == "int" else "Nat"
                    self.locals.append(n)
                    if "inner" in v:
                        pre = []
                        val = self.expr(v["inner"][0], pre)
                        out += [pad + l for l in pre]
                        out.append(pad + "let %s : %s := %s" % (n, self.vars[n], val))
                    else:
                        out.append(pad + "let %s : %s := 0" % (n, self.vars[n]))
                continue
            if kind == "BinaryOperator" and st["opcode"] == ",":
                return out + self.stmts([st["inner"][0], st["inner"][1]] + rest, ind, k)
            if kind == "BinaryOperator" and st["opcode"] == "=":
                pre = []
                rhs = st["inner"][1]
                srhs = self.strip(rhs)
                if srhs["kind"] == "CallExpr":
                    val = self.call(srhs, pre)
                    self.assign(st["inner"][0], val, pre)
                else:
                    self.assign(st["inner"][0], rhs, pre)
                out += [pad + l for l in pre]
                continue
            if kind == "UnaryOperator" and st["opcode"] in ("++", "--"):
                pre = []
                cur = self.expr(st["inner"][0], pre)
                self.assign(st["inner"][0], "%s %s 1" % (self.atom(cur), "+" if st["opcode"] == "++" else "-"), pre)
                out += [pad + l for l in pre]
                continue
            if kind in ("CallExpr", "CStyleCastExpr", "ParenExpr", "ImplicitCastExpr"):
                ce = self.strip(st)
                if ce["kind"] != "CallExpr":
                    raise Unsupported("expression statement")
                pre = []
                self.call(ce, pre)
                out += [pad + l for l in pre]
                continue
            if kind == "ReturnStmt":
                if [r for r in rest if r["kind"] != "NullStmt"]:
                    raise Unsupported("return before the end")
                pre = []
                self.retval = self.expr(st["inner"][0], pre) if st.get("inner") else None
                out += [pad + l for l in pre]
                continue
            if kind == "BreakStmt":
                continue                     # only as the end of a `case` (checked by switch_cases)
            if kind in ("IfStmt", "SwitchStmt"):
                for x in walk(st):
                    if x.get("kind") == "ReturnStmt":
                        raise Unsupported("return inside a branch")
                eff = self.effects(st)
                vs = [v for v in self.scope() if v in eff]
                if not vs:
                    continue
                tup = self.tup(vs)
                self.tmp += 1
                j = "j%d" % self.tmp if len(vs) > 1 else vs[0]
                fin = lambda i: ["  " * i + self.pure_(tup)]      # noqa: E731
                saved = list(self.locals)

                def branch(body, i):
                    self.locals = list(saved)
                    inner = self.stmts(body, i, lambda i_: None)
                    self.locals = list(saved)
                    return [l for l in inner if l is not None] + fin(i)
                if self.opt:
                    out.append(pad + "let %s ← do" % j)
                else:
                    out.append(pad + "let %s :=" % j)
                p1 = "  " * (ind + 1)
                if kind == "IfStmt":
                    pre = []
                    c = self.expr(st["inner"][0], pre)
                    if pre:
                        raise Unsupported("effect in a condition")
                    out.append(p1 + "if %s then" % c)
                    out += branch([st["inner"][1]], ind + 2)
                    out.append(p1 + "else")
                    out += branch([st["inner"][2]] if len(st["inner"]) > 2 else [], ind + 2)
                else:
                    pre = []
                    c = self.expr(st["inner"][0], pre)
                    if pre:
                        raise Unsupported("effect in a switch expression")
                    out.append(p1 + "match %s with" % c)
                    has_default = False
                    for (val, body) in self.switch_cases(st["inner"][1]):
                        if val is None:
                            has_default = True
                        out.append(p1 + "| %s =>" % ("_" if val is None else val))
                        out += branch(body, ind + 2)
                    if not has_default:
                        out.append(p1 + "| _ =>")
                        out += fin(ind + 2)
                self.unpack(j, vs, pad, out)
                continue
            if kind == "ForStmt":
                out += self.loop(st, ind)
                continue
            raise Unsupported("statement kind %s" % kind)
        tail = k(ind)
        return out + (tail if tail is not None else [])

    def switch_cases(self, body):
        """[(value text | None, statement list)] — every case must end in `break` (no fall through)"""
        if body["kind"] != "CompoundStmt":
            raise Unsupported("switch body")
        cases = []
        cur = None
        for s in body.get("inner", []):
            k = s["kind"]
            if k in ("CaseStmt", "DefaultStmt"):
                if cur is not None and not cur[2]:
                    raise Unsupported("case falls through")
                if k == "CaseStmt":
                    val = self.const_value(s["inner"][0])
                    if val is None:
                        raise Unsupported("case label")
                    sub = s["inner"][-1]
                else:
                    val = None
                    sub = s["inner"][-1]
                cur = [val, [sub], False]
                cases.append(cur)
                if sub["kind"] in ("CaseStmt", "DefaultStmt"):
                    raise Unsupported("stacked case labels")
                continue
            if cur is None:
                raise Unsupported("statement before the first case")
            if k == "BreakStmt":
                cur[2] = True
                continue
            if cur[2]:
                raise Unsupported("statement after break")
            cur[1].append(s)
        if cases and not cases[-1][2]:
            raise Unsupported("last case without break")
        return [(c[0], c[1]) for c in cases]

    def loop(self, st, ind):
        pad = "  " * ind
        out = []
        init, _cv, cond, incr, body = st["inner"]
        if init and init.get("kind"):
            out += [l for l in self.stmts([init], ind, lambda i: None) if l is not None]
        eff = self.effects({"kind": "X", "inner": [c for c in (cond, incr, body) if c and c.get("kind")]})
        vs = [v for v in self.scope() if v in eff]
        for v in eff:
            if v in self.vars and v not in vs:
                vs.append(v)                # an assigned parameter (`bn = bn->p`)
        ts = [{"st": self.state_type, "m": "TM"}.get(v, self.vars.get(v, "Nat")) for v in vs]
        self.nloops += 1
        fname = "%s_loop%d" % (self.lean(), self.nloops)
        fu = self.fuels(st, 1)[0]
        pre = []
        c = self.expr(cond, pre)
        if pre:
            raise Unsupported("effect in a loop condition")
        tup = self.tup(vs)
        body_lines = [l for l in self.stmts([body] + ([incr] if incr and incr.get("kind") else []), 3, lambda i: None)
                      if l is not None]
        used = set(re.findall(r"[A-Za-z_][A-Za-z0-9_']*", c + "\n" + "\n".join(body_lines)))
        consts = [(n, t) for (n, t) in ([("m", "TM")] + self.args) if n in used and n not in vs]
        sig = " ".join("(%s : %s)" % ct for ct in consts)
        cargs = "".join(n + " " for n, _ in consts)
        d = ["-- loop %d of `%s`: state (%s)" % (self.nloops, self.name, ", ".join(vs)),
             "def %s %s : Nat → %s → Option (%s)" % (fname, sig, " → ".join(ts), " × ".join(ts)),
             "  | 0, %s =>" % ", ".join(vs),
             "    if %s then" % c, "      none", "    else", "      some %s" % tup,
             "  | fuel + 1, %s =>" % ", ".join(vs),
             "    if %s then" % c] + body_lines + [
             "      %s %sfuel %s" % (fname, cargs, " ".join(vs)), "    else", "      some %s" % tup]
        self.prelude.append("\n".join(d) + "\n")
        self.tmp += 1
        r = "l%d" % self.tmp if len(vs) > 1 else vs[0]
        out.append(pad + "let %s ← %s %s%s %s" % (r, fname, cargs, fu, " ".join(vs)))
        self.unpack(r, vs, pad, out)
        return out

    # ------------------------------------------------------------------ whole function
    def lean(self):
        return lean_name(self.name)

    def render(self, enums):
        self.enums = enums
        self.locals = []
        self.retval = None
        top = []
        if self.kind == "entry":
            # a private structure that is the client state of a traversal is declared at the top
            for x in walk(self.body):
                if x.get("kind") == "VarDecl":
                    pr = [p for p in PRIV if ("struct " + p) in qt(x) and "*" not in qt(x)]
                    if pr and "state" in PRIV[pr[0]]:
                        n = x["name"]
                        self.vars[n] = PRIV[pr[0]]["state"]
                        self.locals.append(n)
                        top.append("  let %s : %s := { %s }" % (n, PRIV[pr[0]]["state"], ", ".join(
                            "%s := 0" % f for f in PRIV[pr[0]]["fields"])))
            for o in self.outs:
                top.append("  let %s_cell : Nat := 0" % o)
        if self.kind == "callback":
            for p in self.params:
                if p["name"] != self.privvar and p["name"] not in self.vars:
                    self.vars[p["name"]] = "Nat"
        body = self.stmts(self.body.get("inner", []), 1, lambda i: None)
        body = [l for l in body if l is not None]
        res = []
        if self.state_type is not None:
            res.append(("st", self.state_type))
        res.append(("m", "TM"))
        if self.kind == "entry" and self.hdr and self.hdr in self.effects(self.body):
            res.append((self.hdr, "Hd"))
        if self.ret != "void":
            res.append((self.retval if self.retval is not None else "0", "Int"))
        for o in self.outs:
            res.append((o + "_cell", "Nat"))
        rtup = self.tup([self.atom(r) if " " in r else r for r, _ in res])
        rty = " × ".join(t for _, t in res)
        ps = []
        if "σ" in [self.state_type] + [t for _, t, _ in self.closure]:
            ps.append("{σ : Type}")
        for (pn, ty, _) in self.closure:
            ps.append("(%s : %s)" % (pn, ty))
        for (_, ln, ty, _) in self.cb_params:
            ps.append("(%s : %s)" % (ln, ty))
        if self.nfuel:
            ps.append("(%s : Nat)" % " ".join("fuel%d" % (i + 1) for i in range(self.nfuel)))
        if self.state_type is not None:
            ps.append("(st : %s)" % self.state_type)
        ps.append("(m : TM)")
        if self.hdr:
            ps.append("(%s : Hd)" % self.hdr)
        for (n, t) in self.args:
            ps.append("(%s : %s)" % (n, t))
        if self.opt:
            head = "def %s %s : Option (%s) := do" % (self.lean(), " ".join(ps), rty)
            body = top + body + ["  pure %s" % rtup]
        else:
            head = "def %s %s : %s :=" % (self.lean(), " ".join(ps), rty)
            body = top + body + ["  %s" % rtup]
        return "".join(p + "\n" for p in self.prelude) + head + "\n" + "\n".join(body) + "\n"


def translate_swap(decl):
    ps = [p for p in decl["inner"] if p["kind"] == "ParmVarDecl"]
    body = [c for c in decl["inner"] if c["kind"] == "CompoundStmt"][0]
    if len(ps) != 2 or not all("struct cstl_bintree *" in qt(p) for p in ps):
        raise Unsupported("parameters of cstl_bintree_swap")
    h = CbFn.__new__(CbFn)
    st = [x for x in body.get("inner", []) if x["kind"] != "NullStmt"]
    if len(st) != 2 or st[0]["kind"] != "DeclStmt" or qt(st[0]["inner"][0]).strip() != "struct cstl_bintree":
        raise Unsupported("body of cstl_bintree_swap")
    t = st[0]["inner"][0]["name"]
    ce = h.strip(st[1])
    if ce["kind"] != "CallExpr" or h.strip(ce["inner"][0]).get("referencedDecl", {}).get("name") != "cstl_swap":
        raise Unsupported("body of cstl_bintree_swap")
    a = [h.strip(x) for x in ce["inner"][1:]]
    names = [x.get("referencedDecl", {}).get("name") if x["kind"] == "DeclRefExpr" else None for x in a[:2]]
    if sorted(n or "" for n in names) != sorted(p["name"] for p in ps):
        raise Unsupported("cstl_swap arguments")
    tmp_ok = a[2]["kind"] == "UnaryOperator" and a[2]["opcode"] == "&" \
        and h.strip(a[2]["inner"][0]).get("referencedDecl", {}).get("name") == t
    sz = a[3]
    sz_ok = sz["kind"] == "UnaryExprOrTypeTraitExpr" and sz.get("name") == "sizeof" and (
        (sz.get("argType", {}).get("qualType", "").strip() == "struct cstl_bintree")
        or (sz.get("inner") and qt(h.strip(sz["inner"][0])).strip() == "struct cstl_bintree"))
    if not (tmp_ok and sz_ok):
        raise Unsupported("cstl_swap scratch / size arguments")
    x, y = names
    return ("-- cstl_swap(x, y, &t, sizeof(t)) exchanges the sizeof(struct cstl_bintree) bytes of the two headers\n"
            "def c_cstl_bintree_swap (%s %s : Hd) : Hd × Hd :=\n  let %s := %s\n  let %s := %s\n  let %s := %s\n  (%s, %s)\n"
            % (ps[0]["name"], ps[1]["name"], t, x, x, y, y, t, ps[0]["name"], ps[1]["name"]))


def enum_values(repo):
    """numbers of the enum constants of bintree.h (visit orders, directions)"""
    import json
    import subprocess
    cmd = ["clang-14", "-std=c99", "-DNDEBUG", "-D_POSIX_C_SOURCE=199309L", "-I", os.path.join(repo, "include"),
           "-fsyntax-only", "-Xclang", "-ast-dump=json", os.path.join(repo, "src", "bintree.c")]
    r = subprocess.run(cmd, stdout=subprocess.PIPE, stderr=subprocess.PIPE, universal_newlines=True)
    if r.returncode != 0:
        raise Unsupported("clang failed on bintree.c: %s" % r.stderr[-500:])
    tu = json.loads(r.stdout)
    vals = {}
    for d in tu.get("inner", []):
        if d.get("kind") == "EnumDecl":
            nxt = 0
            for c in d.get("inner", []):
                if c.get("kind") != "EnumConstantDecl":
                    continue
                v = None
                for x in walk(c):
                    if x.get("kind") == "ConstantExpr" and "value" in x:
                        v = int(x["value"])
                        break
                if v is None:
                    v = nxt
                vals[c["name"]] = v
                nxt = v + 1
    return vals


def translate(repo):
    names = set(BASE) | set(n for n, _ in NEW) | set(SELECTORS) | {"cstl_bintree_swap"}
    decls = clang_ast(repo, "bintree.c", names)
    check_selectors(decls)
    enums = enum_values(repo)
    want = {"CSTL_BINTREE_VISIT_ORDER_PRE": 0, "CSTL_BINTREE_VISIT_ORDER_MID": 1, "CSTL_BINTREE_VISIT_ORDER_POST": 2,
            "CSTL_BINTREE_VISIT_ORDER_LEAF": 3}
    for k_, v_ in want.items():
        # TreeFn2 writes the visit orders as these numbers (c2lean_tree.ORDERS): they must be the header's
        if enums.get(k_) != v_ or c2lean_tree.ORDERS.get(k_) != str(v_):
            raise Unsupported("visit order %s is not %d in bintree.h" % (k_, v_))
    known, chunks, report = {}, [], {}
    for name in BASE:
        if name not in decls:
            report[name] = "not found in source"
            continue
        try:
            f = TreeFn2(decls[name], known)
            txt = f.render()
            known[name] = f
            chunks.append("-- %s (src/bintree.c)\n%s" % (name, txt))
            report[name] = "translated"
        except Unsupported as e:
            report[name] = "not translated: %s" % e
        except (KeyError, IndexError, TypeError, AttributeError, ValueError) as e:
            report[name] = "not translated: unexpected AST shape (%s: %s)" % (type(e).__name__, e)
    for name, kind in NEW:
        if name not in decls:
            report[name] = "not found in source"
            continue
        try:
            f = CbFn(decls[name], kind, known)
            txt = f.render(enums)
            known[name] = f
            chunks.append("-- %s (src/bintree.c)\n%s" % (name, txt))
            report[name] = "translated"
        except Unsupported as e:
            report[name] = "not translated: %s" % e
        except (KeyError, IndexError, TypeError, AttributeError, ValueError) as e:
            report[name] = "not translated: unexpected AST shape (%s: %s)" % (type(e).__name__, e)
    if "cstl_bintree_swap" in decls:
        try:
            chunks.append("-- cstl_bintree_swap (src/bintree.c)\n" + translate_swap(decls["cstl_bintree_swap"]))
            report["cstl_bintree_swap"] = "translated"
        except Unsupported as e:
            report["cstl_bintree_swap"] = "not translated: %s" % e
        except (KeyError, IndexError, TypeError, AttributeError, ValueError) as e:
            report["cstl_bintree_swap"] = "not translated: unexpected AST shape (%s: %s)" % (type(e).__name__, e)
    else:
        report["cstl_bintree_swap"] = "not found in source"
    dirs = "".join("/-- `%s` -/\ndef %s : Nat := %d\n" % (k_, k_.lower(), enums[k_]) for k_ in
                   ("CSTL_BINTREE_FOREACH_DIR_FWD", "CSTL_BINTREE_FOREACH_DIR_REV") if k_ in enums)
    out = ("-- GENERATED by tools/c2lean_tree2.py from /repo's src/bintree.c on every check run; do not edit.\n"
           + HEADER + "set_option linter.unusedVariables false\nnamespace Cstl.Gen.%s\n" % MODULE + OPENS + "\n"
           + dirs + "\n" + "\n".join(chunks) + "\nend Cstl.Gen.%s\n" % MODULE)
    return out, report


ORDER = BASE + [n for n, _ in NEW] + ["cstl_bintree_swap"]
c2lean.AREAS["treel3"] = dict(src="bintree.c", module=MODULE, custom=translate, order=ORDER, header=HEADER, opens=OPENS)


if __name__ == "__main__":
    repo_ = sys.argv[1] if len(sys.argv) > 1 else "/repo"
    txt_, rep_ = translate(repo_)
    sys.stdout.write(txt_)
    for k_, v_ in rep_.items():
        sys.stderr.write("%s: %s\n" % (k_, v_))
