#!/usr/bin/env python3
"""Take in a seeded change produced by an independent sub-agent.

usage: tools/seed_intake.py <dir with patch.diff demo.c build.sh notes.json> <Cnn> <seed id> [tier]

1. confirms in a scratch copy of /repo (removed afterwards): the patch applies, `make test` still
   passes all 52 checks with it, the demo exits 0 on the unchanged tree and non-zero with the change;
2. runs the property's check against the changed scratch copy (VERIF_REPO);
3. stores seeded/<seed id>/ {patch.diff, demo.c, build.sh, meta.json}.
Nothing is applied to /repo itself."""
import json
import os
import re
import shutil
import subprocess
import sys
import tempfile

HERE = os.path.dirname(os.path.abspath(__file__))
VERIF = os.path.dirname(HERE)


def sh(cmd, **kw):
    return subprocess.run(cmd, stdout=subprocess.PIPE, stderr=subprocess.STDOUT, universal_newlines=True, **kw)


def main():
    src, prop, sid = sys.argv[1], sys.argv[2], sys.argv[3]
    tier = sys.argv[4] if len(sys.argv) > 4 else "quick"
    notes = {}
    if os.path.exists(os.path.join(src, "notes.json")):
        try:
            notes = json.load(open(os.path.join(src, "notes.json")))
        except Exception as e:
            notes = {"summary": "notes.json unreadable: %s" % e}
    d = tempfile.mkdtemp(prefix="seedintake_")
    rm = re.search(r"-r(\d+)-", sid)
    meta = {"property": prop, "round": int(rm.group(1)) if rm else 1, "summary": notes.get("summary"), "needs": notes.get("needs")}
    try:
        clean = os.path.join(d, "clean")
        changed = os.path.join(d, "changed")
        for dst in (clean, changed):
            shutil.copytree("/repo", dst, ignore=shutil.ignore_patterns(".git", "build"))
            os.makedirs(os.path.join(dst, "build", "test"))
            os.makedirs(os.path.join(dst, "build", "benches"))
        r = sh(["patch", "-p1", "-s", "-i", os.path.abspath(os.path.join(src, "patch.diff"))], cwd=changed)
        if r.returncode != 0:
            print("PATCH FAILED", r.stdout)
            return 2
        r = sh(["make", "-C", changed, "test"], timeout=900)
        m = re.search(r"(\d+)%: Checks: (\d+), Failures: (\d+), Errors: (\d+)", r.stdout)
        meta["tests_pass"] = bool(m and m.group(1) == "100" and m.group(2) == "52")
        meta["tests_line"] = m.group(0) if m else r.stdout[-300:]
        shutil.rmtree(os.path.join(changed, "build"), ignore_errors=True)
        demo_dir = os.path.join(d, "demo")
        shutil.copytree(src, demo_dir)
        rc = {}
        for name, root in (("pristine", clean), ("changed", changed)):
            try:
                r = sh(["bash", "build.sh", root], cwd=demo_dir, timeout=600)
                rc[name] = r.returncode
            except subprocess.TimeoutExpired:
                rc[name] = "timeout"
        meta["demo_pristine_exit"] = rc["pristine"]
        meta["demo_changed_exit"] = rc["changed"]
        confirmed = meta["tests_pass"] and rc["pristine"] == 0 and rc["changed"] != 0
        meta["confirmed"] = confirmed
        print("tests_pass=%s demo pristine=%s changed=%s -> %s" % (meta["tests_pass"], rc["pristine"], rc["changed"],
                                                                  "CONFIRMED" if confirmed else "NOT CONFIRMED"))
        env = dict(os.environ, VERIF_REPO=changed)
        r = sh([sys.executable, os.path.join(HERE, "check.py"), prop, "--tier", tier], env=env, cwd=VERIF)
        lines = [l for l in r.stdout.split("\n") if re.match(r"^(OK|VIOLATION|KNOWN-FINDING)", l)]
        print("\n".join(lines[:6]))
        print("check exit", r.returncode)
        meta["how_run"] = "python3 tools/seedtest.py seeded/%s/patch.diff %s %s" % (sid, prop, tier)
        concrete = [l for l in lines if l.startswith("VIOLATION") and "no-failing-input-found" not in l]
        nofail = [l for l in lines if l.startswith("VIOLATION") and "no-failing-input-found" in l]
        detail = ""
        if concrete or nofail:
            p = (concrete or nofail)[0].split("replay=")[1].split()[0]
            try:
                rep = json.load(open(p))
                if concrete:
                    detail = "ops=%s; oracle: %s" % (json.dumps(rep.get("ops"))[:600], str(rep.get("oracle"))[:400])
                else:
                    detail = "no longer checks: %s" % str(rep.get("no_longer_checks"))[:300]
            except Exception as e:
                detail = "replay unreadable: %s" % e
        meta["verif_exit"] = r.returncode
        meta["verif_result"] = ("caught by %s %s with a concrete failing input: %s" % (prop, tier, detail) if concrete else
                                "reported by %s %s as no-failing-input-found: %s" % (prop, tier, detail) if nofail else
                                "MISSED by %s %s (exit %d)" % (prop, tier, r.returncode))
        print(meta["verif_result"][:900])
        out = os.path.join(VERIF, "seeded", sid)
        os.makedirs(out, exist_ok=True)
        for f in ("patch.diff", "demo.c", "build.sh"):
            if os.path.exists(os.path.join(src, f)):
                shutil.copy(os.path.join(src, f), os.path.join(out, f))
        for f in os.listdir(src):
            if f.startswith("demo") and f not in ("demo.c",) and os.path.isfile(os.path.join(src, f)) and os.path.getsize(os.path.join(src, f)) < 100000 and f.endswith((".c", ".sh", ".h")):
                shutil.copy(os.path.join(src, f), os.path.join(out, f))
        with open(os.path.join(out, "meta.json"), "w") as fh:
            json.dump(meta, fh, indent=1)
            fh.write("\n")
        return 0
    finally:
        shutil.rmtree(d, ignore_errors=True)


if __name__ == "__main__":
    sys.exit(main())
