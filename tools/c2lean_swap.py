#!/usr/bin/env python3
"""
Translator: `cstl_swap` (include/cstl/common.h, a static inline function; read through the
translation unit src/common.c, after preprocessing, so the EXCH macro is seen expanded)  ->  Lean 4
in the vocabulary of lean/Cstl/Swap/Model.lean:

  void * parameters            addresses (`Nat`)
  *(uintN_t *)p   (rvalue)     loadLE (N/8) m p          little-endian typed load
  *(uintN_t *)p = e            m := storeLE (N/8) m p e  typed store (the low N/8 bytes of e)
  memcpy(d, s, n)              m := memcpyB n m d s
  switch (e) { case K: … break; … default: … }
                               if e = K then … else if … else …   (K evaluated: sizeof(uintN_t) = N/8;
                               fall-through between non-empty sections is not supported)
  do { … } while (0)           its body
  integral conversions between unsigned types: widening = the value, narrowing = `% 256^w`
  size_t  + - *                modulo 2^64, written out

The function's result is the memory after the call.  Everything else raises Unsupported and the
function is reported as "not translated" (the tie theorems then do not check).

lean/Cstl/Swap/Tie.lean (hand-written, fixed) states `c_cstl_swap = cSwap`; tools/areas/swap_tie.py
regenerates this file from the current source on every run and re-checks it.

tools/c2lean.py is not edited: this module registers itself as area "swap" in c2lean.AREAS.
"""
import json
import os
import subprocess
import sys

sys.path.insert(0, os.path.dirname(os.path.abspath(__file__)))
import c2lean                                   # noqa: E402
from c2lean import Unsupported, lname           # noqa: E402

MODULE = "SwapC"
WIDTH = {"uint8_t": 1, "uint16_t": 2, "uint32_t": 4, "uint64_t": 8,
         "unsigned char": 1, "unsigned short": 2, "unsigned int": 4, "unsigned long": 8, "size_t": 8,
         "unsigned long long": 8}


def parse_tu(repo, src):
    cmd = ["clang-14", "-std=c99", "-DNDEBUG", "-D_POSIX_C_SOURCE=199309L",
           "-I", os.path.join(repo, "include"), "-fsyntax-only",
           "-Xclang", "-ast-dump=json", os.path.join(repo, "src", src)]
    r = subprocess.run(cmd, stdout=subprocess.PIPE, stderr=subprocess.PIPE, universal_newlines=True)
    if r.returncode != 0:
        raise Unsupported("clang failed on %s: %s" % (src, r.stderr[-500:]))
    tu = json.loads(r.stdout)
    fns = {}
    for d in tu.get("inner", []):
        if d.get("kind") == "FunctionDecl" and any(c.get("kind") == "CompoundStmt" for c in d.get("inner", [])):
            fns[d["name"]] = d
    return fns


def width_of(tynode):
    """size in bytes of an unsigned integer type given as a clang type node"""
    for key in ("qualType", "desugaredQualType"):
        q = tynode.get(key, "")
        q = q.replace("const ", "").replace("volatile ", "").strip()
        if q in WIDTH:
            return WIDTH[q]
    raise Unsupported("size of type %s" % tynode.get("qualType"))


class SwapFn:
    def __init__(self, decl):
        self.decl = decl
        self.name = decl["name"]
        self.params = []
        for p in decl["inner"]:
            if p["kind"] != "ParmVarDecl":
                continue
            q = p["type"]["qualType"]
            if q.replace("const", "").replace(" ", "") in ("void*", "size_t", "unsignedlong"):
                self.params.append(p["name"])
            else:
                raise Unsupported("parameter %s of type %s" % (p.get("name"), q))
        self.body = [c for c in decl["inner"] if c["kind"] == "CompoundStmt"][0]
        if decl["type"]["qualType"].split("(")[0].strip() != "void":
            raise Unsupported("return type")

    # ---- expressions (values are Nat: integers and addresses)
    def expr(self, e):
        k = e["kind"]
        if k in ("ParenExpr", "ConstantExpr"):
            return self.expr(e["inner"][0])
        if k in ("ImplicitCastExpr", "CStyleCastExpr"):
            ck = e.get("castKind")
            if ck in ("LValueToRValue", "NoOp", "BitCast"):
                inner = e["inner"][0]
                if ck == "LValueToRValue":
                    core = inner
                    while core["kind"] == "ParenExpr":
                        core = core["inner"][0]
                    if core["kind"] == "UnaryOperator" and core["opcode"] == "*":
                        return self.load(core)
                return self.expr(inner)
            if ck == "IntegralCast":
                lit = e["inner"][0]
                while lit["kind"] in ("ParenExpr", "ConstantExpr"):
                    lit = lit["inner"][0]
                if lit["kind"] == "IntegerLiteral":
                    return lit["value"]
                src_w = width_of(e["inner"][0]["type"])
                dst_w = width_of(e["type"])
                v = self.expr(e["inner"][0])
                if dst_w >= src_w:
                    return v
                return "(%s %% 256 ^ %d)" % (v, dst_w)
            raise Unsupported("cast %s" % ck)
        if k == "DeclRefExpr":
            n = e["referencedDecl"]["name"]
            if n in self.params:
                return lname(n)
            raise Unsupported("reference to %s" % n)
        if k == "IntegerLiteral":
            return e["value"]
        if k == "BinaryOperator" and e["opcode"] in ("+", "-", "*"):
            a, b = self.expr(e["inner"][0]), self.expr(e["inner"][1])
            t = e.get("type", {}).get("qualType", "")
            W = "18446744073709551616"
            if t.replace("const ", "") in ("size_t", "unsigned long", "uintptr_t"):
                if e["opcode"] == "+":
                    return "((%s + %s) %% %s)" % (a, b, W)
                if e["opcode"] == "-":
                    return "((%s + %s - %s %% %s) %% %s)" % (a, W, b, W, W)
                return "((%s * %s) %% %s)" % (a, b, W)
            raise Unsupported("arithmetic in type %s" % t)
        if k == "UnaryExprOrTypeTraitExpr" and e.get("name") == "sizeof":
            if "argType" in e:
                return str(width_of(e["argType"]))
            raise Unsupported("sizeof(expression)")
        raise Unsupported("expression kind %s" % k)

    def typed_ptr(self, deref):
        """`*(T *)p` -> (width of T, address text)"""
        w = width_of(deref["type"])
        return w, self.expr(deref["inner"][0])

    def load(self, deref):
        w, a = self.typed_ptr(deref)
        return "(loadLE %d m %s)" % (w, a)

    # ---- statements: each returns lines that rebind `m`
    def stmts(self, lst, ind):
        out = []
        for s in lst:
            out += self.stmt(s, ind)
        return out

    def stmt(self, s, ind):
        pad = "  " * ind
        k = s["kind"]
        if k == "NullStmt":
            return []
        if k == "CompoundStmt":
            return self.stmts(s.get("inner", []), ind)
        if k == "DoStmt":
            c = s["inner"][1]
            while c["kind"] in ("ParenExpr", "ImplicitCastExpr"):
                c = c["inner"][0]
            if c["kind"] == "IntegerLiteral" and c["value"] == "0":
                return self.stmt(s["inner"][0], ind)
            raise Unsupported("loop")
        if k == "BinaryOperator" and s["opcode"] == "=":
            lhs = s["inner"][0]
            while lhs["kind"] == "ParenExpr":
                lhs = lhs["inner"][0]
            if lhs["kind"] == "UnaryOperator" and lhs["opcode"] == "*":
                w, a = self.typed_ptr(lhs)
                v = self.expr(s["inner"][1])
                return [pad + "let m := storeLE %d m %s %s" % (w, a, v)]
            raise Unsupported("assignment target")
        if k == "CallExpr":
            c = s["inner"][0]
            while c["kind"] in ("ImplicitCastExpr", "ParenExpr"):
                c = c["inner"][0]
            fn = c.get("referencedDecl", {}).get("name")
            if fn == "memcpy":
                d, sr, n = [self.expr(a) for a in s["inner"][1:4]]
                return [pad + "let m := memcpyB %s m %s %s" % (n, d, sr)]
            raise Unsupported("call to %s" % fn)
        if k == "SwitchStmt":
            return self.switch(s, ind)
        raise Unsupported("statement kind %s" % k)

    def switch(self, s, ind):
        pad = "  " * ind
        scrut = self.expr(s["inner"][0])
        body = s["inner"][1]
        if body["kind"] != "CompoundStmt":
            raise Unsupported("switch body")
        sections = []           # (label text or None, [statements])
        cur = None
        open_ = False
        for st in body.get("inner", []):
            if st["kind"] in ("CaseStmt", "DefaultStmt"):
                if open_ and cur is not None and cur[1]:
                    raise Unsupported("fall-through in switch")
                if st["kind"] == "CaseStmt":
                    lab = self.expr(st["inner"][0])
                    sub = st["inner"][1]
                else:
                    lab = None
                    sub = st["inner"][0]
                if open_ and cur is not None:       # empty section falling into this one
                    raise Unsupported("stacked case labels")
                cur = (lab, [sub])
                sections.append(cur)
                open_ = True
            elif st["kind"] == "BreakStmt":
                open_ = False
            else:
                if not open_ or cur is None:
                    raise Unsupported("statement outside a switch section")
                cur[1].append(st)
        labelled = [x for x in sections if x[0] is not None]
        default = [x for x in sections if x[0] is None]
        if len(default) > 1 or (default and sections[-1][0] is not None):
            raise Unsupported("default label not last")
        if len(set(l for l, _ in labelled)) != len(labelled):
            raise Unsupported("duplicate case label")
        out = []
        for i, (lab, sts) in enumerate(labelled):
            out.append(pad + ("if" if i == 0 else "else if") + " %s = %s then" % (scrut, lab))
            out += self.stmts(sts, ind + 1)
            out.append(pad + "  m")
        out.append(pad + "else" if labelled else pad + "if True then")
        out += self.stmts(default[0][1], ind + 1) if default else []
        out.append(pad + "  m")
        # the switch is an expression yielding the memory
        out[0] = pad + "let m := " + out[0].strip()
        return [out[0]] + ["  " + l for l in out[1:]]

    def render(self):
        lines = self.stmts(self.body.get("inner", []), 1)
        ps = " ".join(lname(p) for p in self.params)
        return ("/-- `%s` -/\ndef c_%s (m : Mem) (%s : Nat) : Mem :=\n%s\n  m\n" % (self.name, self.name, ps, "\n".join(lines)))


def translate_swap(repo):
    report, chunks = {}, []
    try:
        fns = parse_tu(repo, "common.c")
        if "cstl_swap" not in fns:
            report["cstl_swap"] = "not found in source"
        else:
            chunks.append(SwapFn(fns["cstl_swap"]).render())
            report["cstl_swap"] = "translated"
    except Unsupported as e:
        report["cstl_swap"] = "not translated: %s" % e
    out = ("-- GENERATED by tools/c2lean_swap.py from /repo's include/cstl/common.h (through src/common.c) on every\n"
           "-- check run; do not edit.\n"
           "import Cstl.Swap.Model\nset_option linter.unusedVariables false\nnamespace Cstl.Gen.%s\nopen Cstl.Swap\n\n" % MODULE
           + "\n".join(chunks) + "\nend Cstl.Gen.%s\n" % MODULE)
    return out, report


c2lean.AREAS["swap"] = dict(src="common.c (include/cstl/common.h)", module=MODULE, custom=translate_swap,
                            header="import Cstl.Swap.Model\n")


if __name__ == "__main__":
    repo = sys.argv[1] if len(sys.argv) > 1 else os.environ.get("VERIF_REPO", "/repo")
    txt, rep = translate_swap(repo)
    sys.stdout.write(txt)
    for k, v in rep.items():
        sys.stderr.write("%s: %s\n" % (k, v))
