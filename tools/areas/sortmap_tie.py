"""Translator ties for
  "sort": the raw-array algorithms of src/array.c  <->  lean/Cstl/Sort/Model.lean        (property C11)
  "map" : src/map.c                                <->  the map layer of lean/Cstl/Tree/Model.lean (C08)

tools/c2lean_sort.py / tools/c2lean_map.py regenerate the Lean translation of these C functions from
vlib.REPO's *current* source; lean/Cstl/Sort/Tie.lean and lean/Cstl/Tree/TieMap.lean (fixed) tie the
hand-written models to the translations and are re-checked by the kernel against the regenerated
modules (which shadow the committed lean/Cstl/Gen/SortC.lean, MapC.lean), with the axiom audit, on
every run.

    tie_run(chk, which)   which in {"sort", "map"}: build the tie module, escape-hatch scan of it and
                          what it imports, regenerate + re-check; per-theorem results go to
                          chk.theorems, the translator's per-function report to
                          chk.extra["translator"][<area>], a summary of what broke first to
                          chk.extra["tie_broken"][which]; returns True iff every theorem checked
    TIE_THEOREMS          {"sort": [...], "map": [...]}: every theorem of the tie file (fully qualified)
    MAIN_TIES             the theorems that carry the tie of one C function each (the others are steps)
    TIED_FUNCTIONS        C function -> the theorem(s) that tie it
"""
import os
import re
import sys

_HERE = os.path.dirname(os.path.dirname(os.path.dirname(os.path.abspath(__file__))))
if os.path.join(_HERE, "tools") not in sys.path:
    sys.path.insert(0, os.path.join(_HERE, "tools"))

# registers the areas "sortc" and "mapc" in c2lean.AREAS (at import time)
import c2lean  # noqa: E402,F401
import c2lean_sort  # noqa: E402,F401
import c2lean_map  # noqa: E402,F401

CONF = {
    "sort": dict(area="sortc", module="Cstl.Sort.Tie", file=("lean", "Cstl", "Sort", "Tie.lean"), ns="Cstl.Sort.Tie.", prop="C11"),
    "map": dict(area="mapc", module="Cstl.Tree.TieMap", file=("lean", "Cstl", "Tree", "TieMap.lean"), ns="Cstl.Tree.TieMap.", prop="C08"),
}
LEAN_TARGETS = {"sort": ["Cstl.Sort.Tie"], "map": ["Cstl.Tree.TieMap"]}


def _tie_theorems(which):
    c = CONF[which]
    p = os.path.join(_HERE, *c["file"])
    if not os.path.exists(p):
        return []
    return [c["ns"] + n for n in re.findall(r"^theorem\s+(\S+)", open(p).read(), flags=re.M)]


TIE_THEOREMS = {w: _tie_theorems(w) for w in CONF}

_S, _M = CONF["sort"]["ns"], CONF["map"]["ns"]
TIED_FUNCTIONS = {
    "sort": {
        "cstl_raw_array_qsort_p": [_S + "scanUp_tie", _S + "scanDown_tie", _S + "partLoop_tie", _S + "partition_tie"],
        "cstl_raw_array_qsort": [_S + "qsort_step", _S + "qsort_tie"],
        "cstl_raw_array_hsort_b": [_S + "hsortb_first", _S + "hsortb_next", _S + "siftDown_next_tie", _S + "siftDown_tie"],
        "cstl_raw_array_hsort": [_S + "heapify_tie", _S + "extract_tie", _S + "hsort_tie"],
        "cstl_raw_array_sort": [_S + "sort_tie"],
        "cstl_raw_array_search": [_S + "searchLoop_tie", _S + "search_tie"],
        "cstl_raw_array_find": [_S + "findLoop_tie", _S + "find_tie"],
        "cstl_raw_array_reverse": [_S + "revLoop_tie", _S + "reverse_tie"],
    },
    "map": {
        "cstl_map_iterator_init": [_M + "iterInit_some", _M + "iterInit_none"],
        "cstl_map_node_alloc": [_M + "nodeAlloc_tie"],
        "__cstl_map_find": [_M + "privFind_tie"],
        "cstl_map_find": [_M + "mapFind_tie"],
        "cstl_map_insert": [_M + "mapInsert_tie"],
        "cstl_map_erase_iterator": [_M + "mapEraseNode_tie"],
        "cstl_map_erase": [_M + "mapErase_tie"],
        "__cstl_map_node_clear": [_M + "nodeClear_tie", _M + "clearFold", _M + "mapClear_tie"],
    },
}
MAIN_TIES = {w: sorted(set(t for ts in TIED_FUNCTIONS[w].values() for t in ts)) for w in CONF}


def tie_run(chk, which, theorems=None):
    """Regenerate the translation from vlib.REPO and re-check the tie theorems against it.
    Returns True iff every requested theorem checked."""
    import vlib
    c = CONF[which]
    thms = list(theorems) if theorems is not None else list(TIE_THEOREMS[which])
    ok, out = vlib.lake_build(LEAN_TARGETS[which])
    if not ok:
        errs = [l for l in out.split("\n") if "error" in l][:5]
        # the committed Cstl/Gen copy may be out of date w.r.t. a changed source; the check below uses
        # the regenerated module, so this is a note, not a verdict
        chk.notes.append("lake build %s (against the committed Cstl/Gen copy): %s" % (
            " ".join(LEAN_TARGETS[which]), " | ".join(errs) or out[-300:]))
    for h in vlib.grep_forbidden([c["module"]]):
        if h not in chk.forbidden:
            chk.forbidden.append(h)
    vlib.translator_tie(chk, c["area"], c["module"], thms)
    # a theorem whose own proof fails is a root; theorems that merely use it show `sorryAx`
    bad = [t for t in thms if not chk.theorems.get(t, (False, ""))[0]]
    roots = [t for t in bad if "sorryAx" not in chk.theorems.get(t, (False, ""))[1]]
    deps = [t for t in bad if t not in roots]
    if bad:
        chk.extra.setdefault("tie_broken", {})[which] = {"first_to_fail": roots, "fail_because_they_use_those": deps}
    rep = chk.extra.get("translator", {}).get(c["area"], {})
    if rep:
        chk.extra.setdefault("translator_summary", {})[c["area"]] = {
            "translated": sorted(k for k, v in rep.items() if v.startswith("translated")),
            "not_translated": {k: v for k, v in rep.items() if not v.startswith("translated")},
        }
        for fn, st in sorted(rep.items()):
            if not st.startswith("translated") and fn in TIED_FUNCTIONS[which]:
                chk.notes.append("c2lean_%s: %s %s" % (which, fn, st))
    return not bad


if __name__ == "__main__":
    # stand-alone: python3 tools/areas/sortmap_tie.py [sort|map ...]   (honours VERIF_REPO)
    import time
    import vlib
    rc = 0
    for which in (sys.argv[1:] or ["sort", "map"]):
        t0 = time.time()
        chk = vlib.Check(CONF[which]["prop"], "quick", 0)
        good = tie_run(chk, which)
        for t in TIE_THEOREMS[which]:
            okk, d = chk.theorems.get(t, (False, "not checked"))
            print("%-6s %s  %s" % ("ok" if okk else "BROKEN", t, "" if okk else d[:200]))
        tb = chk.extra.get("tie_broken", {}).get(which)
        if tb:
            print("first to fail:", ", ".join(tb["first_to_fail"]))
        for n in chk.notes:
            print("note:", n)
        for b in chk.build_problems + [("forbidden", h) for h in chk.forbidden]:
            print("problem:", b)
        print("%s: %d/%d tie theorems check against %s (%.1fs)" % (
            which, sum(1 for t in TIE_THEOREMS[which] if chk.theorems.get(t, (False,))[0]), len(TIE_THEOREMS[which]),
            vlib.REPO, time.time() - t0))
        if not good or chk.build_problems or chk.forbidden:
            rc = 1
    vlib.cleanup()
    sys.exit(rc)
