"""Second translator tie of the two list areas (properties C12 dlist, C13 slist).

`tools/c2lean_lists.py` translates the list functions the first translator
does not cover — `cstl_slist_sort`, `cstl_slist_foreach`, `cstl_dlist_sort`,
`cstl_dlist_foreach`, `cstl_dlist_find(_visit)`, and `cstl_dlist_swap` again —
from the clang AST of vlib.REPO's *current* source.  `tie2_run(chk, area)`

  1. builds the link-level sort models and their refinement proofs
     (`Cstl.<A>.SortL`) and the committed tie (`Cstl.<A>.Tie2`),
  2. scans those sources (and the fresh translation) for escape hatches,
  3. audits the axioms of the link-level sort theorems (`SORTL_THEOREMS`),
  4. regenerates the translation into a scratch directory that shadows the
     committed copy `lean/Cstl/Gen/<A>C2.lean` and re-checks the fixed
     theorems of `lean/Cstl/<A>/Tie2.lean` (`translation = link-level model`)
     against it, with the axiom audit — exactly like `vlib.translator_tie`.

Results go to `chk.theorems` (a theorem that no longer checks makes the
verdict of the property fail with the name of that theorem).

Stand-alone:  python3 tools/areas/lists_tie.py slist|dlist   (prints the table;
              honours VERIF_REPO)
"""
import os
import re
import sys

sys.path.insert(0, os.path.dirname(os.path.dirname(os.path.abspath(__file__))))
import vlib              # noqa: E402

AREAS2 = {
    "slist": dict(tie="Cstl.SList.Tie2", sortl="Cstl.SList.SortL", ns="Cstl.SList",
                  models=["Cstl.SList.SortL", "Cstl.SList.ForeachL"]),
    "dlist": dict(tie="Cstl.DList.Tie2", sortl="Cstl.DList.SortL", ns="Cstl.DList",
                  models=["Cstl.DList.SortL"]),
}

# link-level sort: model refines the sequence-level model; conclusion of sort_spec;
# slist foreach with an element-consuming visit function
SORTL_THEOREMS = {
    "slist": ["Cstl.SList.msort_fuel", "Cstl.SList.splitLoop_spec", "Cstl.SList.splitLinks_spec",
              "Cstl.SList.mergeLoop_spec", "Cstl.SList.sortL_refines", "Cstl.SList.sortL_spec",
              "Cstl.SList.sortL_eq_sort", "Cstl.SList.fresh_example",
              "Cstl.SList.foreachLoopP_spec", "Cstl.SList.foreachP_spec", "Cstl.SList.foreachLoopP_pure"],
    "dlist": ["Cstl.DList.splitLinks_mem", "Cstl.DList.splitLinks_spec", "Cstl.DList.mergeLoop_spec",
              "Cstl.DList.sortL_refines", "Cstl.DList.sortL_spec", "Cstl.DList.sortL_eq_sort"],
}


def _tie_file(area):
    return os.path.join(vlib.LEAN, AREAS2[area]["tie"].replace(".", "/") + ".lean")


def _tie_theorems(area):
    src = open(_tie_file(area)).read()
    return [AREAS2[area]["tie"] + "." + n for n in re.findall(r"^theorem\s+(\S+)", src, flags=re.M)]


TIE2_THEOREMS = {a: _tie_theorems(a) for a in AREAS2}
LEAN_TARGETS = {a: AREAS2[a]["models"] + [AREAS2[a]["tie"]] for a in AREAS2}


def tie2_run(chk, area):
    import c2lean
    import c2lean_lists
    a2 = AREAS2[area]
    gen = c2lean_lists.AREAS2[area]["module"]
    tie_theorems = TIE2_THEOREMS[area]

    # 1. build (committed sources)
    ok, out = vlib.lake_build(LEAN_TARGETS[area])
    if not ok:
        errs = [l for l in out.split("\n") if "error" in l][:5]
        chk.build_problems.append(("lake build %s" % " ".join(LEAN_TARGETS[area]), " | ".join(errs) or out[-500:]))

    # 2. escape hatches
    for h in vlib.grep_forbidden(a2["models"] + [a2["tie"]]):
        if h not in chk.forbidden:
            chk.forbidden.append(h)

    # 3. link-level sort theorems
    chk.theorems.update(vlib.audit(SORTL_THEOREMS[area], a2["models"]))

    # 4. fresh translation, fixed tie theorems re-checked against it
    try:
        txt, report = c2lean_lists.translate(area, vlib.REPO)
    except c2lean.Unsupported as e:
        for t in tie_theorems:
            chk.theorems[t] = (False, "translator could not read the source: %s" % e)
        return
    chk.extra.setdefault("translator", {})[area + " (c2lean_lists)"] = report
    for ln, line in enumerate(txt.split("\n"), 1):
        if vlib.FORBIDDEN.search(line.split("--")[0]):
            chk.forbidden.append("generated %s.lean:%d: %s" % (gen, ln, line.strip()))
    d = vlib.mktmp("tie2")
    gdir = os.path.join(d, "GenTmp")
    os.makedirs(gdir)
    gfile = os.path.join(gdir, gen + ".lean")
    with open(gfile, "w") as fh:
        fh.write(txt)
    committed = os.path.join(vlib.LEAN, "Cstl", "Gen", gen + ".lean")
    if os.path.exists(committed) and open(committed).read() != txt:
        chk.notes.append("translation of src/%s differs from the committed copy lean/Cstl/Gen/%s.lean"
                         % (c2lean.AREAS[area]["src"], gen))
    r = vlib.sh(["lake", "env", "lean", "--root=" + d, "-o", gfile[:-5] + ".olean", gfile], cwd=vlib.LEAN)
    if r.returncode != 0:
        for t in tie_theorems:
            chk.theorems[t] = (False, "generated translation does not elaborate: " + r.stdout[-400:])
        return
    base_path = vlib.sh(["lake", "env", "printenv", "LEAN_PATH"], cwd=vlib.LEAN).stdout.strip()
    tie_src = open(_tie_file(area)).read()
    if "import Cstl.Gen.%s" % gen not in tie_src:
        for t in tie_theorems:
            chk.theorems[t] = (False, "tie file does not import Cstl.Gen.%s" % gen)
        return
    tie_src = tie_src.replace("import Cstl.Gen.%s" % gen, "import GenTmp.%s" % gen)
    tfile = os.path.join(d, "Tie2Check.lean")
    with open(tfile, "w") as fh:
        fh.write(tie_src)
        fh.write("\n")
        for t in tie_theorems:
            fh.write("#print axioms %s\n" % t)
    env = dict(os.environ, LEAN_PATH=d + ":" + base_path)
    r = vlib.sh(["lean", "--root=" + d, tfile], cwd=vlib.LEAN, env=env)
    out = r.stdout
    res = {t: (False, "tie theorem does not check against the current source's translation") for t in tie_theorems}
    for m in re.finditer(r"'([^']+)' depends on axioms: \[([^\]]*)\]", out, flags=re.S):
        axs = [x.strip() for x in m.group(2).replace("\n", " ").split(",") if x.strip()]
        if m.group(1) in res:
            res[m.group(1)] = (all(x in vlib.ALLOWED_AXIOMS for x in axs), "axioms: " + ", ".join(axs))
    for m in re.finditer(r"'([^']+)' does not depend on any axioms", out):
        if m.group(1) in res:
            res[m.group(1)] = (True, "axioms: none")
    errs = [l for l in out.split("\n") if "error" in l]
    if errs:
        # a failed proof may still leave a constant behind: be strict and mark the theorem
        # that encloses each error line
        src_lines = tie_src.split("\n")
        located = False
        for e in errs:
            m = re.search(r"Tie2Check\.lean:(\d+):", e)
            if not m:
                continue
            ln = int(m.group(1))
            for k in range(min(ln, len(src_lines)) - 1, -1, -1):
                mm = re.match(r"(?:theorem|def)\s+(\S+)", src_lines[k])
                if mm:
                    full = a2["tie"] + "." + mm.group(1)
                    if full in res:
                        res[full] = (False, "does not check against the current translation: " + e.strip()[:300])
                        located = True
                    break
        if not located:
            for t in tie_theorems:
                res[t] = (False, "tie file does not elaborate against the current translation: " + errs[0].strip()[:300])
    # (a theorem proved from one that failed shows `sorryAx` among its axioms, or fails itself
    # with an unknown identifier, and is rejected above)
    chk.theorems.update(res)


class _Stub:
    def __init__(self):
        self.theorems, self.forbidden, self.build_problems, self.notes, self.extra = {}, [], [], [], {}


if __name__ == "__main__":
    areas = sys.argv[1:] or ["slist", "dlist"]
    bad = 0
    for a in areas:
        chk = _Stub()
        tie2_run(chk, a)
        print("== %s  (repo %s)" % (a, vlib.REPO))
        for k, v in chk.extra.get("translator", {}).items():
            for fn, st in v.items():
                print("   translate %-28s %s" % (fn, st))
        for p in chk.build_problems:
            print("   BUILD PROBLEM %s: %s" % p)
            bad += 1
        for h in chk.forbidden:
            print("   FORBIDDEN %s" % h)
            bad += 1
        for n in chk.notes:
            print("   note: %s" % n)
        for t in sorted(chk.theorems):
            ok, det = chk.theorems[t]
            print("   %-4s %-45s %s" % ("ok" if ok else "FAIL", t, det[:160]))
            bad += 0 if ok else 1
    vlib.cleanup()
    sys.exit(1 if bad else 0)
