"""treel, translator tie part 2: the pointer-manipulating tree code beyond rotate / erase surgery.

tools/c2lean_tree.py regenerates Lean definitions from the clang AST of the CURRENT src/bintree.c
and src/rbtree.c (descent loops of insert / find through the `bc` pointer-to-pointer, slide / next,
the complete __cstl_bintree_erase, the red-black fix-up functions with their child-selector
parameters, the loops of cstl_rbtree_insert / __cstl_rbtree_erase with the stack-local stand-in
node, the public erase functions, the __cstl_bintree_foreach recursion) and the fixed theorems of
lean/Cstl/TreeL/Tie2.lean (`model … = some r -> translation … = some r`, loops by induction on the
fuel; the traversal: translation = functional `walk` on every memory representing a tree) are
re-checked by the kernel against that regenerated module, with the axiom audit.

`tie2_run(chk)` is `vlib.translator_tie` applied to this second translator: the translation goes to
a scratch module GenTmp.TreeLC2, the import of the committed copy Cstl.Gen.TreeLC2 in Tie2.lean is
redirected to it.  Records into `chk.theorems` / `chk.extra["translator"]["treel2"]`; does not call
chk.finish().

Call sites (to be wired by the lead): tools/props/C01.py and tools/props/C02.py, next to
`treel.link_level_run(chk)`:

    from areas import treel_tie
    treel_tie.tie2_run(chk)            # all ties (the file is checked as a whole anyway)
"""
import os
import re
import sys

_TOOLS = os.path.dirname(os.path.dirname(os.path.abspath(__file__)))
if _TOOLS not in sys.path:
    sys.path.insert(0, _TOOLS)

AREA = "treel2"
TIE2_MODULE = "Cstl.TreeL.Tie2"
GEN_MODULE = "TreeLC2"

_T = "Cstl.TreeL.Tie2."

# which C function each theorem ties to which model function
TIE2_TABLE = [
    # theorem,              C function(s),                                 model function (Cstl.TreeL.*)
    ("rotate_tie",          "__cstl_bintree_rotate",                        "rotate"),
    ("rotate_some",         "__cstl_bintree_rotate",                        "rotate"),
    ("fixInsertion_tie",    "cstl_rbtree_fix_insertion",                    "fixInsertion"),
    ("insFixLoop_tie",      "cstl_rbtree_insert (while loop)",              "insFixLoop"),
    ("insLoop_tie",         "cstl_bintree_insert (while loop through bc)",  "insLoop"),
    ("btInsert_tie",        "cstl_bintree_insert",                          "btInsert / attach"),
    ("rbInsert_tie",        "cstl_rbtree_insert",                           "rbInsert"),
    ("fixDeletion_tie",     "cstl_rbtree_fix_deletion",                     "fixDeletion (fixDelSibling / fixDelCases / fixDelFar)"),
    ("delFixLoop_tie",      "__cstl_rbtree_erase (while loop, stand-in)",   "delFixLoop"),
    ("slide_tie",           "cstl_bintree_slide",                           "slide"),
    ("next_tie",            "__cstl_bintree_next / __cstl_bintree_adjacent", "slide (under bn->r != NULL)"),
    ("btEraseNode_tie",     "__cstl_bintree_erase (with the call of next)", "btEraseNode"),
    ("rbEraseNode_tie",     "__cstl_rbtree_erase",                          "rbEraseNode / rbEraseFix"),
    ("findLoop_tie",        "cstl_bintree_find (while loop)",               "findLoop"),
    ("btFind_tie",          "cstl_bintree_find",                            "btFind"),
    ("rbFind_tie",          "cstl_rbtree_find",                             "btFind"),
    ("btErase_tie",         "cstl_bintree_erase",                           "btErase"),
    ("rbErase_tie",         "cstl_rbtree_erase",                            "rbErase"),
    ("foreach_refines",     "__cstl_bintree_foreach (recursion, callback)", "Cstl.Tree.walk on every memory that represents a tree"),
    ("foreach_root_refines", "__cstl_bintree_foreach from bt->root",        "Cstl.Tree.foreach"),
]

# Lean modules Tie2.lean imports besides the generated one (must be built before the scratch check)
LEAN_DEPS = ["Cstl.TreeL.Model", "Cstl.TreeL.Lemmas", "Cstl.Tree.Events"]


def _tie2_theorems():
    """every `theorem` of Tie2.lean that starts a line (helpers included: an error in a helper must not hide)"""
    src = open(os.path.join(os.path.dirname(_TOOLS), "lean", "Cstl", "TreeL", "Tie2.lean")).read()
    names = re.findall(r"^theorem\s+(\S+)", src, flags=re.M)
    return [_T + n for n in names]


TIE2_THEOREMS = _tie2_theorems()

# per property: C01 = unbalanced tree code, C02 = the red-black code on top of it
_C02_ONLY = {"fixInsertion_tie", "insFixLoop_tie", "rbInsert_tie", "fixDeletion_tie", "delFixLoop_tie",
             "rbEraseNode_tie", "rbFind_tie", "rbErase_tie"}
TIE2_BY_PROP = {
    "C01": [t for t in TIE2_THEOREMS if t[len(_T):] not in _C02_ONLY],
    "C02": list(TIE2_THEOREMS),
}


def _register():
    """make the second translator visible to vlib.translator_tie (which looks areas up in c2lean.AREAS);
    nothing in tools/c2lean.py is edited — the entry is added to the dictionary at import time"""
    import c2lean
    import c2lean_tree
    if AREA not in c2lean.AREAS:
        c2lean.AREAS[AREA] = dict(
            src="bintree.c + src/rbtree.c",
            order=[n for _, names in c2lean_tree.SOURCES for n in names],
            module=GEN_MODULE,
            custom=lambda repo: c2lean_tree.translate(repo),
        )
    return c2lean_tree


def tie2_run(chk, theorems=None):
    """Regenerate Cstl.Gen.TreeLC2 from vlib.REPO's current source into a scratch directory and re-check
    Tie2.lean against it (kernel + `#print axioms`), the way vlib.translator_tie does for Tie.lean.
    Returns False if the model library could not be built."""
    import vlib
    _register()
    ok, out = vlib.lake_build(LEAN_DEPS)
    if not ok:
        errs = [l for l in out.split("\n") if "error" in l][:5]
        chk.build_problems.append(("lake build %s" % " ".join(LEAN_DEPS), " | ".join(errs) or out[-500:]))
        return False
    for h in vlib.grep_forbidden([TIE2_MODULE]):
        if h not in chk.forbidden:
            chk.forbidden.append(h)
    ths = list(theorems) if theorems is not None else list(TIE2_THEOREMS)
    vlib.translator_tie(chk, AREA, TIE2_MODULE, ths)
    rep = chk.extra.get("translator", {}).get(AREA)
    if rep is not None:
        # a function the translator can no longer read is a broken tie as well (its theorems then fail
        # to elaborate and are reported above; this keeps the reason visible in the evidence)
        bad = {k: v for k, v in rep.items() if not v.startswith("translated")}
        if bad:
            chk.notes.append("c2lean_tree: " + "; ".join("%s: %s" % kv for kv in sorted(bad.items())))
    chk.extra.setdefault("translator_ties", {})[AREA] = {
        "module": TIE2_MODULE,
        "theorems": len(ths),
        "table": [{"theorem": _T + t, "c": c, "model": m} for (t, c, m) in TIE2_TABLE],
    }
    return True


def main(argv):
    """stand-alone: python3 tools/areas/treel_tie.py  (VERIF_REPO selects the source tree)"""
    import time
    import vlib
    t0 = time.time()
    chk = vlib.Check("C02", "quick", 0)
    tie2_run(chk)
    bad = 0
    for t in TIE2_THEOREMS:
        ok, detail = chk.theorems.get(t, (False, "not checked"))
        if not ok:
            bad += 1
        print("%-4s %s  (%s)" % ("ok" if ok else "FAIL", t, detail[:160]))
    for k, v in sorted(chk.extra.get("translator", {}).get(AREA, {}).items()):
        print("translator: %s: %s" % (k, v))
    for n in chk.notes + ["forbidden: " + h for h in chk.forbidden] + ["build: %s %s" % b for b in chk.build_problems]:
        print("note:", n)
    print("repo=%s  %d/%d tie theorems check  %.1fs" % (vlib.REPO, len(TIE2_THEOREMS) - bad, len(TIE2_THEOREMS), time.time() - t0))
    vlib.cleanup()
    return 1 if (bad or chk.forbidden or chk.build_problems) else 0


if __name__ == "__main__":
    sys.exit(main(sys.argv))
