"""tree area: src/bintree.c src/rbtree.c src/map.c  <->  lean/Cstl/Tree
(properties C01, C02, C08 and the tree/map part of C15)"""
import re

NAME = "tree"
HARNESS_SRCS = ["tree.c"]
REPO_SRCS = ["bintree.c", "rbtree.c", "map.c", "common.c"]
LEAN_TARGETS = ["Cstl.Tree.Props", "m_tree"]
IMPORTS = ["Cstl.Tree.Props"]

_T = "Cstl.Tree."

THEOREMS = {
    "C01": [_T + n for n in (
        # binary tree
        "btInsert_spec", "btInsertAt_find_eq", "find_found", "find_iff", "btErase_some", "btErase_none",
        # red-black tree: rotations / recolouring preserve the in-order sequence
        "rbInsert_inorder", "rbErase_inorder", "rbInsert_spec", "rbInsertAt_find_eq", "rbErase_some", "rbErase_none",
        # traversal
        "events_midleaf", "events_rev", "inorder_mirror", "events_count", "events_bracket",
        "foreach_events", "foreach_once", "foreach_stop", "clear_spec", "clear_reinit",
        # histories against the multiset specification
        "btStep_refines", "rbStep_refines", "bt_run_refines", "rb_run_refines", "bt_badOp_only_if_held",
        # two trees with swap
        "pairRun_refines", "bt_pair_run_refines", "rb_pair_run_refines",
    )],
    "C02": [_T + n for n in (
        "inv_iff_bal", "rbInsert_inv", "rbInsertAt_inv", "rbErase_inv", "sibling_exists",
        "height_bound", "height_log_bound", "rbStep_inv", "run_inv", "run_no_segv", "run_height_bound",
        "rb_pair_run_refines", "rb_pair_run_inv",
    )],
    "C08": [_T + n for n in (
        "mapInsert_existing", "mapInsert_fail", "mapInsert_new", "mapFind_spec", "mapEraseNode_spec",
        "mapErase_some", "mapErase_none", "mapClear_spec", "mapSize_spec", "find_eq_absMap",
        "mapStep_refines", "run_refines", "rep_size", "rep_live_iff",
    )],
    "C15": [_T + n for n in (
        "clear_spec", "clear_reinit", "clearTrace_cbs", "clearTrace_no_touch_after_cb", "mapClear_spec",
    )],
}

# ---------------------------------------------------------------------------
# parsing of the dump

_TOK = re.compile(r"[()]|[^\s()]+")


def parse_shape(s):
    """'(1:5B (2:3R . .) .)' -> nested dict tree (None = missing child).
    label fields: id:key[colour]  or  id:key:kp:val[colour]"""
    toks = _TOK.findall(s)
    pos = [0]

    def node():
        t = toks[pos[0]]
        pos[0] += 1
        if t == ".":
            return None
        if t != "(":
            raise ValueError("bad shape token " + t)
        lbl = toks[pos[0]]
        pos[0] += 1
        col = None
        if lbl[-1] in "RB":
            col = lbl[-1]
            lbl = lbl[:-1]
        f = lbl.split(":")
        n = {"id": int(f[0]), "key": None if f[1] == "?" else int(f[1]), "c": col}
        if len(f) == 4:
            n["kp"] = None if f[2] == "?" else int(f[2])
            n["val"] = None if f[3] == "?" else int(f[3])
        n["l"] = node()
        n["r"] = node()
        if toks[pos[0]] != ")":
            raise ValueError("missing )")
        pos[0] += 1
        return n

    t = node()
    if pos[0] != len(toks):
        raise ValueError("trailing tokens")
    return t


_STATE = re.compile(r"n=(\d+) (?:links=bad@(-?\d+)|h=(\d+)/(\d+) (?:x=(\d+)|(.*?)))(?: live=(-?\d+))?$")


def parse_line(line):
    """-> (result, state dict) ; state = None for 'mode' lines; raises ValueError"""
    if "|" not in line:
        raise ValueError("no state separator")
    res, st = line.split("|", 1)
    res = res.strip()
    st = st.strip()
    if st == "":
        return res, None
    m = _STATE.match(st)
    if not m:
        raise ValueError("unparsable state '%s'" % st[:80])
    d = {"n": int(m.group(1)), "bad": m.group(2), "live": None if m.group(7) is None else int(m.group(7))}
    if m.group(2) is None:
        d["hmin"], d["hmax"] = int(m.group(3)), int(m.group(4))
        d["hash"] = m.group(5)
        d["tree"] = parse_shape(m.group(6)) if m.group(5) is None else "hashed"
    return res, d


def inorder(t, out=None):
    """iterative in-order list of nodes (trees can be 600 deep)"""
    out = [] if out is None else out
    stack = []
    cur = t
    while stack or cur is not None:
        while cur is not None:
            stack.append(cur)
            cur = cur["l"]
        cur = stack.pop()
        out.append(cur)
        cur = cur["r"]
    return out


def strip_ids(state):
    """canonical state up to renaming of element identities"""
    return re.sub(r"\((\d+):", "(", state)


def strip_payload(state):
    """map: additionally forget which key object / value object is stored"""
    return re.sub(r"\((\d+):(-?\d+):\d+:\d+", r"(\2", state)


# ---------------------------------------------------------------------------
# C01: reference multiset, order of MID/LEAF visits, structure of the visits


def _events(s):
    m = re.match(r"(-?\d+) \[([^\]]*)\]$", s)
    if not m:
        raise ValueError("unparsable foreach result '%s'" % s[:80])
    evs = []
    for x in m.group(2).split(","):
        if x:
            a, b = x.split(":")
            evs.append((int(a), b))
    return int(m.group(1)), evs


def check_events(evs, held, fwd, complete, nonleaf=None):
    state = {}
    seq = []
    for i, o in evs:
        if i not in held:
            return "visit of %d which is not held" % i
        st = state.get(i)
        if o == "L":
            if nonleaf is not None and i in nonleaf:
                return ("non-leaf element %d was presented as a LEAF visit (it must be bracketed by one PRE "
                        "and one POST visit)" % i)
            if st is not None:
                return "element %d visited LEAF after %s" % (i, st)
            state[i] = "L"
            seq.append(i)
        elif o == "P":
            if st is not None:
                return "element %d visited PRE twice / after %s" % (i, st)
            state[i] = "P"
        elif o == "M":
            if st != "P":
                return "element %d visited MID without a preceding PRE (state %s)" % (i, st)
            state[i] = "M"
            seq.append(i)
        elif o == "O":
            if st != "M":
                return "element %d visited POST in state %s" % (i, st)
            state[i] = "O"
        else:
            return "unknown visit order %s" % o
    ks = [held[i] for i in seq]
    for a, b in zip(ks, ks[1:]):
        if (fwd and a > b) or (not fwd and a < b):
            return "MID/LEAF visits out of order: keys %s" % ks
    if complete:
        for i in held:
            if state.get(i) not in ("L", "O"):
                return "held element %d: visits incomplete (%s)" % (i, state.get(i))
    return None


def _nonleaf(t):
    """ids of the elements of the dumped tree `t` that have at least one child
    (None when the shape is not available, e.g. in hashed mode)"""
    if t in (None, "hashed"):
        return None
    try:
        return set(n["id"] for n in inorder(t) if n["l"] is not None or n["r"] is not None)
    except (TypeError, KeyError):
        return None


ERASE_CASES = {}


def _erase_case(t, eid):
    """which case of the property text an erase of element `eid` in tree `t` is"""
    parent = None
    cur = t
    stack = [(t, None)]
    while stack:
        n, par = stack.pop()
        if n is None:
            continue
        if n["id"] == eid:
            kids = (n["l"] is not None) + (n["r"] is not None)
            if kids == 2:
                c = "two-child/successor-is-right-child" if n["r"]["l"] is None else "two-child/successor-deeper"
            else:
                c = ("leaf", "one-child")[kids]
            return c + ("/root" if par is None else "")
        stack.append((n["l"], n))
        stack.append((n["r"], n))
    return "not-in-dump"


def oracle_c01(script, c_lines):
    held = {"bt": {}, "rb": {}}
    aux = {"bt": {}, "rb": {}}      # what the swap partner holds
    prev = {"bt": None, "rb": None}
    for i, op in enumerate(script):
        w = op.split()
        if w[0] == "map":
            continue
        if i >= len(c_lines):
            return "op %d '%s': no output from the implementation" % (i, op)
        line = c_lines[i]
        if w[0] != "mode" and w[1] in ("insat", "insatr"):
            return None     # arbitrary hints are outside the property's domain
        if w[0] != "mode" and w[1] in ("ins", "insh") and int(w[2]) != 0 and (int(w[2]) in held[w[0]] or int(w[2]) in aux[w[0]]):
            return None     # inserting an element that is held: outside the interface
        if line.startswith("STOP"):
            return "op %d '%s': implementation stopped with '%s'" % (i, op, line)
        if w[0] == "mode":
            continue
        try:
            res, st = parse_line(line)
        except ValueError as e:
            return "op %d '%s': %s" % (i, op, e)
        h = held[w[0]]
        o = w[1]
        pre = "op %d '%s': " % (i, op)
        if o in ("ins", "insh"):
            e = int(w[2])
            if e == 0:      # "lowest id not in the tree (nor in its swap partner)"
                a = aux[w[0]]
                e = min(x for x in range(1, len(h) + len(a) + 2) if x not in h and x not in a)
            if e in h:
                return None
            h[e] = int(w[3])
        elif o == "find":
            got = int(res.split()[0])
            k = int(w[2])
            have = [e for e, ke in h.items() if ke == k]
            if have and got not in have:
                return pre + "find returned %d, held elements with that key: %s" % (got, sorted(have))
            if not have and got != 0:
                return pre + "find returned %d but no held element has that key" % got
        elif o == "erase":
            got = int(res.split()[0])
            k = int(w[2])
            have = [e for e, ke in h.items() if ke == k]
            if have and got not in have:
                return pre + "erase returned %d, held elements with that key: %s" % (got, sorted(have))
            if not have and got != 0:
                return pre + "erase returned %d but no held element has that key" % got
            if got in h:
                del h[got]
                if prev[w[0]] not in (None, "hashed"):
                    c = w[0] + ":" + _erase_case(prev[w[0]], got)
                    ERASE_CASES[c] = ERASE_CASES.get(c, 0) + 1
        elif o == "fe":
            try:
                r, evs = _events(res)
            except ValueError as e:
                return pre + str(e)
            k = int(w[3])
            if 0 <= k < len(evs):
                if len(evs) != k + 1:
                    return pre + "%d visits made although visit %d returned non-zero" % (len(evs), k)
                if r != (-3 if k % 2 else 7):
                    return pre + "returned %d, the stopping visit returned %d" % (r, -3 if k % 2 else 7)
                e = check_events(evs, h, w[2] == "fwd", False, _nonleaf(prev.get(w[0])))
            else:
                if r != 0:
                    return pre + "returned %d although every visit returned 0" % r
                e = check_events(evs, h, w[2] == "fwd", True, _nonleaf(prev.get(w[0])))
            if e:
                return pre + e
        elif o == "clear":
            m = re.match(r"\[([^\]]*)\] p=(\d)$", res)
            if not m:
                return pre + "unparsable clear result '%s'" % res[:80]
            got = sorted(int(x) for x in m.group(1).split(",") if x)
            if got != sorted(h):
                return pre + "clear callbacks %s, held elements %s" % (got, sorted(h))
            if m.group(2) != "1":
                return pre + "an element was written after its clear callback"
            h.clear()
        elif o in ("swap", "alt"):
            held[w[0]], aux[w[0]] = aux[w[0]], held[w[0]]
            h = held[w[0]]
            prev[w[0]] = None
        # state
        if st["bad"] is not None:
            return pre + "parent link of node %s does not point back at its parent" % st["bad"]
        if st["n"] != len(h):
            return pre + "size %d, %d elements inserted and not removed" % (st["n"], len(h))
        prev[w[0]] = st["tree"]
        if st["tree"] != "hashed":
            nodes = inorder(st["tree"])
            ids = sorted(n["id"] for n in nodes)
            if ids != sorted(h):
                return pre + "tree holds %s, reference multiset %s" % (ids, sorted(h))
            for n in nodes:
                if n["key"] != h[n["id"]]:
                    return pre + "element %d carries key %s, inserted with %d" % (n["id"], n["key"], h[n["id"]])
            ks = [n["key"] for n in nodes]
            if any(a > b for a, b in zip(ks, ks[1:])):
                return pre + "in-order keys not non-decreasing: %s" % ks
    return None


# ---------------------------------------------------------------------------
# C02: the red-black rules read directly off the implementation's tree


def rb_rules(t, n_reported, hmax):
    """root black, no red-red, equal black height, height bound; iterative"""
    if t is None:
        return None
    if t["c"] != "B":
        return "root %d is red" % t["id"]
    # post-order black heights
    bh = {}
    ht = {}
    count = 0
    stack = [(t, False)]
    while stack:
        n, done = stack.pop()
        if n is None:
            continue
        if not done:
            stack.append((n, True))
            stack.append((n["l"], False))
            stack.append((n["r"], False))
            continue
        count += 1
        for ch in (n["l"], n["r"]):
            if n["c"] == "R" and ch is not None and ch["c"] == "R":
                return "red node %d has red child %d" % (n["id"], ch["id"])
        bl = bh[id(n["l"])] if n["l"] is not None else 0
        br = bh[id(n["r"])] if n["r"] is not None else 0
        if bl != br:
            return "black heights below node %d differ: %d (left) vs %d (right)" % (n["id"], bl, br)
        bh[id(n)] = bl + (1 if n["c"] == "B" else 0)
        hl = ht[id(n["l"])] if n["l"] is not None else 0
        hr = ht[id(n["r"])] if n["r"] is not None else 0
        ht[id(n)] = max(hl, hr) + 1
    if ht[id(t)] != hmax:
        return "cstl_rbtree_height reports %d, longest root-to-leaf path has %d nodes" % (hmax, ht[id(t)])
    if 2 ** hmax > (count + 1) ** 2:
        return "height %d exceeds 2*log2(n+1) for n = %d" % (hmax, count)
    return None


def oracle_c02(script, c_lines):
    for i, op in enumerate(script):
        w = op.split()
        if w[0] not in ("rb", "map"):
            continue
        if i >= len(c_lines):
            return "op %d '%s': no output from the implementation" % (i, op)
        line = c_lines[i]
        if line == "STOP bad-op":
            return None     # the script left the interface (element already in the tree): nothing to judge
        if line.startswith("STOP"):
            return "op %d '%s': implementation stopped with '%s'" % (i, op, line)
        try:
            res, st = parse_line(line)
        except ValueError as e:
            return "op %d '%s': %s" % (i, op, e)
        pre = "op %d '%s': " % (i, op)
        if st["bad"] is not None:
            return pre + "parent link of node %s does not point back at its parent" % st["bad"]
        if st["tree"] == "hashed":
            continue
        e = rb_rules(st["tree"], st["n"], st["hmax"])
        if e:
            return pre + e
    return None


# ---------------------------------------------------------------------------
# C08: one entry per key (reference dict) + allocation ledger


def _iter(s):
    if s in ("end", "-"):
        return None
    m = re.match(r"\((-?\d+),(-?\d+),(-?\d+)(\+\d+)?\)$", s)
    if not m:
        raise ValueError("unparsable iterator '%s'" % s)
    if m.group(4):
        raise ValueError("iterator points inside a block: '%s'" % s)
    return (int(m.group(1)), int(m.group(2)), int(m.group(3)))


def _fields(res):
    d = {}
    for part in res.split():
        if "=" in part:
            a, b = part.split("=", 1)
            d[a] = b
    return d


def oracle_c08(script, c_lines):
    ref = {}        # key -> (kp, val, node)
    live = set()    # blocks the map got from malloc and has not freed
    for i, op in enumerate(script):
        w = op.split()
        if w[0] != "map":
            continue
        if i >= len(c_lines):
            return "op %d '%s': no output from the implementation" % (i, op)
        line = c_lines[i]
        if line.startswith("STOP"):
            return "op %d '%s': implementation stopped with '%s'" % (i, op, line)
        pre = "op %d '%s': " % (i, op)
        try:
            res, st = parse_line(line)
            f = _fields(res)
            it = _iter(f["it"]) if "it" in f else None
        except ValueError as e:
            return pre + str(e)
        log = [x for x in f.get("log", "[]")[1:-1].split(",") if x]
        cbs = []
        allocated = []
        failed = False
        for ev in log:
            if ev == "A!":
                failed = True
            elif ev[0] == "A":
                live.add(int(ev[1:]))
                allocated.append(int(ev[1:]))
            elif ev[0] == "F":
                if ev[1:] == "?" or int(ev[1:]) not in live:
                    return pre + "free of a block that is not a live allocation of the map (%s)" % ev
                live.discard(int(ev[1:]))
            elif ev[0] == "C":
                if ev.endswith("!attached"):
                    return pre + "clear callback received an iterator still attached to a node"
                a, b = ev[1:].split(":")
                cbs.append((int(a), int(b)))
        o = w[1]
        if o == "ins":
            ko, v = int(w[2]), int(w[3])
            k = ko // 2
            r = int(f["r"])
            if k in ref:
                if r != 1:
                    return pre + "key %d is present, insert returned %d" % (k, r)
                if it != ref[k]:
                    return pre + "iterator %s, existing entry %s" % (it, ref[k])
            elif failed:
                if r != -1 or it is not None:
                    return pre + "malloc failed: insert returned %d with iterator %s" % (r, it)
            else:
                if r != 0:
                    return pre + "key %d is new, insert returned %d" % (k, r)
                if it is None or it[0] != ko or it[1] != v or it[2] not in live:
                    return pre + "iterator %s for the new entry (%d,%d), live blocks %s" % (it, ko, v, sorted(live))
                ref[k] = it
        elif o == "find":
            k = int(w[2])
            if it != ref.get(k):
                return pre + "find yields %s, reference %s" % (it, ref.get(k))
        elif o == "erasen":
            k = int(w[2])
            r = int(f["r"])
            if (k in ref) != (r == 0) or r not in (0, -1):
                return pre + "erase without iterator returned %d, key %s" % (r, "present" if k in ref else "absent")
            ref.pop(k, None)
        elif o in ("erase", "eraseit"):
            k = int(w[2])
            if o == "erase":
                r = int(f["r"])
                if k in ref and (r != 0 or it is None or it[:2] != ref[k][:2]):
                    return pre + "returned %d / %s, stored entry %s" % (r, it, ref[k])
                if k not in ref and (r != -1 or it is not None):
                    return pre + "key absent: returned %d / %s" % (r, it)
            else:
                if it != ref.get(k):
                    return pre + "find yields %s, reference %s" % (it, ref.get(k))
            ref.pop(k, None)
        elif o in ("clear", "clear0"):
            want = sorted(e[:2] for e in ref.values()) if o == "clear" else []
            if sorted(cbs) != want:
                return pre + "clear callbacks %s, entries %s" % (sorted(cbs), want)
            ref.clear()
            if live:
                return pre + "blocks %s still allocated after clear" % sorted(live)
            if st["live"] not in (None, 0):
                return pre + "%d blocks still allocated after clear" % st["live"]
        if o not in ("clear", "clear0") and cbs:
            return pre + "clear callback outside clear"
        # state
        if st["bad"] is not None:
            return pre + "parent link of node %s does not point back at its parent" % st["bad"]
        if st["n"] != len(ref):
            return pre + "size %d, reference has %d entries" % (st["n"], len(ref))
        for k, e in ref.items():
            if e[2] not in live:
                return pre + "node %d of the entry for key %d has been freed" % (e[2], k)
        if st["tree"] != "hashed":
            nodes = inorder(st["tree"])
            lost = [n["id"] for n in nodes if n.get("key") is None or n.get("kp") is None]
            if lost:
                return pre + ("cstl_map_find does not find the entries stored in nodes %s (looked up by every key "
                              "after the operation)" % lost)
            got = sorted((n["key"], n.get("kp"), n.get("val"), n["id"]) for n in nodes)
            want = sorted((k, e[0], e[1], e[2]) for k, e in ref.items())
            if got != want:
                return pre + "map holds %s, reference %s" % (got, want)
            ks = [n["key"] for n in nodes]
            if any(a >= b for a, b in zip(ks, ks[1:])):
                return pre + "in-order keys not strictly increasing: %s" % ks
    return None


OP_COUNTS = {}


def oracle(prop, script, c_lines):
    """independent reading of the property on the implementation's output"""
    for op in script:
        k = " ".join(op.split()[:2])
        OP_COUNTS[k] = OP_COUNTS.get(k, 0) + 1
    if prop == "C01":
        return oracle_c01(script, c_lines)
    if prop == "C02":
        return oracle_c02(script, c_lines)
    if prop == "C08":
        return oracle_c08(script, c_lines)
    if prop == "C15":
        return oracle_c01(script, c_lines) or oracle_c08(script, c_lines)
    return None


# ---------------------------------------------------------------------------
# generators

ABSENT = 9


def tree_alphabet(cont, keys, nmax, all_stops_upto=4):
    """closure alphabet for one tree container: from the model's last output
    line, every operation in scope (free elements are interchangeable: the
    lowest free id is used)."""
    def alpha(last):
        ids = set()
        nev = 0
        if last and "|" in last:
            try:
                _, st = parse_line(last)
                if st and st.get("tree") not in (None, "hashed"):
                    nodes = inorder(st["tree"])
                    ids = set(n["id"] for n in nodes)
                    nev = sum(1 if (n["l"] is None and n["r"] is None) else 3 for n in nodes)
            except ValueError:
                pass
        ops = []
        if len(ids) < nmax:
            free = min(i for i in range(1, nmax + 2) if i not in ids)
            for k in keys:
                ops.append("%s ins %d %d" % (cont, free, k))
                ops.append("%s insh %d %d" % (cont, free, k))
        for k in list(keys) + [ABSENT]:
            ops.append("%s find %d" % (cont, k))
            ops.append("%s erase %d" % (cont, k))
        if len(ids) <= all_stops_upto:
            stops = list(range(-1, nev + 1))
        else:
            stops = sorted(set([-1, 0, nev // 2, nev - 1, nev]))
        for d in ("fwd", "rev"):
            for k in stops:
                ops.append("%s fe %s %d" % (cont, d, k))
        ops.append("%s clear" % cont)
        return ops
    return alpha


def map_alphabet(nkeys, vals=(0, 1), absent=True):
    def alpha(last):
        ops = []
        for ko in range(2 * nkeys):
            for v in vals:
                for a in (1, 0):
                    ops.append("map ins %d %d %d" % (ko, v, a))
        for k in list(range(nkeys)) + ([nkeys + 3] if absent else []):
            ops += ["map find %d" % k, "map erase %d" % k, "map eraseit %d" % k, "map erasen %d" % k]
        ops += ["map clear", "map clear0"]
        return ops
    return alpha


def corpus(prop=None):
    """hand-written cases: every erase case of the property text, boundary keys"""
    out = []
    for c in ("bt", "rb"):
        out += [
            # leaf / one-child / two-child (successor = right child) / two-child (successor deeper) / root
            [c + " ins 1 5", c + " ins 2 3", c + " ins 3 8", c + " ins 4 7", c + " ins 5 9", c + " ins 6 6",
             c + " erase 6", c + " erase 7", c + " ins 4 7", c + " erase 8", c + " erase 5", c + " fe fwd -1",
             c + " fe rev -1", c + " erase 3", c + " erase 9", c + " erase 7", c + " erase 7"],
            [c + " ins 1 5", c + " ins 2 5", c + " ins 3 5", c + " insh 4 5", c + " insh 5 5", c + " find 5",
             c + " erase 5", c + " find 5", c + " erase 5", c + " fe fwd 3", c + " erase 5", c + " erase 5",
             c + " erase 5", c + " erase 5", c + " ins 1 5"],
            [c + " ins 1 -2147483648", c + " ins 2 2147483647", c + " ins 3 0", c + " insh 4 -1",
             c + " find 2147483647", c + " erase -2147483648", c + " fe rev 1", c + " clear", c + " clear",
             c + " ins 1 1", c + " fe fwd 0"],
            [c + " erase 1", c + " find 1", c + " fe fwd -1", c + " clear", c + " insh 1 1", c + " erase 1"],
            # both OBJECTS used after a swap (`alt` switches the object addressed, no library call)
            [c + " ins 1 5", c + " ins 2 3", c + " ins 3 8", c + " swap", c + " alt", c + " find 3", c + " ins 4 4",
             c + " erase 5", c + " fe fwd -1", c + " alt", c + " ins 5 9", c + " swap", c + " erase 9", c + " ins 6 1",
             c + " alt", c + " erase 3", c + " fe rev -1", c + " clear", c + " alt", c + " clear"],
            # swap with the (initially empty) partner tree and back
            [c + " swap", c + " ins 1 5", c + " ins 2 3", c + " ins 3 8", c + " swap", c + " find 5", c + " ins 4 1",
             c + " ins 5 9", c + " fe fwd -1", c + " swap", c + " fe rev -1", c + " erase 3", c + " find 1", c + " swap",
             c + " erase 1", c + " clear", c + " swap", c + " fe fwd -1", c + " clear", c + " ins 0 4", c + " swap"],
        ]
    # deep, degenerate shapes of the unbalanced tree (paths longer than 64 and 128 levels below
    # a node that still has its other subtree pending): traversals, clear, erase of the top
    for depth in (70, 140):
        left_chain = ["bt ins 1 100000", "bt ins 2 200000", "bt ins 3 300000"] + \
                     ["bt ins %d %d" % (4 + i, 99999 - i) for i in range(depth)]
        right_chain = ["bt ins 1 100000", "bt ins 2 50000", "bt ins 3 40000"] + \
                      ["bt ins %d %d" % (4 + i, 100001 + i) for i in range(depth)]
        zigzag = ["bt ins 1 100000", "bt ins 2 200000"] + \
                 ["bt ins %d %d" % (3 + i, (1000 + i) if i % 2 == 0 else (99000 - i)) for i in range(depth)]
        # combs: a spine of `depth` nodes each of which also has the other child (subtrees pending at every level)
        comb_l, comb_r = ["bt ins 1 1000000"], ["bt ins 1 0"]
        for i in range(depth):
            comb_l += ["bt ins %d %d" % (2 + 2 * i, 999990 - 10 * i), "bt ins %d %d" % (3 + 2 * i, 999995 - 10 * i)]
            comb_r += ["bt ins %d %d" % (2 + 2 * i, 10 + 10 * i), "bt ins %d %d" % (3 + 2 * i, 5 + 10 * i)]
        for base in (left_chain, right_chain, zigzag, comb_l, comb_r):
            out.append(base + ["bt fe fwd -1", "bt fe rev -1", "bt clear", "bt ins 1 5", "bt fe fwd -1"])
            out.append(base + ["bt erase 100000", "bt erase 200000", "bt fe fwd -1", "bt clear", "bt clear"])
    out += [
        ["map ins 0 1 1", "map ins 1 2 1", "map ins 2 1 0", "map ins 2 1 1", "map ins 4 3 1", "map find 1",
         "map find 7", "map erase 0", "map erase 0", "map eraseit 1", "map eraseit 1", "map ins 6 1 1",
         "map ins 8 1 1", "map clear", "map ins 3 3 1", "map clear0", "map clear", "map find 1"],
        ["map ins %d %d 1" % (2 * k, k % 8) for k in (5, 3, 7, 1, 4, 6, 2, 0, 9, 8)]
        + ["map ins 7 7 1", "map erase 3", "map erase 5", "map eraseit 7", "map ins 11 0 0", "map ins 11 0 1",
           "map clear"],
    ]
    return out


def random_tree_scripts(rng, cont, count, length, nkeys, maxlive, hashed, insat=False):
    """seeded histories on one tree with heavy duplication.  Element id 0 in an
    insert means "the lowest id not in the tree" (which equal element an erase
    removes is the implementation's choice, so the generator does not track
    identities; `insatr` names an arbitrary hint by its in-order rank).  `hashed` histories print a digest per step and the full tree
    on periodic `show` lines."""
    scripts = []
    for _ in range(count):
        sc = ["mode hash"] if hashed else []
        cnt = {}
        live = 0
        cnt2, live2 = {}, 0     # the swap partner
        grow = True
        for step in range(length):
            if rng.random() < 0.012:
                sc.append("%s %s" % (cont, rng.choice(("swap", "alt", "swap"))))
                cnt, cnt2, live, live2 = cnt2, cnt, live2, live
                continue
            if live >= maxlive:
                grow = False
            elif live == 0:
                grow = True
            r = rng.random()
            p_ins = 0.62 if grow else 0.30
            if r < p_ins and live < maxlive:
                k = rng.randrange(nkeys)
                x = rng.random()
                if insat and live > 0 and x < 0.15:
                    sc.append("%s insatr %d %d" % (cont, k, rng.randrange(live)))
                elif x < 0.40:
                    sc.append("%s insh 0 %d" % (cont, k))
                else:
                    sc.append("%s ins 0 %d" % (cont, k))
                cnt[k] = cnt.get(k, 0) + 1
                live += 1
            elif r < p_ins + 0.06:
                sc.append("%s find %d" % (cont, rng.randrange(nkeys + 1)))
            elif r < p_ins + 0.09 and live <= 40:
                sc.append("%s fe %s %d" % (cont, rng.choice(("fwd", "rev")), rng.randrange(-1, 3 * live + 1)))
            elif r < p_ins + 0.093:
                sc.append("%s clear" % cont)
                cnt = {}
                live = 0
            elif r < p_ins + 0.12 and hashed:
                sc.append("%s show" % cont)
            else:
                k = rng.randrange(nkeys)
                sc.append("%s erase %d" % (cont, k))
                if cnt.get(k, 0) > 0:
                    cnt[k] -= 1
                    live -= 1
        sc.append("%s show" % cont)
        if live <= 200:
            sc += ["%s fe fwd -1" % cont, "%s fe rev -1" % cont]
        scripts.append(sc)
    return scripts


def random_map_scripts(rng, count, length, nkeys, hashed):
    scripts = []
    for _ in range(count):
        sc = ["mode hash"] if hashed else []
        for step in range(length):
            r = rng.random()
            k = rng.randrange(nkeys)
            if r < 0.45:
                sc.append("map ins %d %d %d" % (2 * k + rng.randrange(2), rng.randrange(8), 0 if rng.random() < 0.12 else 1))
            elif r < 0.60:
                sc.append("map find %d" % k)
            elif r < 0.80:
                sc.append("map %s %d" % ("erase" if rng.random() < 0.7 else "erasen", k))
            elif r < 0.95:
                sc.append("map eraseit %d" % k)
            elif r < 0.97:
                sc.append("map show")
            elif r < 0.985:
                sc.append("map clear")
            else:
                sc.append("map clear0")
        sc += ["map show", "map clear", "map ins 0 0 1"]
        scripts.append(sc)
    return scripts


# ---------------------------------------------------------------------------
# the three checks (tools/props/C01.py, C02.py, C08.py call these)

SCOPE = {
    # property -> tier -> closures: (container, max elements, keys); random: (scripts, length, keys, max live)
    "C01": {"quick": dict(closures=[("bt", 6, (0, 1, 2)), ("rb", 6, (0, 1, 2))], depth=20, states=100000,
                          rnd_full=(12, 300, 6, 30), rnd_hash=(4, 3000, 8, 200)),
            "thorough": dict(closures=[("bt", 7, (0, 1, 2)), ("bt", 6, (0, 1, 2, 3)), ("rb", 8, (0, 1, 2)),
                                       ("rb", 7, (0, 1, 2, 3))], depth=30, states=400000,
                             rnd_full=(80, 400, 6, 40), rnd_hash=(16, 20000, 8, 200))},
    "C02": {"quick": dict(closures=[("rb", 7, (0, 1, 2))], depth=20, states=100000,
                          rnd_full=(12, 300, 4, 40), rnd_hash=(4, 4000, 5, 500)),
            "thorough": dict(closures=[("rb", 8, (0, 1, 2)), ("rb", 7, (0, 1, 2, 3))], depth=30, states=400000,
                             rnd_full=(80, 500, 4, 60), rnd_hash=(16, 20000, 5, 500))},
    # closures: (keys, whether states distinguish the stored key/value pointers)
    "C08": {"quick": dict(closures=[(4, False), (3, True)], depth=14, states=100000, rnd_full=(16, 300, 6),
                          rnd_hash=(4, 4000, 24)),
            "thorough": dict(closures=[(5, False), (4, True)], depth=16, states=400000, rnd_full=(80, 500, 8),
                             rnd_hash=(10, 50000, 30))},
}


def _probe_ops(prop):
    """operations appended around a model/implementation difference to let the
    independent oracle find a concrete failing input"""
    if prop == "C08":
        return (["map find %d" % k for k in range(4)] + ["map erase %d" % k for k in range(4)]
                + ["map ins %d 1 1" % ko for ko in range(8)] + ["map show", "map clear"])
    conts = ("rb",) if prop == "C02" else ("bt", "rb")
    ops = []
    for c in conts:
        ops += ["%s find %d" % (c, k) for k in range(3)] + ["%s erase %d" % (c, k) for k in range(3)]
        ops += ["%s ins 0 %d" % (c, k) for k in range(3)] + ["%s insh 0 %d" % (c, k) for k in range(3)]
        ops += ["%s fe fwd -1" % c, "%s fe rev -1" % c, "%s show" % c, "%s clear" % c]
    return ops


def run_check(chk, prop):
    import vlib
    import sys
    me = sys.modules[__name__]
    p = SCOPE[prop][chk.tier]
    c_exe, m_exe = vlib.prepare_area(chk, me, leanchecker=True)
    if not c_exe:
        return chk.finish()
    orc = oracle
    vlib.run_scripts(chk, me, c_exe, m_exe, corpus(), orc)
    closed = True
    if prop in ("C01", "C02"):
        conts = ("bt", "rb") if prop == "C01" else ("rb",)
        for (c, nmax, keys) in p["closures"]:
            ok = vlib.closure(chk, NAME, c_exe, m_exe, [], tree_alphabet(c, keys, nmax),
                              p["depth"], p["states"], orc, state_of=lambda l: strip_ids(l.split("|", 1)[1]) if "|" in l else l)
            closed = closed and ok
        chk.extra["scope"] = ("closure over every shape (bt) / shape+colouring (rb) reachable within %s = (container, max "
                              "elements, keys); states taken up to renaming of element identities; from every state: ins, "
                              "hinted ins (hint from find) of every key, find and erase of every key and of an absent key, "
                              "foreach fwd/rev stopping at every visit, clear; closed=%s" % (p["closures"], closed))
        rnd = []
        for c in conts:
            n, ln, nk, ml = p["rnd_full"]
            rnd += random_tree_scripts(chk.rng, c, n, ln, nk, ml, False, insat=(prop == "C02"))
            if prop == "C01":
                # arbitrary hints: outside the property (the oracle stops judging), inside the correspondence
                rnd += random_tree_scripts(chk.rng, c, max(2, n // 4), ln, nk, ml, False, insat=True)
            n, ln, nk, ml = p["rnd_hash"]
            rnd += random_tree_scripts(chk.rng, c, n, ln, nk, ml, True)
    else:
        for (nkeys, full) in p["closures"]:
            ok = vlib.closure(chk, NAME, c_exe, m_exe, [], map_alphabet(nkeys), p["depth"], p["states"], orc,
                              state_of=lambda l: (strip_ids if full else strip_payload)(l.split("|", 1)[1]) if "|" in l else l)
            closed = closed and ok
        chk.extra["scope"] = ("closure over every map reachable within %s = (keys, states distinguish stored pointers); 2 key "
                              "objects per key x 2 values; states up to renaming of node blocks; from every state: insert of "
                              "every key object / value with malloc succeeding and failing, find, erase, erase by iterator of "
                              "every key and an absent key, clear with and without callback; closed=%s" % (p["closures"], closed))
        n, ln, nk = p["rnd_full"]
        rnd = random_map_scripts(chk.rng, n, ln, nk, False)
        n, ln, nk = p["rnd_hash"]
        rnd += random_map_scripts(chk.rng, n, ln, nk, True)
    chk.exhaustive = closed
    vlib.run_scripts(chk, me, c_exe, m_exe, rnd, orc)
    if prop == "C01":
        chk.extra["erase_cases_reached"] = dict(sorted(ERASE_CASES.items()))
    chk.extra["operations_by_container"] = dict(sorted(OP_COUNTS.items()))
    if chk.mismatches and not chk.oracle_failures:
        # model and implementation differ but the property held on everything
        # explored: minimise, then search the neighbourhood with the oracle
        m = chk.mismatches[0]
        small = vlib.minimise(me, c_exe, m_exe, m["script"])
        m["minimised"] = small
        probes = _probe_ops(prop)
        near = [small + [a] for a in probes] + [small + [a, b] for a in probes for b in probes]
        near += [small[:-1] + [a, small[-1]] for a in probes]
        vlib.run_scripts(chk, me, c_exe, m_exe, near, orc)
        if not chk.oracle_failures:
            # the difference may be a damaged shape/colouring whose consequence (a lost
            # element, a crash in a later fix-up) needs further operations: random
            # erase-heavy continuations from the minimised difference and from the
            # original script
            for base in (small, m["script"][:m["index"] + 1]):
                if chk.oracle_failures:
                    break
                vlib.extend_search(chk, me, c_exe, m_exe, base, _continuation(prop, base), orc,
                                   count=1500 if chk.tier == "quick" else 6000)
            vlib.shrink_failures(chk, me, c_exe, orc)
    return chk.finish()


def _continuation(prop, base):
    """random continuation generator over the keys the script uses"""
    if prop == "C08" or any(op.startswith("map ") for op in base):
        ks = [int(op.split()[2]) // 2 for op in base if op.startswith("map ins")]
        kmax = max(ks + [3]) + 2

        def cont(rng):
            out = []
            for _ in range(rng.randrange(4, 60)):
                r = rng.random()
                k = rng.randrange(kmax)
                if r < 0.45:
                    out.append("map erase %d" % k)
                elif r < 0.65:
                    out.append("map eraseit %d" % k)
                elif r < 0.90:
                    out.append("map ins %d %d 1" % (2 * k + rng.randrange(2), rng.randrange(8)))
                else:
                    out.append("map find %d" % k)
            return out + ["map show"]
        return cont
    conts = sorted(set(op.split()[0] for op in base if op.split()[0] in ("bt", "rb"))) or ["rb"]
    ks = [int(op.split()[3]) for op in base if len(op.split()) == 4 and op.split()[1] in ("ins", "insh")]
    kmax = max(ks + [2]) + 2
    kmin = min(ks + [0])

    def cont(rng):
        c = rng.choice(conts)
        out = []
        for _ in range(rng.randrange(4, 60)):
            r = rng.random()
            k = rng.randrange(kmin, kmax)
            if r < 0.55:
                out.append("%s erase %d" % (c, k))
            elif r < 0.85:
                out.append("%s %s 0 %d" % (c, "ins" if rng.random() < 0.7 else "insh", k))
            elif r < 0.93:
                out.append("%s find %d" % (c, k))
            else:
                out.append("%s fe %s -1" % (c, rng.choice(("fwd", "rev"))))
        return out + ["%s show" % c, "%s fe fwd -1" % c]
    return cont


def replay(prop, path):
    import json
    import sys
    import vlib
    me = sys.modules[__name__]
    r = json.load(open(path))
    chk = vlib.Check(prop, "quick", 0)
    c_exe, m_exe = vlib.prepare_area(chk, me, theorems=[])
    d = r.get("detail") or {}
    ops = r.get("ops") or d.get("minimised") or d.get("script")
    if not ops or not c_exe:
        print("nothing to replay (no operation list in %s)" % path)
        return 2
    c, m = vlib.run_pair(c_exe, m_exe, [ops], jobs=1)
    for op, a, b in zip(ops, c[0] + ["<missing>"] * len(ops), m[0] + ["<missing>"] * len(ops)):
        print("%-22s impl : %s\n%-22s model: %s" % (op, a, "", b))
    w = oracle(prop, ops, c[0])
    print("oracle:", w or "property holds on this input")
    return 1 if w else 0
