"""Translator tie for the smart pointers / array views (C05, C14, C20) and for the
step structure of the C06 micro-step model.

`tools/c2lean_mem.py` re-translates include/cstl/memory.h, src/memory.c and the
`cstl_array_*` functions (include/cstl/array.h, src/array.c) of `vlib.REPO`'s
CURRENT source from the clang AST into

    Cstl.Gen.MemC    every entry point as a monadic sequence of primitive accesses
    Cstl.Gen.ConcC   per function the skeleton of atomic operations / shared accesses

and `tie_run` re-checks the fixed, hand-written theorems of

    lean/Cstl/Mem/Tie.lean      `Cstl.Mem.<model function> … = Cstl.Gen.MemC.c_<C function> …`
    lean/Cstl/Mem/TieExec.lean  `exec` / `step` / `run` = the same dispatch over the generated definitions,
                                on every state satisfying the C05 invariant (every reachable state)
    lean/Cstl/Conc/Tie.lean     `pcSk <entry pc> = Cstl.Gen.ConcC.sk_<C function>.main` (+ `stepT_conforms`)

against the regenerated modules (the import of the committed `Cstl.Gen.*` copy is
redirected to a scratch module, like `vlib.translator_tie`), with the axiom
audit; a theorem that no longer checks is recorded as failed in `chk.theorems`.
"""
import os
import re
import subprocess

LEAN_TARGETS = ["Cstl.Mem.TieExec", "Cstl.Conc.Tie"]
MEM_CHAIN = ["Cstl.Mem.Tie", "Cstl.Mem.TieExec"]       # each imports its predecessor; the first imports Cstl.Gen.MemC
CONC_CHAIN = ["Cstl.Conc.Tie"]                          # imports Cstl.Gen.ConcC

_M = "Cstl.Mem.Tie."
_C = "Cstl.Conc.Tie."

_GUARDED = ["gSet_tie", "gInit_tie", "gGetConst_tie", "gGet_tie", "gCopy_tie", "gSwap_tie"]
_UNIQUE = ["uInit_tie", "uGet_tie", "uRelease_tie", "uSwap_tie", "uReset_tie", "uAlloc_tie",
           "upGetG_tie", "upGet_tie", "upInit_tie", "upReset_tie", "upAlloc_tie"]
_SHARED = ["sInit_tie", "wInit_tie", "wReset_tie", "sReset_tie", "sSwap_tie", "wSwap_tie", "sGetConst_tie",
           "sGet_tie", "sAlloc_tie", "sUnique_tie", "sShare_tie", "wFrom_tie", "lockLoop_tie", "wLock_tie"]
_ARRAY = ["aInit_tie", "aSize_tie", "aReset_tie", "aAlloc_tie", "aSet_tie", "aData_tie", "aAt_tie",
          "aRelease_tie", "aSlice_tie", "aUnslice_tie"]
# all calls at once, on every state with the C05 invariant / every history (lean/Cstl/Mem/TieExec.lean)
_EXEC = ["exec_tie", "step_tie", "run_tie", "run_init_tie"]
# the functions C06 is about: their sequential reading (Mem) and their step structure (Conc)
_CONC_SEQ = ["wReset_tie", "sReset_tie", "sShare_tie", "wFrom_tie", "lockLoop_tie", "wLock_tie", "upReset_tie"]
_CONC = ["stepT_conforms", "reset_tie", "wreset_tie", "share_tie", "share_null_tie", "wfrom_tie", "wfrom_null_tie",
         "lock_tie", "lock_null_tie", "upreset_tie", "op_tie", "alloc_pin"]

TIE_THEOREMS = {
    "C05": [_M + t for t in _UNIQUE + _SHARED + _EXEC],
    "C14": [_M + t for t in _ARRAY + _EXEC],
    "C20": [_M + t for t in _GUARDED + _EXEC],
    "C06": [_M + t for t in _CONC_SEQ] + [_C + t for t in _CONC],
}

# which C functions the tie theorems of a property speak about (for the evidence file)
TIED_FUNCTIONS = {
    "C20": ["cstl_guarded_ptr_set", "cstl_guarded_ptr_init", "cstl_guarded_ptr_get_const", "cstl_guarded_ptr_get",
            "cstl_guarded_ptr_copy", "cstl_guarded_ptr_swap"],
    "C05": ["cstl_unique_ptr_init", "cstl_unique_ptr_get_const", "cstl_unique_ptr_get", "cstl_unique_ptr_release",
            "cstl_unique_ptr_swap", "cstl_unique_ptr_reset", "cstl_unique_ptr_alloc",
            "cstl_shared_ptr_init", "cstl_shared_ptr_alloc", "cstl_shared_ptr_unique", "cstl_shared_ptr_get_const",
            "cstl_shared_ptr_get", "cstl_shared_ptr_share", "cstl_shared_ptr_swap", "cstl_shared_ptr_reset",
            "cstl_weak_ptr_init", "cstl_weak_ptr_from", "cstl_weak_ptr_lock", "cstl_weak_ptr_swap",
            "cstl_weak_ptr_reset"],
    "C14": ["__cstl_raw_array_at", "cstl_array_init", "cstl_array_size", "cstl_array_reset", "cstl_array_alloc",
            "cstl_array_set", "cstl_array_release", "cstl_array_data_const", "cstl_array_data",
            "cstl_array_at_const", "cstl_array_at", "cstl_array_slice", "cstl_array_unslice"],
    "C06": ["cstl_shared_ptr_reset", "cstl_weak_ptr_reset", "cstl_shared_ptr_share", "cstl_weak_ptr_from",
            "cstl_weak_ptr_lock", "cstl_unique_ptr_reset"],
}

CHECK_TIMEOUT = 900     # seconds for one Lean file (a normal run takes a few seconds)


def _decls(src):
    """fully qualified names of the theorems declared in a Lean source with one top-level namespace"""
    ns = re.search(r"^namespace\s+(\S+)", src, flags=re.M)
    prefix = ns.group(1) + "." if ns else ""
    return [prefix + m.group(1) for m in re.finditer(r"^theorem\s+(\S+)", src, flags=re.M)], prefix


def _parse(vlib, out, src, fname, prefix, res):
    """axiom lines and error positions of one lean run over `src` (written as file `fname`)"""
    for m in re.finditer(r"'([^']+)' depends on axioms: \[([^\]]*)\]", out, flags=re.S):
        axs = [x.strip() for x in m.group(2).replace("\n", " ").split(",") if x.strip()]
        if m.group(1) in res:
            res[m.group(1)] = (all(x in vlib.ALLOWED_AXIOMS for x in axs), "axioms: " + ", ".join(axs))
    for m in re.finditer(r"'([^']+)' does not depend on any axioms", out):
        if m.group(1) in res:
            res[m.group(1)] = (True, "axioms: none")
    # a failed proof still yields a constant: mark the theorem that encloses every error position
    src_lines = src.split("\n")
    for e in [l for l in out.split("\n") if "error" in l]:
        m = re.search(re.escape(fname) + r":(\d+):", e)
        if not m:
            continue
        ln = int(m.group(1))
        for k in range(min(ln, len(src_lines)) - 1, -1, -1):
            mm = re.match(r"theorem\s+(\S+)", src_lines[k])
            if mm:
                if prefix + mm.group(1) in res:
                    res[prefix + mm.group(1)] = (False, "does not check against the current translation: "
                                                 + e.strip()[:300])
                break


def _check(vlib, chk, gen_module, gen_txt, chain, theorems):
    """Compile `gen_txt` as scratch module GenTmp.<gen_module>, then re-check the modules of `chain`
    in order against it (every import of the predecessor redirected to its scratch copy) and audit
    `theorems`.  Returns {theorem: (ok, detail)}."""
    lean = vlib.LEAN
    d = vlib.mktmp("tie")
    gdir = os.path.join(d, "GenTmp")
    os.makedirs(gdir)
    gfile = os.path.join(gdir, gen_module + ".lean")
    with open(gfile, "w") as fh:
        fh.write(gen_txt)
    committed = os.path.join(lean, "Cstl", "Gen", gen_module + ".lean")
    if os.path.exists(committed) and open(committed).read() != gen_txt:
        chk.notes.append("translation by tools/c2lean_mem.py differs from the committed copy lean/Cstl/Gen/%s.lean"
                         % gen_module)
    r = vlib.sh(["lake", "env", "lean", "--root=" + d, "-o", gfile[:-5] + ".olean", gfile], cwd=lean)
    if r.returncode != 0:
        return {t: (False, "generated translation does not elaborate: " + r.stdout[-400:]) for t in theorems}
    base_path = vlib.sh(["lake", "env", "printenv", "LEAN_PATH"], cwd=lean).stdout.strip()
    env = dict(os.environ, LEAN_PATH=d + ":" + base_path)
    res = {t: (False, "tie theorem does not check against the current source's translation") for t in theorems}
    prev_import, prev_scratch = "Cstl.Gen.%s" % gen_module, "GenTmp.%s" % gen_module
    # the modules after the last one that declares a wanted theorem need not be re-checked
    need = [any(t in _decls(open(os.path.join(lean, m.replace(".", "/") + ".lean")).read())[0] for t in theorems)
            for m in chain]
    chain = chain[:max([i for i, n in enumerate(need) if n] + [0]) + 1]
    for idx, module in enumerate(chain):
        src = open(os.path.join(lean, module.replace(".", "/") + ".lean")).read()
        decls, prefix = _decls(src)
        mine = [t for t in theorems if t in decls]
        if ("import %s\n" % prev_import) not in src:
            for t in mine:
                res[t] = (False, "%s does not import %s" % (module, prev_import))
            return res
        src = src.replace("import %s\n" % prev_import, "import %s\n" % prev_scratch)
        scratch = "T%d_%s" % (idx, module.split(".")[-1])
        tfile = os.path.join(gdir, scratch + ".lean")
        with open(tfile, "w") as fh:
            fh.write(src + "\n" + "".join("#print axioms %s\n" % t for t in mine))
        try:
            r = subprocess.run(["lean", "--root=" + d, "-o", tfile[:-5] + ".olean", tfile], cwd=lean, env=env,
                               stdout=subprocess.PIPE, stderr=subprocess.STDOUT, universal_newlines=True,
                               timeout=CHECK_TIMEOUT)
        except subprocess.TimeoutExpired:
            for t in mine:
                res[t] = (False, "re-check of %s against the current translation did not finish in %d s"
                          % (module, CHECK_TIMEOUT))
            r = None
        if r is not None:
            _parse(vlib, r.stdout, src, scratch + ".lean", prefix, res)
        if r is None or r.returncode != 0:
            # the later modules of the chain rest on this one
            for later in chain[idx + 1:]:
                ldecls, _ = _decls(open(os.path.join(lean, later.replace(".", "/") + ".lean")).read())
                for t in theorems:
                    if t in ldecls:
                        res[t] = (False, "rests on %s, which no longer checks against the current translation" % module)
            return res
        prev_import, prev_scratch = module, "GenTmp.%s" % scratch
    return res


def tie_run(chk, props=None):
    """Regenerate both translations from vlib.REPO, re-check the Tie files, record per-theorem results in
    chk.theorems (and the translator's per-function report in chk.extra).  `props`: the properties whose
    tie theorems to record (default: chk.prop if it is one of C05/C06/C14/C20, else all four).
    Returns True iff every recorded theorem checks."""
    import vlib
    import c2lean_mem
    if props is None:
        props = [chk.prop] if chk.prop in TIE_THEOREMS else sorted(TIE_THEOREMS)
    want = []
    for p in props:
        want += [t for t in TIE_THEOREMS[p] if t not in want]
    ok, out = vlib.lake_build(LEAN_TARGETS)
    if not ok:
        errs = [l for l in out.split("\n") if "error" in l][:5]
        chk.build_problems.append(("lake build %s" % " ".join(LEAN_TARGETS), " | ".join(errs) or out[-500:]))
    for h in vlib.grep_forbidden(MEM_CHAIN + CONC_CHAIN):
        if h not in chk.forbidden:
            chk.forbidden.append(h)
    try:
        mem_txt, conc_txt, report = c2lean_mem.translate(vlib.REPO)
    except c2lean_mem.Unsupported as e:
        for t in want:
            chk.theorems[t] = (False, "translator could not read the source: %s" % e)
        return False
    chk.extra.setdefault("translator", {})["mem"] = {
        "report": report,
        "tied_functions": {p: TIED_FUNCTIONS[p] for p in props},
        "translated_not_tied": [],
        "modules": ["Cstl.Gen.MemC", "Cstl.Gen.ConcC"],
    }
    mem_thms = [t for t in want if t.startswith(_M)]
    conc_thms = [t for t in want if t.startswith(_C)]
    if mem_thms:
        chk.theorems.update(_check(vlib, chk, "MemC", mem_txt, MEM_CHAIN, mem_thms))
    if conc_thms:
        chk.theorems.update(_check(vlib, chk, "ConcC", conc_txt, CONC_CHAIN, conc_thms))
    return all(chk.theorems[t][0] for t in want)


if __name__ == "__main__":
    # stand-alone: python3 tools/areas/mem_tie.py [C05|C06|C14|C20 ...]   (VERIF_REPO selects the tree)
    import sys
    sys.path.insert(0, os.path.dirname(os.path.dirname(os.path.abspath(__file__))))
    import time
    import vlib
    t0 = time.time()
    chk = vlib.Check("tie", "quick", 0)
    try:
        good = tie_run(chk, sys.argv[1:] or None)
        for t, (ok, det) in sorted(chk.theorems.items()):
            print("%-4s %-40s %s" % ("ok" if ok else "FAIL", t, det[:200]))
        for n in chk.notes:
            print("note:", n)
        for b in chk.build_problems:
            print("build problem:", b)
        for f in chk.forbidden:
            print("forbidden:", f)
        rep = chk.extra.get("translator", {}).get("mem", {}).get("report", {})
        bad = {k: v for k, v in rep.items() if v != "translated"}
        print("translated %d/%d functions%s; %d theorems, %d failed; %.1f s"
              % (len(rep) - len(bad), len(rep), (" (%s)" % bad) if bad else "", len(chk.theorems),
                 sum(1 for v in chk.theorems.values() if not v[0]), time.time() - t0))
        sys.exit(0 if good and not chk.build_problems and not chk.forbidden else 1)
    finally:
        vlib.cleanup()
