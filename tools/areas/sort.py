"""sort area: src/array.c (raw-array sort / search / find / reverse), the vector
wrappers of src/vector.c, cstl_swap  <->  lean/Cstl/Sort  (property C11)"""
import itertools
import re

NAME = "sort"
HARNESS_SRCS = ["sort.c"]
REPO_SRCS = ["array.c", "vector.c", "common.c", "memory.c"]
WRAP_ALLOC = False          # the array / scratch blocks are plain ASan heap blocks (red zones)
LEAN_TARGETS = ["Cstl.Sort.Props", "m_sort"]
IMPORTS = ["Cstl.Sort.Props"]

THEOREMS = {
    "C11": [
        # partition / quicksort (PropsQuick.lean)
        "Cstl.Sort.qsortP_spec",
        "Cstl.Sort.qsort_sorted_perm",
        "Cstl.Sort.qsort_range",
        "Cstl.Sort.qsort_terminates",
        "Cstl.Sort.qsort_random_terminates",
        "Cstl.Sort.qsort_random_diverges",
        # heapsort (PropsHeap.lean)
        "Cstl.Sort.hsort_sorted_perm",
        "Cstl.Sort.hsort_range",
        # dispatch, all selectors, no access outside the array (Props.lean)
        "Cstl.Sort.sort_default",
        "Cstl.Sort.sort_sorted_perm",
        "Cstl.Sort.sort_no_oob",
        "Cstl.Sort.sort_terminates",
        "Cstl.Sort.sort_total",
        "Cstl.Sort.run_perm",
        # search / find / reverse (PropsSearch.lean)
        "Cstl.Sort.search_spec",
        "Cstl.Sort.search_iff",
        "Cstl.Sort.search_arr",
        "Cstl.Sort.find_first",
        "Cstl.Sort.reverse_mirror",
        "Cstl.Sort.reverse_perm",
    ],
}

# selectors: the four named algorithms and two out-of-range values
QUICK, QUICK_R, QUICK_M, HEAP = 0, 1, 2, 3
SELECTORS = [0, 1, 2, 3, 4, 99]
# 1/2/4/8: the fast paths of cstl_swap; 3/16: the memcpy path; 33/36/40: large elements whose
# size is / is not a multiple of the word size (a word-wise exchange has a tail to handle)
ESZS = [1, 2, 4, 8, 3, 16, 33, 36, 40]
IDBITS = {1: 6, 2: 11, 3: 16, 4: 20, 8: 32, 16: 32, 33: 32, 36: 32, 40: 32}
KEEP_LIMIT = 64
SLICE = 2000


def keybits(esz):
    return min(8 * min(esz, 8) - IDBITS[esz], 31)


def fits(esz, n, maxkey):
    return n <= (1 << IDBITS[esz]) and maxkey < (1 << keybits(esz))


# ---------------------------------------------------------------------------
# input formulas of `gen` (third implementation, next to sort.c and Main.lean)


def gen_keys(kind, n, a, b):
    if kind == "sorted":
        return list(range(n))
    if kind == "rev":
        return [n - 1 - i for i in range(n)]
    if kind == "const":
        return [a] * n
    if kind == "organ":
        return [min(i, n - 1 - i) for i in range(n)]
    if kind == "saw":
        return [i % a for i in range(n)]
    if kind == "rand":
        ks, x = [], a
        for _ in range(n):
            x = (x * 1103515245 + 12345) % 2147483648
            ks.append((x // 65536) % b)
        return ks
    raise ValueError(kind)


# ---------------------------------------------------------------------------
# parsing the implementation's output


ELEM = re.compile(r"^(-?\d+):(\d+)$")


def parse_elems(txt):
    """'k:id k:id' -> [(k,id)] ; None if an element is malformed (bad@i)"""
    out = []
    for w in txt.split():
        m = ELEM.match(w)
        if not m:
            return None
        out.append((int(m.group(1)), int(m.group(2))))
    return out


def parse_line(line):
    """-> dict(res=str, n=int, esz=int, scratch=str, h=str, elems=list|None|'absent')"""
    if line.startswith("STOP") or "|" not in line:
        return None
    res, st = [p.strip() for p in line.split("|", 1)]
    m = re.match(r"n=(\d+) e=(\d+) t=(\S+) h=(\S+)(?: \[(.*)\])?$", st)
    if not m:
        return None
    d = {"res": res, "n": int(m.group(1)), "esz": int(m.group(2)), "scratch": m.group(3), "h": m.group(4)}
    if m.group(5) is None:
        d["elems"] = "absent"
    else:
        d["elems"] = parse_elems(m.group(5))
    return d


def is_sorted(xs):
    return all(xs[i][0] <= xs[i + 1][0] for i in range(len(xs) - 1))


# ---------------------------------------------------------------------------
# the independent oracle: an executable reading of the text of C11 on the
# implementation's output (never calls the Lean model)


def oracle(prop, script, c_lines):
    cur = None              # known content of the array: list of (key, id)
    pending = None          # (kind, old content, {index: elem}) while a large result is being dumped
    for i, op in enumerate(script):
        w = op.split()
        o = w[0]
        if i >= len(c_lines):
            return "op %d '%s': no output from the implementation" % (i, op)
        line = c_lines[i]
        if line.startswith("STOP"):
            if o == "search" and (cur is None or not is_sorted(cur)):
                return None     # binary search of an unsorted array: outside the documented domain
            return "op %d '%s': implementation stopped with '%s' (an access outside the array or the scratch element, or a crash)" % (i, op, line)
        d = parse_line(line)
        if d is None:
            return "op %d '%s': unparsable implementation output '%s'" % (i, op, line[:200])
        if "BADARG" in d["res"]:
            return ("op %d '%s': a callback received a pointer outside the array / scratch element / probe, or bytes "
                    "that are not an element of the input (an element was corrupted by an earlier exchange)" % (i, op))
        if d["h"].startswith("bad") or d["elems"] is None or not ELEM.match(d["scratch"]):
            return "op %d '%s': an element is no longer byte-identical to an input element (%s)" % (i, op, line[-120:])
        elems = d["elems"]
        if o in ("arr", "gen"):
            if o == "arr":
                keys = [int(k) for k in w[2:]]
            else:
                keys = gen_keys(w[2], int(w[3]), int(w[4]), int(w[5]))
            cur = [(k, j) for j, k in enumerate(keys)]
            pending = None
            if d["n"] != len(cur) or (elems != "absent" and elems != cur):
                return "op %d '%s': harness did not set up the requested array" % (i, op)
            continue
        if o == "dump":
            a, b = int(w[1]), int(w[2])
            m = re.match(r"slice \d+ \d+ \[(.*)\]$", d["res"])
            sl = parse_elems(m.group(1)) if m else None
            if sl is None:
                return "op %d '%s': an element is no longer byte-identical to an input element" % (i, op)
            if pending is not None:
                for j, e in enumerate(sl):
                    pending[2][a + j] = e
                if len(pending[2]) == len(pending[1]):
                    new = [pending[2][j] for j in range(len(pending[1]))]
                    why = _check_result(pending[0], pending[1], new)
                    if why:
                        return "op %d '%s' (completing the dump): %s" % (i, op, why)
                    cur = new
                    pending = None
            elif cur is not None and sl != cur[a:b]:
                return "op %d '%s': array changed without a modifying operation" % (i, op)
            continue
        if cur is None:
            continue            # a large result that was never dumped completely: nothing known
        if d["n"] != len(cur):
            return "op %d '%s': element count changed from %d to %d" % (i, op, len(cur), d["n"])
        if o in ("sort", "rev"):
            if elems == "absent":
                pending = (o, cur, {})
                cur = None
                if len(pending[1]) == 0:
                    cur, pending = [], None
                continue
            why = _check_result(o, cur, elems)
            if why:
                return "op %d '%s': %s" % (i, op, why)
            cur = elems
            continue
        if o in ("search", "find"):
            key = int(w[2])
            m = re.match(r"r=(-?\d+) ", d["res"] + " ")
            if not m:
                return "op %d '%s': unparsable result '%s'" % (i, op, d["res"][:80])
            r = int(m.group(1))
            if elems != "absent" and elems != cur:
                return "op %d '%s': a read-only operation modified the array" % (i, op)
            hits = [j for j, e in enumerate(cur) if e[0] == key]
            if o == "find":
                want = hits[0] if hits else -1
                if r != want:
                    return "op %d '%s': find returned %d, the first element with that key is at %d (array %s)" % (i, op, r, want, _short(cur))
            elif is_sorted(cur):
                if hits and r not in hits:
                    return "op %d '%s': search returned %d but the key is present at %s (array %s)" % (i, op, r, hits[:5], _short(cur))
                if not hits and r != -1:
                    return "op %d '%s': search returned %d but the key is absent (array %s)" % (i, op, r, _short(cur))
            continue
        return "op %d '%s': unknown operation" % (i, op)
    return None


def _short(xs):
    ks = [e[0] for e in xs]
    return str(ks) if len(ks) <= 24 else str(ks[:24]) + "...(%d)" % len(ks)


def _check_result(kind, old, new):
    if kind == "rev":
        if new != old[::-1]:
            return "reverse did not mirror the order: %s -> %s" % (_short(old), _short(new))
        return None
    if len(new) != len(old) or sorted(new) != sorted(old):
        return ("output is not a permutation of the input (element lost / duplicated / altered): keys %s -> %s"
                % (_short(old), _short(new)))
    if not is_sorted(new):
        return "output is not in non-decreasing order: keys %s -> %s" % (_short(old), _short(new))
    return None


# ---------------------------------------------------------------------------
# generators


def arr_op(esz, keys):
    return "arr %d %s" % (esz, " ".join(map(str, keys))) if keys else "arr %d" % esz


def sort_op(via, algo, draws=()):
    return ("sort %s %d %s" % (via, algo, " ".join(map(str, draws)))).strip()


def dumps(n):
    return ["dump %d %d" % (a, min(n, a + SLICE)) for a in range(0, n, SLICE)] if n > KEEP_LIMIT else []


def corpus():
    """hand-picked cases: the pivot-is-strict-maximum-at-the-end corner with a
    finite number of bad draws, all-equal, two elements, median-of-three with
    count 2/3/4, bogus selectors, every element size"""
    out = []
    for esz in ESZS:
        sc = []
        for keys in ([], [1], [2, 1], [1, 2], [1, 1], [1, 2, 3], [3, 2, 1], [2, 3, 1], [2, 1, 3], [1, 3, 2],
                     [3, 1, 2], [1, 2, 3, 0], [3, 3, 3, 3, 3], [1, 2, 1, 2, 1, 2], [0, 1, 2, 3, 2, 1, 0]):
            for algo in SELECTORS:
                sc += [arr_op(esz, keys), sort_op("raw", algo), arr_op(esz, keys), sort_op("vec", algo),
                       arr_op(esz, keys), sort_op("rawn", algo), "rev rawn"]
            # random pivot: draw the last index while it holds the strict maximum, five times, then others
            n = len(keys)
            if n:
                sc += [arr_op(esz, keys), sort_op("raw", QUICK_R, [n - 1] * 5 + [1, n - 1, 2147483647, 5])]
            sc += ["search raw 2", "find vec 2", "search vec 0", "find raw 3", "rev raw", "rev vec", "find raw 1"]
        out.append(sc)
    return out


def _array_block(keys, idx, draw_len, vec_every=1):
    """all operations of the exhaustive tier for one array"""
    n = len(keys)
    sc = []
    e = idx
    # every deterministic selector x every element size, raw; one vector run per selector
    for algo in (0, 2, 3, 4, 99):
        for esz in ESZS:
            sc += [arr_op(esz, keys), sort_op("raw", algo)]
        esz = ESZS[(e + algo) % len(ESZS)]
        sc += [arr_op(esz, keys), sort_op("vec", algo)]
    # random pivot: every draw list up to draw_len over 0..n-1 (then 0 forever)
    for L in range(0, draw_len + 1):
        if L > 0 and n < 2:
            break       # no draw is ever consumed
        for ds in itertools.product(range(n), repeat=L) if L else [()]:
            e += 1
            esz = ESZS[e % len(ESZS)]
            sc += [arr_op(esz, keys), sort_op("vec" if e % 11 == 0 else "raw", QUICK_R, ds)]
    # find on the unsorted array, reverse (twice: back to the original), then search on the sorted one
    esz = ESZS[idx % len(ESZS)]
    probes = [0, 1, 2, 3] + ([4] if esz != 1 else [])
    sc.append(arr_op(esz, keys))
    for p in probes:
        sc.append("find %s %d" % ("vec" if (idx + p) % 2 else "raw", p))
    sc += ["rev raw", "rev vec", sort_op("raw", SELECTORS[idx % len(SELECTORS)])]
    for p in probes:
        sc += ["search raw %d" % p, "search vec %d" % p, "find raw %d" % p]
    return sc


def exhaustive_scripts(maxlen, draw_len, draw_len_long=None, long_from=None):
    """every array of length <= maxlen over the keys {1,2,3} (so that probes 0
    and 4 lie outside) x every selector x every draw list up to draw_len
    (draw_len_long for lengths >= long_from)"""
    scripts = []
    idx = 0
    narr = 0
    for n in range(0, maxlen + 1):
        dl = draw_len_long if (long_from is not None and n >= long_from) else draw_len
        for keys in itertools.product((1, 2, 3), repeat=n):
            scripts.append(_array_block(list(keys), idx, dl))
            idx += 1
            narr += 1
    return scripts, narr


def adversarial_scripts(sizes_quadratic, sizes_nlogn):
    """large inputs: sorted, reversed, constant, two-valued, organ-pipe, saw, random.
    Sizes stay far below the recursion depth the 8 MiB stack allows (DESIGN 7.3)."""
    scripts = []
    shapes = [("sorted", 0, 0), ("rev", 0, 0), ("const", 7, 0), ("rand", 12345, 2), ("organ", 0, 0),
              ("saw", 3, 0), ("rand", 99, 1000)]
    k = 0
    for n in sizes_quadratic:
        for kind, a, b in shapes:
            for algo in SELECTORS:
                mk = max(gen_keys(kind, n, a, b) or [0])
                cands = [e for e in (ESZS[k % 6:] + ESZS[:k % 6]) if fits(e, n, mk)]
                k += 1
                esz = cands[0]
                draws = [n - 1, n // 2, 2147483647] if algo == QUICK_R else []
                scripts.append(["gen %d %s %d %d %d" % (esz, kind, n, a, b),
                                sort_op("vec" if k % 3 == 0 else "raw", algo, draws)] + dumps(n)
                               + ["search raw %d" % (mk // 2), "search vec %d" % (mk + 1), "find raw %d" % mk,
                                  "rev vec"] + dumps(n))
    for n in sizes_nlogn:
        for kind, a, b in (("rand", 4242, 1 << 20), ("rand", 7, 3), ("const", 1, 0), ("organ", 0, 0)):
            for algo in (QUICK_M, HEAP, QUICK_R, 1234567):
                mk = max(gen_keys(kind, n, a, b))
                esz = [e for e in (8, 16, 4, 3) if fits(e, n, mk)][k % 2]
                k += 1
                draws = [n // 3, 2147483646] if algo == QUICK_R else []
                scripts.append(["gen %d %s %d %d %d" % (esz, kind, n, a, b), sort_op("raw", algo, draws)]
                               + dumps(n) + ["search raw %d" % (mk // 3), "rev raw"] + dumps(n))
    return scripts


def random_scripts(rng, count, maxlen=60):
    scripts = []
    for _ in range(count):
        sc = []
        for _ in range(rng.randrange(3, 10)):
            esz = rng.choice(ESZS)
            kb = keybits(esz)
            n = rng.randrange(0, min(maxlen, 1 << IDBITS[esz]) + 1)
            alpha = rng.choice([1, 2, 3, 4, 1 << min(kb, 10)])
            alpha = min(alpha, 1 << kb)
            keys = [rng.randrange(alpha) for _ in range(n)]
            shape = rng.random()
            if shape < 0.15:
                keys.sort()
            elif shape < 0.3:
                keys.sort(reverse=True)
            algo = rng.choice(SELECTORS + [5, 7, 4294967295, rng.randrange(4, 1 << 31)])
            draws = []
            if rng.random() < 0.8:
                for _ in range(rng.randrange(0, min(n + 3, 58))):
                    r = rng.random()
                    draws.append(rng.randrange(max(n, 1)) if r < 0.6 else
                                 max(n - 1, 0) if r < 0.8 else rng.randrange(1 << 31))
            via = "vec" if rng.random() < 0.3 else "raw"
            sc.append(arr_op(esz, keys))
            if rng.random() < 0.3:
                sc.append("find %s %d" % (via, rng.randrange(alpha + 1) if alpha < (1 << kb) else 0))
            if rng.random() < 0.3:
                sc.append("rev %s" % via)
            sc.append(sort_op(via, rng.choice([QUICK_R, QUICK_R, algo]), draws))
            for _ in range(rng.randrange(0, 4)):
                p = rng.randrange(alpha + 1) if alpha < (1 << kb) else rng.randrange(alpha)
                sc.append("%s %s %d" % (rng.choice(["search", "find"]), rng.choice(["raw", "vec"]), p))
            if rng.random() < 0.3:
                sc += ["rev %s" % via, "search raw %d" % (keys[0] if keys else 0)]
        scripts.append(sc)
    return scripts


def random_medium_scripts(rng, count, lo=65, hi=700):
    scripts = []
    for _ in range(count):
        n = rng.randrange(lo, hi)
        mod = rng.choice([1, 2, 3, 5, 50, 200])
        esz = rng.choice([e for e in ESZS if fits(e, n, mod)])
        algo = rng.choice(SELECTORS)
        draws = [rng.randrange(1 << 31) if rng.random() < 0.5 else rng.randrange(n) for _ in range(rng.randrange(0, 50))]
        scripts.append(["gen %d rand %d %d %d" % (esz, n, rng.randrange(1 << 30), mod),
                        sort_op(rng.choice(["raw", "vec"]), algo, draws if algo == QUICK_R else [])]
                       + dumps(n) + ["search raw %d" % rng.randrange(mod + 1), "find vec %d" % rng.randrange(mod + 1),
                                     "rev %s" % rng.choice(["raw", "vec"])] + dumps(n))
    return scripts


def neighbourhood(script, index):
    """scripts around a correspondence difference: the array of the differing
    operation under every selector / element size / short draw list, and its
    rearrangements"""
    base = None
    for op in script[:index + 1]:
        if op.split()[0] in ("arr", "gen"):
            base = op
    if base is None:
        return []
    w = base.split()
    out = []
    if w[0] == "gen":
        for algo in SELECTORS:
            n = int(w[3])
            out.append([base, sort_op("raw", algo)] + dumps(n) + ["search raw 1", "find raw 1", "rev raw"] + dumps(n))
        return out
    keys = [int(k) for k in w[2:]]
    n = len(keys)
    perms = set([tuple(keys), tuple(sorted(keys)), tuple(sorted(keys, reverse=True))])
    if n <= 6:
        perms |= set(itertools.permutations(keys))
    else:
        for r in range(n):
            perms.add(tuple(keys[r:] + keys[:r]))
    mk = max(keys) if keys else 0
    for ks in sorted(perms):
        sc = []
        for esz in [e for e in ESZS if fits(e, n, mk + 1)]:
            for algo in SELECTORS:
                sc += [arr_op(esz, ks), sort_op("raw", algo)]
                if algo == QUICK_R and n:
                    for dr in range(n):
                        sc += [arr_op(esz, ks), sort_op("raw", algo, [dr, (dr + 1) % n])]
            sc += ["search raw %d" % k for k in sorted(set(keys)) + [mk + 1]]
            sc += [arr_op(esz, ks)] + ["find raw %d" % k for k in sorted(set(keys)) + [mk + 1]] + ["rev raw"]
        out.append(sc)
    return out
