"""hashfn area: cstl_hash_div / cstl_hash_mul (src/hash.c)  <->  lean/Cstl/HashFn
(numeric half of property C17: the built-in hash functions stay in [0, m))

Stateless area: one op = one call, `mul k m` / `div k m`; a script is just a
batch of calls (the C harness forks once per script).
"""
import struct

NAME = "hashfn"
HARNESS_SRCS = ["hashfn.c"]
REPO_SRCS = ["hash.c", "common.c"]
WRAP_ALLOC = False
LEAN_TARGETS = ["Cstl.HashFn.Props", "m_hashfn"]
IMPORTS = ["Cstl.HashFn.Props"]

# second build of the same harness with the project's own release flags
# (Makefile: CFLAGS + CRELFLAGS), no sanitizer
RELEASE_CFLAGS = ["-std=c99", "-pedantic", "-O2", "-fPIC", "-D_POSIX_C_SOURCE=199309L"]

THEOREMS = {
    "C17": [
        "Cstl.HashFn.hashDiv_lt",
        "Cstl.HashFn.rnd_mono",
        "Cstl.HashFn.rnd_fixed",
        "Cstl.HashFn.rnd_fixed_rep",
        "Cstl.HashFn.rnd_faithful",
        "Cstl.HashFn.rnd_nearest",
        "Cstl.HashFn.rnd_ties_even",
        "Cstl.HashFn.rnd_scale_indep",
        "Cstl.HashFn.frac_le",
        "Cstl.HashFn.hashMul_lt",
        "Cstl.HashFn.hashMul_size_t",
    ],
}

SIZE_MAX = 2 ** 64 - 1
BATCH = 2000            # ops per script


def corpus():
    """former findings / hand-picked worst cases (none failed on the pinned tree)"""
    ops = [
        "mul 0 1", "mul 1 1", "mul 1 2", "mul 1 M", "mul 1 M-1", "mul 3 16777217", "mul 3 16777219",
        "mul 5184444 M", "mul 4097 33554433", "mul 1 9223372036854775809",
        "mul M M", "mul M 1", "mul 0 M", "mul 16777217 16777217",
        "div 0 1", "div M 1", "div M M", "div M M-1", "div M-1 M", "div 5 3", "div 1 M",
    ]
    return [ops]


# ---------------------------------------------------------------------------
# independent oracle: the property text, nothing else


def parse_op(op):
    w = op.split()
    if len(w) != 3 or w[0] not in ("mul", "div"):
        return None

    def val(s):
        if s == "M":
            return SIZE_MAX
        if s.startswith("M-"):
            return SIZE_MAX - int(s[2:])
        return int(s)
    return w[0], val(w[1]), val(w[2])


def oracle(prop, script, c_lines):
    """C17a read on the implementation's output: for every key and every
    m >= 1 the returned value v satisfies 0 <= v < m.  Nothing is said about
    which value in the range is returned."""
    for i, op in enumerate(script):
        p = parse_op(op)
        if p is None:
            continue
        f, k, m = p
        if m < 1 or m > SIZE_MAX or k < 0 or k > SIZE_MAX:
            if i >= len(c_lines) or c_lines[i].startswith("STOP"):
                return None     # outside the domain, and the rest of the script did not run
            continue
        if i >= len(c_lines):
            return "op %d '%s': no output from the implementation" % (i, op)
        line = c_lines[i]
        if line.startswith("STOP bad-float-environment"):
            # the harness refused to compute (FLT_EVAL_METHOD != 0 or an unexpected float
            # format): says nothing about the property; the line still differs from the
            # model's, so the run is reported as a broken correspondence
            return None
        if line.startswith("STOP"):
            return "op %d '%s': implementation stopped with '%s'" % (i, op, line)
        try:
            v = int(line.split("|")[0].strip())
        except ValueError:
            return "op %d '%s': unparsable implementation output '%s'" % (i, op, line)
        if not (0 <= v < m):
            return ("op %d: cstl_hash_%s(%d, %d) returned %d, which is not in [0, %d)"
                    % (i, f, k, m, v, m))
    return None


# ---------------------------------------------------------------------------
# generators


def batches(ops, n=BATCH):
    return [ops[i:i + n] for i in range(0, len(ops), n)]


def clip(vals, lo=0):
    return sorted(set(v for v in vals if lo <= v <= SIZE_MAX))


def significands(rng, nrandom):
    """24-bit significands tested at every exponent: min, max, their
    neighbours (odd/even, so that both tie directions occur) and random ones"""
    qs = [2 ** 23, 2 ** 23 + 1, 2 ** 23 + 2, 2 ** 24 - 2, 2 ** 24 - 1]
    qs += [rng.randrange(2 ** 23, 2 ** 24) for _ in range(nrandom)]
    return qs


def ints_rounding_to(q, E):
    """integers around the binary32 value f = q * 2^(E-23), E = floor(log2 f):
    f itself (or its integer neighbours when f is not an integer) and the
    integers around both rounding boundaries of f, i.e. the smallest and the
    largest integer that convert to f together with their outer neighbours
    (both tie directions are covered without assuming one here)."""
    if E < 23:
        sh = 23 - E
        lo = q >> sh
        return [lo - 1, lo, lo + 1, lo + 2] if q & ((1 << sh) - 1) else [lo - 1, lo, lo + 1]
    u = 1 << (E - 23)                       # unit in the last place
    f = q * u
    out = [f - 1, f, f + 1]
    if u >= 2:
        up = f + u // 2                     # midpoint to the next float
        dn = f - (u // 2 if q > 2 ** 23 or u < 4 else u // 4)   # midpoint to the previous float
        if q == 2 ** 23 and u < 4:
            dn = f - 1                      # previous binade has ulp 1: every integer is a float
        out += [up - 1, up, up + 1, dn - 1, dn, dn + 1]
    return out


def float_grid(rng, nrandom, lo=0):
    """every binary32 exponent 0..63 (and 2^64, the float SIZE_MAX converts
    to) x the tested significands -> integers converting to / next to them"""
    vals = []
    for E in range(0, 64):
        for q in significands(rng, nrandom):
            vals += ints_rounding_to(q, E)
    vals += [SIZE_MAX - i for i in range(0, 4)]
    vals += [2 ** 64 - 2 ** 39 - 1, 2 ** 64 - 2 ** 39, 2 ** 64 - 2 ** 39 + 1,   # boundary of rounding up to 2^64
             2 ** 64 - 2 ** 40, 2 ** 64 - 2 ** 40 + 1]
    return clip(vals, lo)


def pow2_neighbours(lo=0):
    vals = []
    for e in range(0, 65):
        vals += [2 ** e - 1, 2 ** e, 2 ** e + 1]
    return clip(vals, lo)


PHI_SIG = 13573053          # significand of 1.61803398875f  (0x3FCF1BBD)


def f32(x):
    """round a double to binary32 (used only to *select* keys worth testing)"""
    return struct.unpack("f", struct.pack("f", x))[0]


def interesting_keys(limit, per_exp=4):
    """Keys whose single-precision fraction of k*phi is extreme within each
    exponent of the product (largest / smallest non-zero fractions): these are
    the keys for which (M - floorf(M)) * m comes closest to m.  Selection only;
    the verdict never depends on this emulation."""
    phi = PHI_SIG / 2.0 ** 23
    best = {}
    for k in range(1, limit):
        M = f32(phi * k)            # exact product (48 bits) rounded once
        fr = M - int(M)
        if fr == 0.0:
            continue
        j = int(M).bit_length()
        b = best.setdefault(j, [])
        b.append((fr, k))
        if len(b) > 4096:
            b.sort()
            best[j] = b[:per_exp] + b[-per_exp:]
    keys = []
    for j, b in sorted(best.items()):
        b.sort()
        keys += [k for _, k in b[:per_exp]] + [k for _, k in b[-per_exp:]]
    return sorted(set(keys))


def log_uniform(rng, maxbits=64):
    return rng.getrandbits(rng.randint(1, maxbits))


def grid_ops(rng, tier):
    """boundary grid of C17a"""
    nr = 4 if tier == "quick" else 8
    ms = float_grid(rng, nr, lo=1)
    ks_conv = float_grid(rng, 1 if tier == "quick" else 4)
    p2m = pow2_neighbours(lo=1)
    p2k = pow2_neighbours()
    kworst = interesting_keys(2 ** 18 if tier == "quick" else 5300000, per_exp=2 if tier == "quick" else 4)
    ksmall = list(range(0, 300 if tier == "quick" else 5000))
    mfew = clip([1, 2, 3, 5, 7, 10, 2 ** 23 - 1, 2 ** 23, 2 ** 24 - 1, 2 ** 24 + 1, 2 ** 24 + 3, 2 ** 25 + 5,
                 2 ** 31 - 1, 2 ** 32 + 1, 2 ** 53 + 1, 2 ** 63 - 1, 2 ** 63 + 1, 2 ** 63 + 2 ** 39,
                 SIZE_MAX - 2 ** 39, SIZE_MAX - 2, SIZE_MAX - 1, SIZE_MAX], lo=1)
    ops = []
    # product factor x scale factor: extreme fractions x every tested float of m
    for k in kworst + [1, 2, 3, 4, 5]:
        for m in ms:
            ops.append("mul %d %d" % (k, m))
    # small keys (all exponents of the product with many mantissas) x powers of two +-1 and a few m
    for k in ksmall:
        for m in (p2m if k < 64 else mfew):
            ops.append("mul %d %d" % (k, m))
    # key conversion boundaries x a few table sizes
    for k in ks_conv:
        for m in mfew:
            ops.append("mul %d %d" % (k, m))
    # powers of two +-1 crossed
    for k in p2k:
        for m in p2m:
            ops.append("mul %d %d" % (k, m))
            ops.append("div %d %d" % (k, m))
    # SIZE_MAX neighbours
    top = [SIZE_MAX - i for i in range(0, 5)]
    for k in top + [0, 1, 2]:
        for m in top + [1, 2, 3]:
            ops.append("mul %d %d" % (k, m))
            ops.append("div %d %d" % (k, m))
    info = {"table_sizes_on_float_grid": len(ms), "keys_extreme_fraction": len(kworst),
            "keys_conversion_boundaries": len(ks_conv)}
    return ops, info


def random_ops(rng, n):
    """seeded random pairs.  Uniform 64-bit keys almost always give fraction 0
    (k*phi >= 2^23 has no fractional bits in binary32), so three quarters of
    the keys are drawn where the fraction is alive / log-uniformly."""
    ops = []
    for i in range(n):
        c = i % 8
        if c == 0:
            k, m = rng.getrandbits(64), rng.getrandbits(64)
        elif c in (1, 2, 3):
            k, m = rng.randrange(0, 2 ** 23), log_uniform(rng)
        elif c == 4:
            k, m = rng.randrange(0, 2 ** 23), rng.getrandbits(64)
        elif c == 5:
            k, m = log_uniform(rng), log_uniform(rng)
        elif c == 6:
            k, m = log_uniform(rng, 24), rng.randrange(1, 2 ** 16)
        else:
            k, m = log_uniform(rng), log_uniform(rng)
            ops.append("div %d %d" % (k, max(1, m)))
            continue
        ops.append("mul %d %d" % (k, max(1, m)))
    return ops


def all_live_keys_ops(rng, ms):
    """thorough tier: every key whose product with phi can have a fractional
    part in binary32 (k*phi < 2^23, i.e. k <= 5184444) and a margin above,
    each with table sizes rotating through the float grid"""
    ops = []
    n = len(ms)
    for k in range(0, 5300000):
        ops.append("mul %d %d" % (k, ms[(k * 7919) % n]))
    return ops


def neighbourhood_ops(rng, op):
    """directed search around an op on which model and implementation differ:
    the same key against every table size of the float grid, keys and table
    sizes next to the differing ones, and the returned-value boundary"""
    p = parse_op(op)
    if p is None:
        return []
    f, k, m = p
    ops = []
    ks = clip([k + d for d in range(-3, 4)] + [k ^ (1 << b) for b in range(0, 64)])
    ms = float_grid(rng, 2, lo=1)
    near_m = clip([m + d for d in range(-3, 4)] + [m ^ (1 << b) for b in range(0, 64)], lo=1)
    for m2 in ms + near_m:
        ops.append("%s %d %d" % (f, k, m2))
    for k2 in ks:
        for m2 in near_m[:40] + [m]:
            ops.append("%s %d %d" % (f, k2, m2))
    return ops
