"""vec area: src/vector.c + src/_string.c (narrow/wide)  <->  lean/Cstl/Vec  (properties C09, C10)

Objects of the line protocol: v0 v1 (vectors), s0 s1 (cstl_string), w0 w1 (cstl_wstring).
Allocation rule shared by harness/vec.c and the model driver: a realloc request fails
iff the next `plan` character is 0 or the request is larger than LIMIT bytes.
"""
import re

NAME = "vec"
HARNESS_SRCS = ["vec.c"]
REPO_SRCS = None
# every realloc of the library goes through vec_realloc() in harness/vec.c (allocation
# policy), which forwards to the interposer of harness/alloc.c (ledger + request log)
CFLAGS = ["-Drealloc=vec_realloc"]
LEAN_TARGETS = ["Cstl.Vec.Props", "Cstl.Vec.PropsRun", "Cstl.Vec.PropsStrRun", "m_vec"]
IMPORTS = ["Cstl.Vec.Props", "Cstl.Vec.PropsRun", "Cstl.Vec.PropsStrRun"]

THEOREMS = {
    "C09": [
        "Cstl.Vec.run_inv",
        "Cstl.Vec.run_inv_from_init",
        "Cstl.Vec.step_inv",
        "Cstl.Vec.step_error",
        "Cstl.Vec.at_ok_iff",
        "Cstl.Vec.vget_vset_safe",
        "Cstl.Vec.realloc_preserves_prefix",
        "Cstl.Vec.reserve_commit_or_noop",
        "Cstl.Vec.reserve_fail_noop",
        "Cstl.Vec.resize_fail_abort",
        "Cstl.Vec.resize_abort_iff",
        "Cstl.Vec.resize_error_is_abort",
        "Cstl.Vec.resize_ok_of_satisfiable",
        "Cstl.Vec.resize_ok_spec",
        "Cstl.Vec.resize_inv",
        "Cstl.Vec.ctor_dtor_once",
        "Cstl.Vec.capacity_change_no_xtor",
        "Cstl.Vec.clear_spec",
        "Cstl.Vec.vreverse_spec",
        "Cstl.Vec.vsort_spec",
        "Cstl.Vec.scratch_in_block",
        "Cstl.Vec.pinned_breaks_inv",
    ],
    "C10": [
        "Cstl.Vec.run_refines",
        "Cstl.Vec.run_refines_from_init",
        "Cstl.Vec.sstep_refines",
        "Cstl.Vec.str_nul_terminated",
        "Cstl.Vec.strResize_refines",
        "Cstl.Vec.strResize_ok_iff",
        "Cstl.Vec.strResize_error",
        "Cstl.Vec.strResize0_ok",
        "Cstl.Vec.strResize0_error",
        "Cstl.Vec.insertCh_refines",
        "Cstl.Vec.insertStrN_refines",
        "Cstl.Vec.insertCh_error",
        "Cstl.Vec.insertStrN_error",
        "Cstl.Vec.insert_abort_iff",
        "Cstl.Vec.prepInsert_ok_iff",
        "Cstl.Vec.count_truncated",
        "Cstl.Vec.erase_refines",
        "Cstl.Vec.substr_refines",
        "Cstl.Vec.strAt_spec",
        "Cstl.Vec.strReserve_rep",
        "Cstl.Vec.strClear_rep",
        "Cstl.Vec.cstrFrom_rep",
        "Cstl.Vec.strchrM_spec",
        "Cstl.Vec.strstrM_spec",
        "Cstl.Vec.strcmpM_eq_zero_iff",
        "Cstl.Vec.strcmpM_first_diff",
        "Cstl.Vec.findCh_eq_libc",
        "Cstl.Vec.findStr_eq_libc",
        "Cstl.Vec.compareStr_eq_libc",
        "Cstl.Vec.growth_abort_no_write",
        "Cstl.Vec.pos_abort_iff",
        "Cstl.Vec.pinned_clamp_wraps",
    ],
}

LIMIT = 65536
M = 2 ** 64 - 1
UNDEF, CTORV = 238, 192
OBJS = ["v0", "v1", "s0", "s1", "w0", "w1"]
ESIZES = [1, 2, 3, 4, 8, 16, 64]


def sz(n):
    """render a size_t for a script (`M-k` syntax near SIZE_MAX)"""
    n %= 2 ** 64
    if n == M:
        return "M"
    if n > M - 4096:
        return "M-%d" % (M - n)
    return str(n)


def val(tok):
    if tok == "M":
        return M
    if tok.startswith("M-"):
        return M - int(tok[2:])
    return int(tok)


def units(tok):
    return [] if tok == "-" else [int(x) for x in tok.split(",")]


def utok(us):
    return ",".join(map(str, us)) if us else "-"


def cview(us):
    out = []
    for u in us:
        if u == 0:
            break
        out.append(u)
    return out


# ---------------------------------------------------------------------------
# parsing the dump


class Obj:
    __slots__ = ("name", "e", "cons", "dest", "fresh", "n", "c", "bid", "bytes", "dead", "toks",
                 "sz", "sc", "str")

    def contents(self, limit=200000):
        """expanded values; None when something is outside storage / inconsistent / too long"""
        out = []
        for t in self.toks:
            v, k = (t.split("*") + ["1"])[:2]
            k = int(k)
            if v in ("!", "bad") or len(out) + k > limit:
                return None
            out.extend([int(v)] * k)
        return out

    def width(self):
        return self.e


OBJ_RE = re.compile(
    r"^(?P<name>[vsw][01])(?: e=(?P<e>\d+) x=(?P<x1>\d)(?P<x2>\d))?"
    r"(?: (?P<fresh>~)| n=(?P<n>\d+) c=(?P<c>\d+) b=(?P<b>\S+) \[(?P<body>[^\]]*)\]"
    r"(?: sz=(?P<sz>\d+) sc=(?P<sc>\d+) str=(?P<str>\S+))?)$")


def parse_line(line):
    """'res | v0 ... | ... | w1 ...' -> (res, {name: Obj}) or None"""
    if line.startswith("STOP") or " | " not in line:
        return None
    parts = line.split(" | ")
    if len(parts) != 7:
        return None
    objs = {}
    for p in parts[1:]:
        m = OBJ_RE.match(p.strip())
        if not m:
            return None
        o = Obj()
        o.name = m.group("name")
        if o.name[0] == "v":
            if m.group("e") is None:
                return None
            o.e, o.cons, o.dest = int(m.group("e")), m.group("x1") == "1", m.group("x2") == "1"
        else:
            o.e, o.cons, o.dest = (1 if o.name[0] == "s" else 4), False, False
        o.fresh = m.group("fresh") is not None
        o.dead = False
        o.sz = o.sc = 0
        o.str = "nul"
        if o.fresh:
            o.n = o.c = o.bid = o.bytes = 0
            o.toks = []
        else:
            o.n, o.c = int(m.group("n")), int(m.group("c"))
            b = m.group("b")
            o.bid = o.bytes = 0
            if b == "dead":
                o.dead = True
            elif b != "0":
                o.bid, o.bytes = [int(x) for x in b.split(":")]
            o.toks = [t for t in m.group("body").split(",") if t]
            if o.name[0] != "v":
                if m.group("sz") is None:
                    return None
                o.sz, o.sc, o.str = int(m.group("sz")), int(m.group("sc")), m.group("str")
        objs[o.name] = o
    if sorted(objs) != sorted(OBJS):
        return None
    return parts[0], objs


def parse_events(res):
    """'ok R0>1:16 C0..2' -> list of ('R', old, new|None, bytes) / ('Z', old) / ('F', id) / ('C', slot) / ('D', slot);
    None when a token is not understood"""
    evs = []
    for t in res.split()[1:]:
        m = re.match(r"R(\d+)>(\d+):(\d+)$", t)
        if m:
            old, new, n = int(m.group(1)), int(m.group(2)), int(m.group(3))
            evs.append(("Z", old) if new == 0 else ("R", old, new, n))
            continue
        m = re.match(r"R(\d+)!(\d+)$", t)
        if m:
            evs.append(("R", int(m.group(1)), None, int(m.group(2))))
            continue
        m = re.match(r"F(\d+)$", t)
        if m:
            evs.append(("F", int(m.group(1))))
            continue
        m = re.match(r"([CD])(\d+)(?:\.\.(\d+))?$", t)
        if m:
            a = int(m.group(2))
            b = int(m.group(3)) if m.group(3) else a
            if abs(a - b) > 200000:
                return None
            rng = range(a, b + 1) if b >= a else range(a, b - 1, -1)
            evs.extend((m.group(1), i) for i in rng)
            continue
        return None
    return evs


# ---------------------------------------------------------------------------
# reference semantics (python lists; independent of the Lean model)


class Ref:
    """What the documentation promises: vector sizes/flags/values, strings as lists of code units.
    `cap` is not part of the reference: it is read from the implementation's own dump."""

    def __init__(self):
        self.vals = {o: [] for o in OBJS}        # vectors: values (None = unspecified); strings: units
        self.e = {"v0": 4, "v1": 4, "s0": 1, "s1": 1, "w0": 4, "w1": 4}
        self.cons = {o: False for o in OBJS}
        self.dest = {o: False for o in OBJS}
        self.touched = {o: False for o in OBJS}  # string was given contents at least once since clear
        self.plan = []

    def next_fails(self):
        return bool(self.plan) and not self.plan[0]


def growth_ok(ref, e, cap_before, need_cap):
    """can the vector get capacity `need_cap` (the storage holds one more element)?"""
    if need_cap <= cap_before:
        return True
    return (need_cap + 1) * e <= LIMIT and not ref.next_fails()


def step_expect(ref, prev, op):
    """Documented outcome of `op` in reference state `ref` with the implementation's previous dump
    `prev` ({name: Obj}).  Returns a dict:
        domain: False -> the call is outside the documented domain (nothing may be said)
        abort:  True/False -> SIGABRT is required / forbidden
        apply:  function(ref) updating the reference after a successful call
        check:  function(res, evs, objs, prev) -> None | str, extra checks of the result part
    """
    w = op.split()
    o = w[0]
    a = w[1] if len(w) > 1 else None
    out = {"domain": True, "abort": False, "apply": lambda r: None, "check": lambda *x: None}

    def setv(name, vals):
        def f(r):
            r.vals[name] = vals
        return f

    if o == "plan":
        bits = [] if w[1] == "-" else [c != "0" for c in w[1]]

        def f(r):
            r.plan = bits
        out["apply"] = f
        return out

    if o == "init":
        p = prev[a]
        if not p.fresh or val(w[2]) == 0:
            out["domain"] = False
            return out
        e, x = val(w[2]), int(w[3])

        def f(r):
            r.e[a], r.cons[a], r.dest[a], r.vals[a] = e, bool(x & 1), bool(x & 2), []
        out["apply"] = f
        return out

    # ------------------------------------------------------------ vector
    if o == "reserve":
        n = val(w[2])
        p = prev[a]
        can = growth_ok(ref, ref.e[a], p.c, n)

        def chk(res, evs, objs, prev):
            q = objs[a]
            if n > p.c and can and q.c < n:
                return "reserve(%d) could be satisfied but capacity is %d" % (n, q.c)
            if n > p.c and q.c < n and (q.n, q.c, q.bid, q.bytes, q.toks) != (p.n, p.c, p.bid, p.bytes, p.toks):
                return "reserve(%d) failed but was not a no-op: %s" % (n, (q.n, q.c, q.bid, q.bytes))
            return None
        out["check"] = chk
        return out

    if o == "shrink":
        p = prev[a]

        def chk(res, evs, objs, prev):
            q = objs[a]
            if q.c > p.c or q.c < q.n:
                return "shrink_to_fit: capacity %d -> %d with size %d" % (p.c, q.c, q.n)
            return None
        out["check"] = chk
        return out

    if o == "resize":
        n = val(w[2])
        p = prev[a]
        old = len(ref.vals[a])
        if not growth_ok(ref, ref.e[a], p.c, n):
            out["abort"] = True
            return out
        cons, dest = ref.cons[a], ref.dest[a]

        def f(r):
            if n <= old:
                r.vals[a] = r.vals[a][:n]
            else:
                r.vals[a] = r.vals[a] + [CTORV if cons else None] * (n - old)

        def chk(res, evs, objs, prev):
            if evs is None:
                return "event log not understood: %s" % res
            cs = sorted(i for k, *r in evs if k == "C" for i in r)
            ds = sorted(i for k, *r in evs if k == "D" for i in r)
            wantc = list(range(old, n)) if (cons and n > old) else []
            wantd = list(range(n, old)) if (dest and n < old) else []
            if cs != wantc:
                return "constructor calls on slots %s, slots entering [0,size) are %s" % (cs[:20], wantc[:20])
            if ds != wantd:
                return "destructor calls on slots %s, slots leaving [0,size) are %s" % (ds[:20], wantd[:20])
            return None
        out["apply"], out["check"] = f, chk
        return out

    if o in ("at", "set") and a[0] == "v":
        i = val(w[2])
        n = len(ref.vals[a])
        if o == "set" and int(w[3]) > 255:
            out["domain"] = False
            return out
        if i >= n:
            out["abort"] = True
            return out
        p = prev[a]
        if o == "set":
            x = int(w[3])

            def f(r):
                r.vals[a] = r.vals[a][:i] + [x] + r.vals[a][i + 1:]
            out["apply"] = f
        else:
            want = ref.vals[a][i]

            def chk(res, evs, objs, prev):
                m = re.match(r"b(\d+)\+(\d+)=(\w+)$", res)
                if not m:
                    return "unparsable at() result '%s'" % res
                bid, off, v = int(m.group(1)), int(m.group(2)), m.group(3)
                if bid != p.bid or off != i * p.e or off + p.e > p.bytes:
                    return "at(%d) is block %d offset %d; storage is block %d of %d bytes" % (i, bid, off, p.bid, p.bytes)
                if want is not None and v != str(want):
                    return "at(%d) holds %s, the element stored there was %s" % (i, v, want)
                return None
            out["check"] = chk
        return out

    if o == "clear":
        p = prev[a]
        old = len(ref.vals[a])
        dest = ref.dest[a]

        def f(r):
            r.vals[a] = []
            r.touched[a] = False

        def chk(res, evs, objs, prev):
            if evs is None:
                return "event log not understood: %s" % res
            ds = sorted(i for k, *r in evs if k == "D" for i in r)
            if ds != (list(range(old)) if dest else []):
                return "clear: destructor calls on slots %s, size was %d" % (ds[:20], old)
            if any(k == "C" for k, *r in evs):
                return "clear: constructor called"
            if not objs[a].fresh:
                return "clear: object still holds storage"
            return None
        out["apply"], out["check"] = f, chk
        return out

    if o == "swap":
        b = w[2]

        def f(r):
            for d in (r.vals, r.e, r.cons, r.dest, r.touched):
                d[a], d[b] = d[b], d[a]
        out["apply"] = f
        return out

    if o == "rev":
        out["apply"] = lambda r: r.vals.__setitem__(a, r.vals[a][::-1])
        return out

    if o == "sort":
        if any(v is None for v in ref.vals[a]):
            out["domain"] = False       # never happens: the harness initialises what it was given
            return out
        out["apply"] = lambda r: r.vals.__setitem__(a, sorted(r.vals[a]))
        return out

    # ------------------------------------------------------------ string
    s = ref.vals[a]
    e = ref.e[a]
    p = prev[a]
    size = len(s)

    def grow(newsize, target=a):
        """is a string of `newsize` characters (+ NUL) obtainable for object `target`?"""
        if newsize + 1 > M:
            return False
        return growth_ok(ref, e, prev[target].c, newsize + 1)

    def edit(newvals, target=a):
        def f(r):
            r.vals[target] = newvals
            r.touched[target] = True
        return f

    if o == "sreserve":
        n = val(w[2])
        if p.n == 0:
            # reserve on a string that holds no terminator yet: str() then points at
            # storage nobody has written.  reserve is not one of C10's operations.
            out["unterminated"] = True
        return out

    if o == "sresize":
        n = val(w[2])
        if not grow(n):
            out["abort"] = True
            return out
        out["apply"] = edit(s[:n] + [0] * max(0, n - size))
        return out

    if o in ("insch", "appch"):
        pos = val(w[2]) if o == "insch" else size
        cnt, ch = (val(w[3]), int(w[4])) if o == "insch" else (val(w[2]), int(w[3]))
        if ch >= 2 ** (8 * e):
            out["domain"] = False
            return out
        if pos > size:
            out["abort"] = True
            return out
        if cnt > 0 and not grow(size + cnt):
            out["abort"] = True
            return out
        out["apply"] = edit(s[:pos] + [ch] * cnt + s[pos:])
        return out

    if o in ("insn", "appn", "insstr", "appstr", "setstr", "ins", "app"):
        if o in ("ins", "app"):
            t = w[3] if o == "ins" else w[2]
            if prev[t].str == "U":
                out["domain"] = False
                return out
            src = list(ref.vals[t])
            n = len(src)
        else:
            us = units(w[3] if o in ("insn", "insstr") else w[2])
            if any(u >= 2 ** (8 * e) for u in us):
                out["domain"] = False
                return out
            if o in ("insn", "appn"):
                n = val(w[4] if o == "insn" else w[3])
                src = us
            else:
                src = cview(us)
                n = len(src)
        if o == "setstr":
            # resize(0) then append: two growth steps
            if not grow(0):
                out["abort"] = True
                return out
            # the second request sees the plan after the first one (if one was made)
            need_first = p.c < 1
            r2 = Ref()
            r2.plan = ref.plan[1:] if (need_first and ref.plan) else list(ref.plan)
            cap_after_first = max(p.c, 1)
            if n > 0 and not growth_ok(r2, e, cap_after_first, n + 1):
                out["abort"] = True
                return out
            out["apply"] = edit(list(src))
            return out
        pos = val(w[2]) if o in ("insn", "insstr", "ins") else size
        if pos > size:
            out["abort"] = True
            return out
        if n > 0 and (size + n > M or not grow(size + n)):
            out["abort"] = True
            return out
        if n > len(src):
            out["domain"] = False       # the caller promised n characters and supplied fewer
            return out
        out["apply"] = edit(s[:pos] + src[:n] + s[pos:])
        return out

    if o == "erase":
        pos, n = val(w[2]), val(w[3])
        if pos >= size:
            out["abort"] = True
            return out
        k = min(n, size - pos)
        out["apply"] = edit(s[:pos] + s[pos + k:])
        return out

    if o == "substr":
        pos, n, t = val(w[2]), val(w[3]), w[4]
        if pos >= size:
            out["abort"] = True
            return out
        k = min(n, size - pos)
        if not grow(k, t):
            out["abort"] = True
            return out
        out["apply"] = edit(s[pos:pos + k], t)
        return out

    if o == "sat":
        i = val(w[2])
        if i >= size:
            out["abort"] = True
            return out

        def chk(res, evs, objs, prev):
            m = re.match(r"b(\d+)\+(\d+)=(\d+)$", res)
            if not m:
                return "unparsable at() result '%s'" % res
            bid, off, v = int(m.group(1)), int(m.group(2)), int(m.group(3))
            if bid != p.bid or off != i * e or off + e > p.bytes:
                return "at(%d) is block %d offset %d; storage is block %d of %d bytes" % (i, bid, off, p.bid, p.bytes)
            if v != s[i]:
                return "at(%d) holds %d, reference string has %d" % (i, v, s[i])
            return None
        out["check"] = chk
        return out

    if o == "str":
        if p.str == "U":
            out["domain"] = False
            return out
        want = cview(s)

        def chk(res, evs, objs, prev):
            m = re.match(r"str=\[([^\]]*)\] len=(\d+)$", res)
            if not m:
                return "str() does not point at a NUL-terminated string: '%s'" % res
            got = []
            for t in [t for t in m.group(1).split(",") if t]:
                v, k = (t.split("*") + ["1"])[:2]
                got.extend([int(v)] * int(k))
            if got != want or int(m.group(2)) != len(want):
                return "str() reads %s, reference string (up to its first NUL) is %s" % (got, want)
            return None
        out["check"] = chk
        return out

    if o in ("findch", "findstr", "find", "cmp", "cmpstr"):
        if p.str == "U" or (o in ("find", "cmp") and prev[w[2]].str == "U"):
            out["domain"] = False
            return out
        hay = cview(s)      # what the C library sees from the start

        def key(u):
            return u if e == 1 else (u if u < 2 ** 31 else u - 2 ** 32)
        if o in ("cmp", "cmpstr"):
            other = cview(ref.vals[w[2]]) if o == "cmp" else cview(units(w[2]))
            ka, kb = [key(u) for u in hay] + [0], [key(u) for u in other] + [0]
            want = 0
            for x, y in zip(ka, kb):
                if x != y:
                    want = -1 if x < y else 1
                    break

            def chk(res, evs, objs, prev):
                m = re.match(r"r=(-?\d+) libc=(-?\d+)$", res)
                if not m:
                    return "unparsable compare result '%s'" % res
                if m.group(1) != m.group(2):
                    return "compare returned sign %s, the C library on the same characters %s" % (m.group(1), m.group(2))
                if int(m.group(1)) != want:
                    return "compare returned sign %s, reference comparison %d" % (m.group(1), want)
                return None
            out["check"] = chk
            return out
        pos = val(w[3])
        if pos >= size:
            out["abort"] = True
            return out
        view = cview(s[pos:])       # NUL-terminated string at str()+pos
        if o == "findch":
            c = int(w[2])
            if c >= 2 ** (8 * e):
                out["domain"] = False
                return out
            if c == 0:
                libc = pos + len(view)
            else:
                libc = pos + view.index(c) if c in view else -1
            want = -1 if libc == size else libc     # the object's own terminator is not a character of the string
        else:
            ndl = cview(ref.vals[w[2]]) if o == "find" else cview(units(w[2]))
            libc = -1
            for i in range(len(view) + 1):
                if view[i:i + len(ndl)] == ndl:
                    libc = pos + i
                    break
            want = libc

        def chk(res, evs, objs, prev):
            m = re.match(r"r=(-?\d+) libc=(-?\d+)$", res)
            if not m:
                return "unparsable find result '%s'" % res
            r, l = int(m.group(1)), int(m.group(2))
            if l != libc:
                return "harness: C library returned %d, reference %d" % (l, libc)
            if r != want:
                return "find returned %d, the C library on the same characters gives %d" % (r, want)
            return None
        out["check"] = chk
        return out

    out["domain"] = False
    return out


def oracle(prop, script, c_lines):
    """Independent reading of C09 (storage ledger of every object) and C10 (reference strings)
    on the real code's output.  Returns a description of the first failure or None."""
    ref = Ref()
    line0 = "x | v0 e=4 x=00 ~ | v1 e=4 x=00 ~ | s0 ~ | s1 ~ | w0 ~ | w1 ~"
    prev = parse_line(line0)[1]
    live = {}       # block id -> bytes
    unterminated_ok = False
    for i, op in enumerate(script):
        exp = step_expect(ref, prev, op)
        if not exp["domain"]:
            return None
        if exp.get("unterminated"):
            unterminated_ok = True
        if i >= len(c_lines):
            return "op %d '%s': no output from the implementation" % (i, op)
        line = c_lines[i]
        if line.startswith("STOP"):
            if line == "STOP abort" and exp["abort"]:
                return None     # documented fail-stop; the process is gone
            if line == "STOP abort":
                return "op %d '%s': aborted, but the call is valid and can be satisfied" % (i, op)
            return "op %d '%s': implementation stopped with '%s'" % (i, op, line)
        if exp["abort"]:
            return "op %d '%s': documented abort did not happen: '%s'" % (i, op, line[:160])
        st = parse_line(line)
        if st is None:
            return "op %d '%s': unparsable implementation output '%s'" % (i, op, line[:200])
        res, objs = st
        evs = parse_events(res) if res.startswith("ok") else []
        # ---- block ledger from the request log
        if evs is None:
            return "op %d '%s': event log not understood: %s" % (i, op, res)
        for ev in evs:
            if ev[0] == "R":
                _, old, new, n = ev
                if ref.plan:
                    ref.plan = ref.plan[1:]
                if new is not None:
                    if old:
                        if old not in live:
                            return "op %d '%s': realloc of block %d which is not live" % (i, op, old)
                        del live[old]
                    live[new] = n
            elif ev[0] == "Z":
                if ref.plan:
                    ref.plan = ref.plan[1:]
                live.pop(ev[1], None)
            elif ev[0] == "F":
                if ev[1] not in live:
                    return "op %d '%s': free of block %d which is not live" % (i, op, ev[1])
                del live[ev[1]]
        exp["apply"](ref)
        w = exp["check"](res, evs, objs, prev)
        if w:
            return "op %d '%s': %s" % (i, op, w)
        # ---- storage ledger of every object
        owners = {}
        for name in OBJS:
            q = objs[name]
            if q.e != ref.e[name] or q.cons != ref.cons[name] or q.dest != ref.dest[name]:
                return "op %d '%s': %s element size / xtors changed" % (i, op, name)
            if q.n > q.c:
                return "op %d '%s': %s reports size %d > capacity %d" % (i, op, name, q.n, q.c)
            if q.dead:
                return "op %d '%s': %s points at a block that has been freed" % (i, op, name)
            if q.fresh:
                continue
            if q.bid == 0:
                if q.c > 0 or q.n > 0:
                    return "op %d '%s': %s reports capacity %d with no storage" % (i, op, name, q.c)
                continue
            if q.bid not in live or live[q.bid] != q.bytes:
                return "op %d '%s': %s storage block %d is not a live allocation" % (i, op, name, q.bid)
            if q.bid in owners:
                return "op %d '%s': %s and %s share block %d" % (i, op, name, owners[q.bid], q.bid)
            owners[q.bid] = name
            if q.bytes < (q.c + 1) * q.e:
                return ("op %d '%s': %s reports capacity %d (%d-byte elements) over a block of %d bytes"
                        % (i, op, name, q.c, q.e, q.bytes))
        for bid in live:
            if bid not in owners:
                return "op %d '%s': block %d is live but no object owns it (leak)" % (i, op, bid)
        # ---- contents
        for name in OBJS:
            q = objs[name]
            want = ref.vals[name]
            got = q.contents()
            if got is None:
                return "op %d '%s': %s has elements outside its storage / torn elements: %s" % (i, op, name, q.toks[:6])
            if name[0] == "v":
                if q.n != len(want):
                    return "op %d '%s': %s size %d, reference %d" % (i, op, name, q.n, len(want))
                for k, (g, x) in enumerate(zip(got, want)):
                    if x is not None and g != x:
                        return "op %d '%s': %s slot %d holds %d, the element kept there was %d" % (i, op, name, k, g, x)
                ref.vals[name] = list(got)      # unspecified values become what they are
            else:
                if q.sz != len(want):
                    return "op %d '%s': %s size %d, reference string has %d characters" % (i, op, name, q.sz, len(want))
                if q.n == 0:
                    if q.str == "U" and not unterminated_ok:
                        return "op %d '%s': %s str() points at storage without a terminator" % (i, op, name)
                    if q.str not in ("nul", "U"):
                        return "op %d '%s': %s str() status %s" % (i, op, name, q.str)
                    continue
                if got != want + [0]:
                    return "op %d '%s': %s holds %s, reference string %s + NUL" % (i, op, name, got[:40], want[:40])
                if q.str != "T":
                    return "op %d '%s': %s str() is not size characters followed by a NUL (%s)" % (i, op, name, q.str)
        prev = objs
    return None


def in_domain(script):
    """every call inside the documented domain (judged by the reference alone; capacities unknown,
    so only the state-independent exclusions)"""
    for op in script:
        w = op.split()
        if w[0] == "init" and (val(w[2]) == 0):
            return False
    return True


# ---------------------------------------------------------------------------
# corpus: former failures (defects #5, #6, #7 of DESIGN section 5) and regression seeds


def corpus(prop=None):
    vecs = [
        # defect #5: (sz+1)*size wraps in cstl_vector_set_capacity
        ["reserve v0 M", "resize v0 2", "set v0 1 9", "at v0 1"],
        ["reserve v0 4611686018427387904", "resize v0 2", "set v0 1 9", "at v0 1"],
        ["init v0 8 3", "resize v0 2", "reserve v0 2305843009213693951", "reserve v0 2305843009213693952", "resize v0 3", "at v0 2"],
        ["resize v0 3", "set v0 2 5", "reserve v0 M", "at v0 2", "clear v0"],
        ["resize v0 M"],
        ["init v0 16 3", "resize v0 1152921504606846976"],
        ["plan 0", "reserve v0 4", "resize v0 2", "plan 10", "shrink v0", "shrink v0", "at v0 1"],
        ["resize v0 2", "plan 0", "resize v0 3"],
    ]
    strs = [
        # defect #6: substr_prep clamp pos + *len > size wraps
        ["setstr s0 97,98,99,100,101,102", "erase s0 1 M", "str s0"],
        ["setstr s0 97,98,99,100,101,102", "substr s0 1 M s1", "str s1"],
        ["setstr w0 97,98,99,100,101,102", "erase w0 1 M", "str w0"],
        ["setstr w0 97,98,99,100,101,102", "substr w0 2 M-1 w1", "str w1"],
        ["setstr s0 97,98,99", "erase s0 2 M-1", "substr s0 1 M-1 s1"],
        # defect #7: __resize(n) uses n+1, prep_insert uses size+len, unchecked
        ["sresize s0 M"],
        ["setstr s0 97,98", "sresize s0 M"],
        ["setstr w0 97,98", "sresize w0 M"],
        ["setstr s0 97,98,99", "insch s0 1 M-1 120"],
        ["setstr s0 97,98,99", "insch s0 1 M-2 120"],
        ["setstr s0 97,98,99", "insn s0 3 120,121 M-3"],
        ["setstr w0 97,98,99", "insch w0 0 M 120"],
        ["setstr s0 97", "appch s0 M 120"],
        # reserve on a string that holds nothing: str() has no terminator to point at (note in the report)
        ["sreserve s0 4", "setstr s0 97", "str s0"],
        # allocation failures
        ["setstr s0 97,98", "plan 0", "sreserve s0 9", "appch s0 1 99", "plan 0", "appch s0 1 100"],
        ["plan 10", "setstr s0 97,98"],
        # signed / unsigned unit comparison
        ["setstr s0 200,97", "cmpstr s0 97", "cmpstr s0 200,98", "findch s0 200 0"],
        ["setstr w0 2147483649,97", "cmpstr w0 97", "cmpstr w0 -", "findch w0 2147483649 0", "findstr w0 97 0"],
        ["setstr s0 97,98", "sresize s0 4", "findch s0 0 0", "findch s0 0 2", "findstr s0 - 3", "cmpstr s0 97,98", "str s0"],
    ]
    if prop == "C09":
        return vecs
    if prop == "C10":
        return strs
    return vecs + strs


# ---------------------------------------------------------------------------
# generators


def bset(size, cap, e, small=False, limit_edge=True):
    """boundary values of DESIGN 3.4 for one argument (+ the values around the harness's
    allocation limit when `limit_edge`)"""
    vs = [0, 1, 2, size - 1, size, size + 1, cap - 1, cap, cap + 1,
          2 ** 31 - 1, 2 ** 31 + 1, 2 ** 32 - 1, 2 ** 32 + 1,
          M // e - 1, M // e, M // e + 1, 2 ** 63, M - 2, M - 1, M,
          # sizes at which a geometric growth policy (x1.5, x2, x1.25) would wrap
          (M + 1) * 2 // 3 - 1, (M + 1) * 2 // 3, (M + 1) * 2 // 3 + 5, (M + 1) * 4 // 5 + 1, (M + 1) // 3 * 2 // e + 1]
    if not small:
        vs += [2 ** 31, 2 ** 32, 2 ** 63 - 1, 2 ** 63 + 1, M - 3]
        if limit_edge:
            vs += [LIMIT // e - 2, LIMIT // e - 1, LIMIT // e]
    out = []
    for v in vs:
        if 0 <= v <= M and v not in out:
            out.append(v)
    return out


VEC_SUFFIX = ["resize %s 2", "set %s 1 9", "at %s 1", "reserve %s 3", "at %s 0", "clear %s"]


def vector_boundaries(tier):
    """every size-taking vector call with every boundary value, in several states, for every
    element size, with and without constructor/destructor; followed by continued use"""
    scripts = []
    esizes = ESIZES
    for e in esizes:
        for x in (0, 3, 7):     # 7: one function registered as both constructor and destructor
            setups = [
                ([], 0, 0),
                (["resize v0 3", "set v0 0 5", "set v0 2 6"], 3, 3),
                (["reserve v0 6", "resize v0 2", "set v0 1 7"], 2, 6),
                (["resize v0 4", "resize v0 1", "shrink v0"], 1, 1),
            ]
            for pre, size, cap in setups:
                init = ["init v0 %d %d" % (e, x)]
                for v in bset(size, cap, e, small=(tier == "quick" and e in (2, 3, 16))):
                    for opn in ("reserve", "resize", "at", "set"):
                        arg = "%s v0 %s" % (opn, sz(v)) + (" 3" if opn == "set" else "")
                        suffix = [s % "v0" for s in VEC_SUFFIX] if opn in ("reserve", "resize") else []
                        if opn == "resize" and v <= LIMIT:
                            suffix = ["at v0 0", "clear v0"]
                        scripts.append(init + pre + [arg] + suffix)
    return scripts


def string_states(wd):
    a, b = wd + "0", wd + "1"
    return [
        ([], 0, 0),
        (["setstr %s 97,98,99" % a], 3, 3),
        (["setstr %s 97,98,99,100,101,102" % a, "setstr %s 120" % b], 6, 6),
        (["setstr %s 97,98,99,100" % a, "sreserve %s 9" % a, "erase %s 3 1" % a], 3, 9),
        (["setstr %s 97" % a, "sresize %s 3" % a], 3, 3),
    ]


def string_boundaries(tier):
    """positions × counts from the boundary set, for every edit, both widths"""
    scripts = []
    for wd, e in (("s", 1), ("w", 4)):
        a, b = wd + "0", wd + "1"
        for pre, size, cap in string_states(wd):
            # the string model stores unit by unit (quadratic in the length): the values just below the
            # allocation limit are used with the single-argument calls of the wide string only
            full = bset(size, cap, e, small=(tier == "quick"), limit_edge=False)
            single = full + ([LIMIT // e - 3, LIMIT // e - 2, LIMIT // e - 1] if (tier != "quick" and e == 4 and size == 3 and cap == 3)
                             else [] if tier == "quick" else [LIMIT // e - 1, LIMIT // e])
            posset = [v for v in full if v <= size + 1 or v in (2 ** 32 + 1, M // e + 1, 2 ** 63, M - 1, M)] \
                if tier == "quick" else full
            tail = ["str %s" % a, "appch %s 1 122" % a, "str %s" % a]
            for n in single:
                scripts.append(pre + ["sresize %s %s" % (a, sz(n))] + tail)
                scripts.append(pre + ["sreserve %s %s" % (a, sz(n)), "appch %s 2 122" % a] + tail)
                scripts.append(pre + ["appch %s %s 120" % (a, sz(n))] + tail)
                scripts.append(pre + ["appn %s 120,121,122 %s" % (a, sz(n))] + tail)
                scripts.append(pre + ["sat %s %s" % (a, sz(n))])
                scripts.append(pre + ["findch %s 98 %s" % (a, sz(n))])
                scripts.append(pre + ["findstr %s 98,99 %s" % (a, sz(n))])
                scripts.append(pre + ["ins %s %s %s" % (b, sz(n), a), "str %s" % b])
            for pos in posset:
                for n in full:
                    scripts.append(pre + ["insch %s %s %s 120" % (a, sz(pos), sz(n))] + tail)
                    scripts.append(pre + ["erase %s %s %s" % (a, sz(pos), sz(n))] + tail)
                    scripts.append(pre + ["substr %s %s %s %s" % (a, sz(pos), sz(n), b), "str %s" % b, "str %s" % a])
                    scripts.append(pre + ["insn %s %s 120,121,122 %s" % (a, sz(pos), sz(n))] + tail)
    return scripts


def canon_state(line):
    """canonical state for the closure: everything except block identities"""
    st = line.split("|", 1)[1] if "|" in line else line
    return re.sub(r" b=\d+:", " b=#:", st)


def string_alphabet(wd, maxlen, chars=(97, 98), observers=True):
    """operations enabled in a state (read from the model's dump), strings of at most `maxlen`;
    observers=False leaves out the state-preserving calls (str/cmp/at/find)"""
    a, b = wd + "0", wd + "1"

    def alpha(last):
        sizes = {a: 0, b: 0}
        unterm = False
        if last:
            p = parse_line(last)
            if p:
                sizes = {a: p[1][a].sz, b: p[1][b].sz}
                # reserve on an empty string leaves str() pointing at unwritten storage:
                # observers that read through it are outside the domain
                unterm = p[1][a].str == "U" or p[1][b].str == "U"
        ops = []
        for x, y in ((a, b), (b, a)):
            n = sizes[x]
            for k in range(0, maxlen + 1):
                if k != n:
                    ops.append("sresize %s %d" % (x, k))
            for pos in range(0, n + 2):
                for cnt in (1, 2):
                    if n + cnt <= maxlen or pos > n:
                        ops.append("insch %s %d %d %d" % (x, pos, cnt, chars[(pos + cnt) % len(chars)]))
                if n + sizes[y] <= maxlen or pos > n:
                    ops.append("ins %s %d %s" % (x, pos, y))
            if n + 1 <= maxlen:
                for c in chars:
                    ops.append("appch %s 1 %d" % (x, c))
                ops.append("appn %s %s 1" % (x, utok([chars[1], chars[0]])))
            if n + sizes[y] <= maxlen:
                ops.append("app %s %s" % (x, y))
            for pos in range(0, n + 1):
                for cnt in (0, 1, 2, M):
                    ops.append("erase %s %d %s" % (x, pos, sz(cnt)))
                    ops.append("substr %s %d %s %s" % (x, pos, sz(cnt), y))
            ops.append("setstr %s %s" % (x, utok(list(chars[:min(2, maxlen)]))))
            ops.append("clear %s" % x)
            ops.append("sreserve %s %d" % (x, maxlen))
            if not observers:
                continue
            # observers (state unchanged): results are compared and judged by the oracle
            ops.append("str %s" % x)
            if not unterm:
                ops.append("cmp %s %s" % (x, y))
            for pos in range(0, n + 1):
                ops.append("sat %s %d" % (x, pos))
                ops.append("findch %s %d %d" % (x, chars[0], pos))
                ops.append("findch %s 0 %d" % (x, pos))
                if not unterm:
                    ops.append("find %s %s %d" % (x, y, pos))
                ops.append("findstr %s %s %d" % (x, utok([chars[0], chars[1]]), pos))
        ops.append("swap %s %s" % (a, b))
        return ops
    return alpha


def vector_alphabet(maxn, maxn2=None):
    """operations enabled in a state; v0 up to `maxn` elements, v1 up to `maxn2`"""
    lim = {"v0": maxn, "v1": maxn if maxn2 is None else maxn2}

    def alpha(last):
        ns = {"v0": 0, "v1": 0}
        if last:
            p = parse_line(last)
            if p:
                ns = {k: p[1][k].n for k in ns}
        ops = []
        for x in ("v0", "v1"):
            for k in range(0, lim[x] + 1):
                ops.append("resize %s %d" % (x, k))
            for k in range(1, lim[x] + 2):
                ops.append("reserve %s %d" % (x, k))
            ops += ["shrink %s" % x, "clear %s" % x, "rev %s" % x, "sort %s" % x]
            for i in range(0, ns[x] + 1):
                ops.append("at %s %d" % (x, i))
                ops.append("set %s %d %d" % (x, i, 7 + i % 2))
        if max(ns.values()) <= min(lim.values()):
            ops.append("swap v0 v1")
        return ops
    return alpha


def random_scripts(rng, count, length, kind):
    """seeded random histories.  kind: 'vec' | 's' | 'w'"""
    scripts = []
    for _ in range(count):
        sc = []
        if kind == "vec":
            ns = {"v0": 0, "v1": 0}
            caps = {"v0": 0, "v1": 0}
            es = {}
            for x in ("v0", "v1"):
                es[x] = rng.choice(ESIZES)
                sc.append("init %s %d %d" % (x, es[x], rng.choice((0, 1, 2, 3, 7))))
            for _ in range(length):
                x = rng.choice(("v0", "v1"))
                r = rng.random()
                if r < 0.30:
                    k = rng.choice((0, 1, 2, 3, 5, 8, 13, rng.randrange(40)))
                    if rng.random() < 0.1:
                        # allocation would fail: stay within the capacity (a failing growth aborts)
                        k = min(k, caps[x])
                        sc += ["plan 0", "resize %s %d" % (x, k), "plan -"]
                    else:
                        sc.append("resize %s %d" % (x, k))
                    ns[x] = k
                    caps[x] = max(caps[x], k)
                elif r < 0.45:
                    k = rng.choice((0, 1, 4, 9, rng.randrange(60), 2 ** 31, 2 ** 32 + 1, M // es[x], M // es[x] + 1, M - 1, M))
                    if rng.random() < 0.15:
                        sc.append("plan 0")
                        sc.append("reserve %s %s" % (x, sz(k)))
                        sc.append("plan -")
                    else:
                        sc.append("reserve %s %s" % (x, sz(k)))
                        if (k + 1) * es[x] <= LIMIT:
                            caps[x] = max(caps[x], k)
                elif r < 0.55:
                    if rng.random() < 0.2:
                        sc += ["plan 0", "shrink %s" % x, "plan -"]
                    else:
                        sc.append("shrink %s" % x)
                        caps[x] = ns[x]
                elif r < 0.75 and ns[x] > 0:
                    sc.append("set %s %d %d" % (x, rng.randrange(ns[x]), rng.randrange(1, 180)))
                elif r < 0.85 and ns[x] > 0:
                    sc.append("at %s %d" % (x, rng.randrange(ns[x])))
                elif r < 0.90:
                    sc.append(rng.choice(("rev %s", "sort %s")) % x)
                elif r < 0.95:
                    sc.append("swap v0 v1")
                    ns["v0"], ns["v1"] = ns["v1"], ns["v0"]
                    caps["v0"], caps["v1"] = caps["v1"], caps["v0"]
                    es["v0"], es["v1"] = es["v1"], es["v0"]
                else:
                    sc.append("clear %s" % x)
                    ns[x] = caps[x] = 0
            x = rng.choice(("v0", "v1"))
            sc.append(rng.choice(["at %s %s" % (x, sz(ns[x])), "resize %s %s" % (x, sz(rng.choice((M, M - 1, M // es[x], 2 ** 40)))),
                                  "set %s %s 1" % (x, sz(ns[x] + rng.randrange(3))), "clear %s" % x]))
        else:
            a, b = kind + "0", kind + "1"
            ref = {a: [], b: []}
            hi = 255 if kind == "s" else 2 ** 32 - 1
            alpha = [97, 98, 99, 100, 0x7f, 0x80, hi]

            def rs(k):
                return [rng.choice(alpha[:4]) if rng.random() < 0.9 else rng.choice(alpha) for _ in range(k)]
            for _ in range(length):
                x, y = (a, b) if rng.random() < 0.6 else (b, a)
                s = ref[x]
                n = len(s)
                r = rng.random()
                if r < 0.12:
                    us = rs(rng.randrange(0, 6))
                    sc.append("setstr %s %s" % (x, utok(us)))
                    ref[x] = cview(us)
                elif r < 0.27:
                    pos, cnt, ch = rng.randrange(n + 1), rng.randrange(0, 4), rng.choice(alpha)
                    sc.append("insch %s %d %d %d" % (x, pos, cnt, ch))
                    ref[x] = s[:pos] + [ch] * cnt + s[pos:]
                elif r < 0.37:
                    us = rs(rng.randrange(0, 5))
                    k = rng.randrange(len(us) + 1)
                    pos = rng.randrange(n + 1)
                    sc.append("insn %s %d %s %d" % (x, pos, utok(us), k))
                    ref[x] = s[:pos] + us[:k] + s[pos:]
                elif r < 0.45 and len(ref[y]) + n < 40:
                    pos = rng.randrange(n + 1)
                    sc.append("ins %s %d %s" % (x, pos, y) if rng.random() < 0.6 else "app %s %s" % (x, y))
                    if sc[-1].startswith("app"):
                        pos = n
                    ref[x] = s[:pos] + ref[y] + s[pos:]
                elif r < 0.60 and n > 0:
                    pos = rng.randrange(n)
                    cnt = rng.choice((0, 1, 2, n - pos, n - pos + 1, M - pos, M - pos + 1, M, M - 1, rng.randrange(8)))
                    cnt %= 2 ** 64
                    k = min(cnt, n - pos)
                    if rng.random() < 0.5:
                        sc.append("erase %s %d %s" % (x, pos, sz(cnt)))
                        ref[x] = s[:pos] + s[pos + k:]
                    else:
                        sc.append("substr %s %d %s %s" % (x, pos, sz(cnt), y))
                        ref[y] = s[pos:pos + k]
                elif r < 0.70:
                    k = rng.choice((0, 1, n, n + 1, n + 3, max(0, n - 1), rng.randrange(12)))
                    sc.append("sresize %s %d" % (x, k))
                    ref[x] = s[:k] + [0] * max(0, k - n)
                elif r < 0.74:
                    sc.append("swap %s %s" % (a, b))
                    ref[a], ref[b] = ref[b], ref[a]
                elif r < 0.77:
                    sc.append("clear %s" % x)
                    ref[x] = []
                elif r < 0.80 and n > 0:
                    sc.append("sreserve %s %s" % (x, sz(rng.choice((0, n, n + 5, 30, M, M - 1, 2 ** 63)))))
                elif r < 0.86 and n > 0:
                    sc.append("findch %s %d %d" % (x, rng.choice(alpha + [0]), rng.randrange(n)))
                elif r < 0.91 and n > 0:
                    sc.append(rng.choice(["findstr %s %s %d" % (x, utok(rs(rng.randrange(0, 3))), rng.randrange(n)),
                                          "find %s %s %d" % (x, y, rng.randrange(n))]))
                elif r < 0.96:
                    sc.append(rng.choice(["cmp %s %s" % (x, y), "cmpstr %s %s" % (x, utok(rs(rng.randrange(0, 4))))]))
                elif n > 0:
                    sc.append("sat %s %d" % (x, rng.randrange(n)))
                else:
                    sc.append("str %s" % x)
            n = len(ref[a])
            sc.append(rng.choice(["insch %s %d 1 97" % (a, n + 1), "erase %s %d 1" % (a, n), "sat %s %d" % (a, n),
                                  "sresize %s M" % a, "appch %s %s 97" % (a, sz(M - n)), "appch %s %s 97" % (a, sz(M - n - 1)),
                                  "findch %s 97 %d" % (a, n), "str %s" % a, "substr %s %d M %s" % (a, n, b)]))
        scripts.append(sc)
    return scripts


def fault_scripts():
    """allocation-failure enumeration for a few scripts: every single request failing, every suffix"""
    bases = [
        ["init v0 4 3", "resize v0 2", "reserve v0 5", "shrink v0", "resize v0 4", "clear v0"],
        ["setstr s0 97,98", "appch s0 2 99", "sreserve s0 12", "substr s0 1 2 s1", "app s1 s0", "clear s0"],
        ["setstr w0 97,98", "insch w0 1 2 99", "substr w0 0 3 w1", "ins w1 1 w0", "sresize w1 9"],
    ]
    out = []
    for b in bases:
        for k in range(0, 7):
            out.append(["plan " + "1" * k + "0"] + b)
            out.append(["plan " + "1" * k + "0000000"] + b)
    return out


def c16_templates(tier):
    """fault-enumeration templates for tools/props/C16.py.  `("plan {}", n)` precedes the
    operation that makes n realloc requests (set_str on an empty string makes two); every
    allocation-bearing step asks for more than any capacity reachable before it, so it makes
    its request(s) whatever failed earlier.  A refused reserve / shrink_to_fit is a quiet no-op
    (the script continues on the old storage), a refused growth in resize / insert / append /
    substr aborts (the script ends there: `STOP abort`, accepted by the oracle only when the
    growth really was unsatisfiable).  The string API has no shrink_to_fit."""
    P = ("plan {}", 1)
    P2 = ("plan {}", 2)
    t1 = ["init v0 4 3", P, "reserve v0 4", P, "reserve v0 8", "resize v0 2", "set v0 1 7", P, "resize v0 12",
          "at v0 1", "resize v0 5", P, "shrink v0", "at v0 1", P, "reserve v0 20", "rev v0", "sort v0", "at v0 4",
          "clear v0", P, "resize v0 1", "at v0 0", "plan -", "resize v0 3", "clear v0"]
    t2 = ["init v1 16 0", P, "resize v1 2", "set v1 0 5", P, "reserve v1 6", "swap v0 v1", P, "resize v0 9", "at v0 0",
          "resize v0 1", P, "shrink v0", "swap v0 v1", "at v1 0", P, "resize v1 3", "plan -", "reserve v1 M",
          "clear v1", "clear v0"]
    strs = []
    for wd in ("s", "w"):
        a, b = wd + "0", wd + "1"
        strs.append([P2, "setstr %s 97,98,99" % a, P, "sreserve %s 10" % a, P, "appch %s 9 120" % a, "str %s" % a,
                     P, "insch %s 1 20 121" % a, P, "substr %s 2 5 %s" % (a, b), P, "app %s %s" % (b, a),
                     "erase %s 0 M" % a, "str %s" % a, "str %s" % b, P, "sresize %s 80" % b, "cmp %s %s" % (a, b),
                     "plan -", "appn %s 100,101 2" % a, "findch %s 101 0" % a, "clear %s" % a, "clear %s" % b])
    thms = ["Cstl.Vec.reserve_fail_noop", "Cstl.Vec.reserve_commit_or_noop", "Cstl.Vec.resize_fail_abort",
            "Cstl.Vec.resize_abort_iff", "Cstl.Vec.run_inv", "Cstl.Vec.strReserve_rep",
            "Cstl.Vec.growth_abort_no_write", "Cstl.Vec.insert_abort_iff", "Cstl.Vec.substr_refines",
            "Cstl.Vec.run_refines"]

    def prop_of(sc):
        return "C09" if any(len(op.split()) > 1 and op.split()[1][0] == "v" for op in sc) else "C10"
    return [t1, t2] + strs, prop_of, thms
