"""heap area: src/heap.c, cstl_fls (src/common.c), cstl_bintree_clear via cstl_heap_clear
<->  lean/Cstl/Heap  (property C07, the heap part of C15)"""
import re

NAME = "heap"
HARNESS_SRCS = ["heap.c"]
REPO_SRCS = ["heap.c", "bintree.c", "common.c"]
LEAN_TARGETS = ["Cstl.Heap.Props", "Cstl.Heap.PropsSwap", "m_heap"]
IMPORTS = ["Cstl.Heap.Props", "Cstl.Heap.PropsSwap"]

THEOREMS = {
    "C07": [
        "Cstl.Heap.fls_spec",
        "Cstl.Heap.fls_zero",
        "Cstl.Heap.path_numbering",
        "Cstl.Heap.findSlot_level_order",
        "Cstl.Heap.complete_findSlot",
        "Cstl.Heap.findSlot_bfs",
        "Cstl.Heap.heapOrdered_iff_local",
        "Cstl.Heap.inv_empty",
        "Cstl.Heap.push_spec",
        "Cstl.Heap.get_spec",
        "Cstl.Heap.pop_spec",
        "Cstl.Heap.empty_null",
        "Cstl.Heap.size_eq",
        "Cstl.Heap.step_inv",
        "Cstl.Heap.runFrom_inv",
        "Cstl.Heap.run_inv",
        "Cstl.Heap.run_max",
        # two heaps with cstl_heap_swap
        "Cstl.Heap.pair_run_inv",
        "Cstl.Heap.pair_run_max",
    ],
    "C15": [
        "Cstl.Heap.clear_spec",
    ],
}

FULL_MAX = 64       # dumps of larger heaps are digests (see harness/heap.c)

LINE = re.compile(r"^(.*?) \| n=(\d+) c=([01]) (\[[^\]]*\]|#\d+)( links=bad@-?\d+)?$")


def parse_line(line):
    """-> dict(res, n, c, nodes=[(slot, id, key)] | None (digest), bad) or None"""
    m = LINE.match(line)
    if not m:
        return None
    nodes = None
    if m.group(4).startswith("["):
        nodes = []
        body = m.group(4)[1:-1]
        if body:
            for part in body.split(","):
                f = part.split(":")
                if len(f) != 3:
                    return None
                nodes.append((int(f[0]), int(f[1]), int(f[2])))
    return {"res": m.group(1), "n": int(m.group(2)), "c": m.group(3) == "1", "nodes": nodes,
            "bad": m.group(5)}


# ---------------------------------------------------------------------------
# independent oracle: reference multiset (id -> key of the elements held)


def in_domain(script):
    """no element is pushed while it may still be in the heap (which element a
    pop removes is the implementation's choice, so an id counts as free again
    only after a clear or once the heap has been drained)"""
    held = set()
    live = 0
    held2, live2 = set(), 0     # the swap partner
    for op in script:
        w = op.split()
        if w[0] == "push":
            if len(w) != 3 or int(w[2]) in held or int(w[2]) in held2 or int(w[2]) < 1:
                return False
            held.add(int(w[2]))
            live += 1
        elif w[0] == "pop":
            if live > 0:
                live -= 1
                if live == 0:
                    held.clear()
        elif w[0] == "clear":
            held.clear()
            live = 0
        elif w[0] in ("swap", "alt"):
            held, held2, live, live2 = held2, held, live2, live
        elif w[0] == "bulk":
            if live:
                return False
    return True


def oracle(prop, script, c_lines):
    """Reading of C07 (and of C15 for the heap) on the implementation's output:
    get/pop return a held element whose key is >= every held key (NULL iff
    nothing is held), pop removes exactly it, size is the count, the tree
    reachable from the root consists of exactly the held elements in slots
    1..count (complete), clear calls back every held element exactly once,
    nothing else, touches none of them afterwards and leaves an empty usable
    heap; cstl_fls returns the index of the highest set bit, -1 for 0."""
    held = {}
    aux = {}        # what the swap partner holds
    for i, op in enumerate(script):
        w = op.split()
        o = w[0]
        if o == "push" and (int(w[2]) in held or int(w[2]) in aux):
            return None         # pushing an element twice: outside the documented domain
        if i >= len(c_lines):
            return "op %d '%s': no output from the implementation" % (i, op)
        line = c_lines[i]
        if line.startswith("STOP"):
            return "op %d '%s': implementation stopped with '%s'" % (i, op, line)
        st = parse_line(line)
        if st is None:
            return "op %d '%s': unparsable implementation output '%s'" % (i, op, line[:200])
        res = st["res"]
        if o == "push":
            held[int(w[2])] = int(w[1])
        elif o in ("get", "pop"):
            if not held:
                if res != "0":
                    return "op %d '%s': returned %s on an empty heap (expected NULL)" % (i, op, res)
            else:
                m = re.match(r"^(-?\d+):(-?\d+)$", res)
                if not m:
                    return "op %d '%s': returned '%s' with %d elements held" % (i, op, res, len(held))
                eid, key = int(m.group(1)), int(m.group(2))
                if eid not in held:
                    return "op %d '%s': returned element %d, which is not in the heap" % (i, op, eid)
                if key != held[eid]:
                    return "op %d '%s': element %d has key %d, was pushed with %d" % (i, op, eid, key, held[eid])
                mx = max(held.values())
                if key < mx:
                    return "op %d '%s': returned %d:%d but an element with key %d is held" % (i, op, eid, key, mx)
                if o == "pop":
                    del held[eid]
        elif o == "size":
            if res != str(len(held)):
                return "op %d '%s': size %s, %d elements held" % (i, op, res, len(held))
        elif o == "clear":
            m = re.match(r"^\[([^\]]*)\] p=(\d)$", res)
            if not m:
                return "op %d '%s': unparsable clear result '%s'" % (i, op, res)
            got = sorted(int(x) for x in m.group(1).split(",") if x)
            if got != sorted(held):
                return "op %d '%s': clear callbacks for %s, held elements %s" % (i, op, got, sorted(held))
            if m.group(2) != "1":
                return "op %d '%s': an element was written after its clear callback" % (i, op)
            held = {}
        elif o == "fls":
            x = int(w[1]) if not w[1].startswith("M") else (2 ** 64 - 1 - (int(w[1][2:]) if len(w[1]) > 1 else 0))
            if res != str(x.bit_length() - 1):
                return "op %d '%s': cstl_fls returned %s, highest set bit is %d" % (i, op, res, x.bit_length() - 1)
        elif o == "dump":
            pass
        elif o in ("swap", "alt"):
            held, aux = aux, held
        elif o == "bulk":
            # the harness itself checks every step of the large history against a
            # counting ledger (size, get/pop return a held element of maximal priority)
            if held:
                return None
            if not res.startswith("ok ck="):
                return "op %d '%s': in a history of %s pushes then %s pops on a large heap: %s" % (i, op, w[1], w[1], res)
        else:
            return None
        # state: size and completeness
        if st["n"] != len(held):
            return "op %d '%s': size field %d, %d elements held" % (i, op, st["n"], len(held))
        if st["nodes"] is not None:
            slots = [s for s, _, _ in st["nodes"]]
            ids = sorted(e for _, e, _ in st["nodes"])
            if ids != sorted(held):
                return "op %d '%s': tree holds elements %s, reference %s" % (i, op, ids[:20], sorted(held)[:20])
            if slots != list(range(1, len(held) + 1)):
                return "op %d '%s': occupied slots %s: the tree is not complete" % (i, op, slots[:40])
        elif not st["c"]:
            return "op %d '%s': the tree is not complete (slots are not 1..%d)" % (i, op, len(held))
    return None


# ---------------------------------------------------------------------------
# generators


def corpus():
    return [
        # NULL on empty, before and after use
        ["pop", "get", "size", "push 1 1", "pop", "pop", "get", "size"],
        # equal priorities; the tie rules of sift-down (left only if > node, right only if > candidate)
        ["push 1 1", "push 1 2", "push 1 3", "push 1 4", "pop", "pop", "pop", "pop", "pop"],
        ["push 2 1", "push 1 2", "push 2 3", "push 1 4", "push 1 5", "push 2 6", "push 0 7",
         "pop", "pop", "push 2 8", "pop", "pop", "pop", "pop", "pop", "pop"],
        # sift-down where the right child beats the node but not the left candidate
        ["push 5 1", "push 4 2", "push 3 3", "push 1 4", "pop", "pop"],
        ["push 5 1", "push 3 2", "push 4 3", "push 1 4", "pop", "pop"],
        # ascending pushes (every push sifts to the root), then drain
        ["push %d %d" % (k, k) for k in range(1, 17)] + ["pop"] * 17,
        # swap with the (initially empty) partner heap, which is anchored at the elements' other hook
        ["swap", "push 2 1", "push 5 2", "push 1 3", "swap", "get", "push 4 4", "push 4 5", "swap", "pop", "push 9 6",
         "get", "swap", "pop", "pop", "swap", "pop", "pop", "pop", "size", "swap", "size", "clear", "swap", "push 1 1", "pop"],
        # ... and both OBJECTS used after the exchange (`alt` switches the object addressed, no library call)
        ["push 2 1", "push 5 2", "push 1 3", "swap", "alt", "get", "pop", "push 7 4", "alt", "push 3 5", "swap", "pop",
         "alt", "pop", "pop", "pop", "alt", "pop", "size", "clear"],
        ["push 1 1", "swap", "alt", "pop", "pop", "alt", "pop"],
        # clear then reuse
        ["push 3 1", "push 1 2", "push 2 3", "push 2 4", "push 0 5", "clear", "size", "get",
         "push 1 1", "push 2 2", "pop", "pop", "pop", "clear"],
    ]


def closure_alphabet(max_n, nprio):
    def alphabet(last):
        st = parse_line(last) if last else {"n": 0, "nodes": []}
        if st is None or st["nodes"] is None:
            return []
        used = set(e for _, e, _ in st["nodes"])
        ops = ["pop", "get", "size", "clear"]
        if st["n"] < max_n:
            free = min(i for i in range(1, max_n + 2) if i not in used)
            ops += ["push %d %d" % (k, free) for k in range(nprio)]
        return ops
    return alphabet


def closure_state(line):
    """canonical state up to renaming of element addresses: slots and keys"""
    st = parse_line(line)
    if st is None or st["nodes"] is None:
        return line
    return "n=%d c=%d %s%s" % (st["n"], st["c"], ",".join("%d:%d" % (s, k) for s, _, k in st["nodes"]),
                               st["bad"] or "")


def drained(script):
    """the script followed by pops until the heap must be empty (+1): whatever an
    operation did to the tree becomes visible in the results"""
    n = 0
    for op in script:
        if op.startswith("push"):
            n += 1
        elif op == "pop":
            n = max(0, n - 1)
        elif op == "clear":
            n = 0
    return list(script) + ["pop"] * (n + 1)


def all_histories(length, nprio):
    """every sequence of `length` operations from {push k (k < nprio), pop},
    each followed by a drain"""
    out = []

    def rec(prefix, nid):
        if len(prefix) == length:
            out.append(drained(prefix))
            return
        for k in range(nprio):
            rec(prefix + ["push %d %d" % (k, nid)], nid + 1)
        rec(prefix + ["pop"], nid)
    rec([], 1)
    return out


def bulk_scripts(rng, quick):
    """large heaps: slot numbers with long runs of zero bits below the leading
    bit (2^17+1, 2^18+1, ...) are reached only beyond 131072 elements"""
    if quick:
        return [["bulk 300000 40 %d" % rng.randrange(1 << 30)],
                ["bulk 270000 3 %d" % rng.randrange(1 << 30), "bulk 1000 1 5"]]
    return [["bulk 1100000 1000 %d" % rng.randrange(1 << 30)],
            ["bulk 2200000 7 %d" % rng.randrange(1 << 30)],
            ["bulk 600000 1 1"],
            ["bulk 300000 40 %d" % rng.randrange(1 << 30)]]


def fls_scripts(rng, nrandom):
    vals = [0, 1, 2, 3]
    for k in range(1, 64):
        vals += [2 ** k - 1, 2 ** k, 2 ** k + 1]
    vals += [2 ** 64 - 1, 2 ** 64 - 2, 0x5a5a5a5a, 3 << 16]
    vals = sorted(set(v for v in vals if 0 <= v < 2 ** 64))
    a = ["fls %d" % v for v in vals]
    b = []
    for _ in range(nrandom):
        bits = rng.randrange(1, 65)
        b.append("fls %d" % rng.getrandbits(bits))
    out = [a]
    for i in range(0, len(b), 500):
        out.append(b[i:i + 500])
    return out


def random_script(rng, length, max_live, nprio, pool=4000):
    """one history: grows towards `max_live`, shrinks, grows again…; the
    reference multiset here only decides which ids are free (the popped id is
    predicted as 'some maximum', so ids of popped elements are reused only
    after the heap has been emptied or cleared)."""
    ops = []
    live = 0
    next_id = 1
    target = max_live
    growing = True
    since_dump = 0
    live2 = 0
    for _ in range(length):
        r = rng.random()
        if r > 0.996 and next_id + 2 * max_live < pool:
            # exchange with the partner heap (ids are not reused while either heap holds elements)
            ops.append(rng.choice(("swap", "alt", "swap")))
            live, live2 = live2, live
            continue
        if live == 0 and live2 == 0 and next_id > 1 and next_id + max_live >= pool:
            next_id = 1                       # heap is empty: every id is free again
        can_push = live < max_live and next_id <= pool
        p_push = 0.72 if growing else 0.28
        if r < 0.03:
            op = "get"
        elif r < 0.05:
            op = "size"
        elif r < 0.0515 and live > 0 and (not growing or 4 * live < max_live):
            op = "clear"
            live = 0
            next_id = 1 if (next_id + max_live >= pool and live2 == 0) else next_id
            ops.append(op)
            ops.append("size")
            continue
        elif (rng.random() < p_push and can_push) or live == 0 and can_push:
            if nprio:
                k = rng.randrange(nprio)
            else:
                k = rng.randrange(-1000000, 1000000)
            op = "push %d %d" % (k, next_id)
            next_id += 1
            live += 1
        else:
            op = "pop"
            live = max(0, live - 1)
        ops.append(op)
        since_dump += 1
        if since_dump >= 240:
            ops.append("dump")
            since_dump = 0
        if growing and live >= target:
            growing = False
            target = rng.choice([0, 0, max_live // 8, max_live // 2])
        elif not growing and live <= target:
            growing = True
            target = rng.choice([max_live, max_live, max_live // 3 + 1])
    ops.append("dump")
    return ops


def random_scripts(rng, count, length, max_live, nprios=(3, 12, 0)):
    return [random_script(rng, length, max_live, nprios[i % len(nprios)]) for i in range(count)]


def clear_scripts(rng, max_n, nprio=3, variants=2):
    """C15 (heap part): for every size 0..max_n (several key assignments, some
    with pops in between so that different trees of the same size are reached)
    clear with the poisoning callback, then a fresh fill that is drained."""
    out = []
    for n in range(0, max_n + 1):
        for v in range(variants):
            sc = []
            nid = 1
            for _ in range(n):
                sc.append("push %d %d" % (rng.randrange(nprio), nid))
                nid += 1
            extra = rng.randrange(0, 3) if v else 0
            for _ in range(extra):
                sc.append("pop")
                sc.append("push %d %d" % (rng.randrange(nprio), nid))
                nid += 1
            sc += ["clear", "size", "get", "pop"]
            m = rng.randrange(1, max_n + 2)
            for j in range(m):
                sc.append("push %d %d" % (rng.randrange(nprio), 1 + j))
            sc += ["pop"] * (m + 1)
            sc += ["clear"]
            out.append(sc)
    return out
