"""Translator tie for the vec area (C09, C10): src/vector.c, src/string.c (+ src/_string.c and the
inline functions of include/cstl/vector.h, include/cstl/_string.h)  <->  lean/Cstl/Vec/Model.lean.

tools/c2lean_vec.py regenerates the Lean translation of the integer / control skeleton of these C
functions from vlib.REPO's *current* source (both instantiations of the string template);
lean/Cstl/Vec/Tie.lean (fixed) states `translation = model` for each of them and is re-checked by
the kernel against the regenerated module, with the axiom audit, on every run.

    tie_run(chk)      build Cstl.Vec.Tie, escape-hatch scan of Tie.lean and what it imports,
                      regenerate + re-check; per-theorem results go to chk.theorems, the
                      translator's per-function report to chk.extra["translator"]["vec"]
    TIE_THEOREMS      every theorem of Tie.lean (fully qualified)
    TIE_BY_PROP       the theorems that carry the tie of the functions a property is about
"""
import os
import re

TIE_MODULE = "Cstl.Vec.Tie"
LEAN_TARGETS = ["Cstl.Vec.Tie"]
_HERE = os.path.dirname(os.path.dirname(os.path.dirname(os.path.abspath(__file__))))


def _tie_theorems():
    src = open(os.path.join(_HERE, "lean", "Cstl", "Vec", "Tie.lean")).read()
    return ["Cstl.Vec.Tie." + n for n in re.findall(r"^theorem\s+(\S+)", src, flags=re.M)]


TIE_THEOREMS = _tie_theorems()

_T = "Cstl.Vec.Tie."
# C09: the theorems about src/vector.c (everything in Tie.lean before the string part);
# C10: all of them (the string functions sit on the vector functions: a vector tie that no
# longer checks takes the string ties that use it with it)
TIE_BY_PROP = {
    "C09": TIE_THEOREMS[:TIE_THEOREMS.index(_T + "strSize_tie")] if _T + "strSize_tie" in TIE_THEOREMS else list(TIE_THEOREMS),
    "C10": list(TIE_THEOREMS),
}
# the functions the three repaired defects (DESIGN section 5, #5 #6 #7) sat in
GUARD_TIES = {
    "#5 (sz+1)*size": [_T + "setCapacity_tie"],
    "#6 pos + *len > size": [_T + "substrPrep_tie", _T + "wsubstrPrep_tie"],
    "#7 n+1 / size+len": [_T + "strResize0_tie", _T + "wstrResize0_tie", _T + "prepInsert_tie", _T + "wprepInsert_tie"],
}


def tie_run(chk, theorems=None):
    """Regenerate the translation from vlib.REPO and re-check the tie theorems against it.
    `theorems`: restrict to a subset (e.g. TIE_BY_PROP[chk.prop]); default all.
    Returns True iff every requested theorem checked."""
    import vlib
    import c2lean_vec  # noqa: F401  (registers area "vec" in c2lean.AREAS)
    thms = list(theorems) if theorems is not None else list(TIE_THEOREMS)
    ok, out = vlib.lake_build(LEAN_TARGETS)
    if not ok:
        errs = [l for l in out.split("\n") if "error" in l][:5]
        chk.build_problems.append(("lake build %s" % " ".join(LEAN_TARGETS), " | ".join(errs) or out[-500:]))
    for h in vlib.grep_forbidden([TIE_MODULE]):
        if h not in chk.forbidden:
            chk.forbidden.append(h)
    vlib.translator_tie(chk, "vec", TIE_MODULE, thms)
    # a theorem whose own proof fails is a root; theorems that merely use it show `sorryAx`
    roots = [t for t in thms if not chk.theorems.get(t, (False, ""))[0]
             and "sorryAx" not in chk.theorems.get(t, (False, ""))[1]]
    deps = [t for t in thms if not chk.theorems.get(t, (False, ""))[0] and t not in roots]
    if roots or deps:
        chk.extra["tie_broken"] = {"first_to_fail": roots, "fail_because_they_use_those": deps}
    rep = chk.extra.get("translator", {}).get("vec", {})
    if rep:
        chk.extra.setdefault("translator_summary", {})["vec"] = {
            "translated": sorted(k for k, v in rep.items() if v.startswith("translated")),
            "not_translated": {k: v for k, v in rep.items() if not v.startswith("translated")},
        }
    return all(chk.theorems.get(t, (False, ""))[0] for t in thms)


if __name__ == "__main__":
    # stand-alone: python3 tools/areas/vec_tie.py   (honours VERIF_REPO)
    import sys
    import time
    sys.path.insert(0, os.path.join(_HERE, "tools"))
    import vlib
    t0 = time.time()
    chk = vlib.Check("C09", "quick", 0)
    good = tie_run(chk)
    for t in TIE_THEOREMS:
        okk, d = chk.theorems.get(t, (False, "not checked"))
        print("%-6s %s  %s" % ("ok" if okk else "BROKEN", t, "" if okk else d[:200]))
    if "tie_broken" in chk.extra:
        print("first to fail:", ", ".join(chk.extra["tie_broken"]["first_to_fail"]))
    for n in chk.notes:
        print("note:", n)
    for b in chk.build_problems + [("forbidden", h) for h in chk.forbidden]:
        print("problem:", b)
    print("%d/%d tie theorems check against %s (%.1fs)" % (
        sum(1 for t in TIE_THEOREMS if chk.theorems.get(t, (False,))[0]), len(TIE_THEOREMS), vlib.REPO, time.time() - t0))
    vlib.cleanup()
    sys.exit(0 if good and not chk.build_problems and not chk.forbidden else 1)
