"""Translator ties for
  * "swap": byte-level `cstl_swap` (include/cstl/common.h)  <->  lean/Cstl/Swap/Model.lean
            (tools/c2lean_swap.py -> Cstl/Gen/SwapC.lean, tie lean/Cstl/Swap/Tie.lean), and
  * "vec2": the vector wrappers of the array algorithms (`__cstl_vector_sort`, `cstl_vector_search`,
            `cstl_vector_find`, `__cstl_vector_reverse`) and, for both string instantiations, `str`,
            find_ch / find_str / find / compare_str / compare and insert_str / append_str / set_str
            <->  lean/Cstl/Vec/Model.lean  (tools/c2lean_vec2.py -> Cstl/Gen/VecC2.lean, tie
            lean/Cstl/Vec/Tie2.lean).

Both generated modules are rebuilt from vlib.REPO's *current* source on every run; the fixed tie
files are re-checked by the kernel against them, with the axiom audit.

    tie_run(chk, which)   which in {"swap", "vec2"}: build the tie module, escape-hatch scan of the tie
                          file and what it imports, regenerate + re-check; per-theorem results go to
                          chk.theorems, the translator's per-function report to
                          chk.extra["translator"][which]
    TIE_THEOREMS          {"swap": [...], "vec2": [...]} every theorem of the tie files (fully qualified)
    THEOREMS              property theorems that are not ties: C11 -> the theorems of Cstl/Swap/Props.lean
"""
import os
import re

_HERE = os.path.dirname(os.path.dirname(os.path.dirname(os.path.abspath(__file__))))

AREAS = {
    "swap": dict(tie_module="Cstl.Swap.Tie", tie_file=("Swap", "Tie.lean"), ns="Cstl.Swap.Tie.",
                 targets=["Cstl.Swap.Props", "Cstl.Swap.Tie"], translator="c2lean_swap"),
    "vec2": dict(tie_module="Cstl.Vec.Tie2", tie_file=("Vec", "Tie2.lean"), ns="Cstl.Vec.Tie2.",
                 targets=["Cstl.Vec.Tie2"], translator="c2lean_vec2"),
}
LEAN_TARGETS = ["Cstl.Swap.Props", "Cstl.Swap.Tie", "Cstl.Vec.Tie2"]
IMPORTS = ["Cstl.Swap.Props", "Cstl.Swap.Tie", "Cstl.Vec.Tie2"]


def _theorems(parts, ns):
    p = os.path.join(_HERE, "lean", "Cstl", *parts)
    if not os.path.exists(p):
        return []
    return [ns + n for n in re.findall(r"^theorem\s+(\S+)", open(p).read(), flags=re.M)]


TIE_THEOREMS = {w: _theorems(a["tie_file"], a["ns"]) for w, a in AREAS.items()}
ALL_TIE_THEOREMS = TIE_THEOREMS["swap"] + TIE_THEOREMS["vec2"]

# which property a tie belongs to: cstl_swap is the exchange primitive of C11 (sort / reverse) and of
# every struct swap; the vector wrappers belong to C09 (and C11 for what they hand to the algorithms),
# the string functions to C10
_V2 = TIE_THEOREMS["vec2"]
_SPLIT = _V2.index(AREAS["vec2"]["ns"] + "str_tie") if AREAS["vec2"]["ns"] + "str_tie" in _V2 else len(_V2)
TIE_BY_PROP = {
    "C11": TIE_THEOREMS["swap"] + _V2[:_SPLIT],     # the exchange primitive; what the wrappers hand to array.c
    "C09": _V2[:_SPLIT],                            # the vector wrappers (everything in Tie2.lean before the strings)
    "C10": _V2[_SPLIT:],                            # str, find / compare, the strlen-based entry points
}

# property theorems (not ties): byte-level cstl_swap
THEOREMS = {
    "C11": ["Cstl.Swap." + n for n in
            ["swap_x", "swap_y", "swap_t", "swap_frame", "swap_bytes", "swap_regions", "swap_region_frame",
             "swap_same", "fast_path_writes_t", "swap_elems", "swap_is_swapAt"]],
}


def tie_run(chk, which, theorems=None):
    """Regenerate the translation `which` from vlib.REPO and re-check its tie theorems against it.
    Returns True iff every requested theorem checked."""
    import importlib
    import vlib
    a = AREAS[which]
    importlib.import_module(a["translator"])        # registers the area in c2lean.AREAS
    thms = list(theorems) if theorems is not None else list(TIE_THEOREMS[which])
    ok, out = vlib.lake_build(a["targets"])
    if not ok:
        errs = [l for l in out.split("\n") if "error" in l][:5]
        chk.build_problems.append(("lake build %s" % " ".join(a["targets"]), " | ".join(errs) or out[-500:]))
    for h in vlib.grep_forbidden([a["tie_module"]]):
        if h not in chk.forbidden:
            chk.forbidden.append(h)
    vlib.translator_tie(chk, which, a["tie_module"], thms)
    bad = lambda t: not chk.theorems.get(t, (False, ""))[0]     # noqa: E731
    roots = [t for t in thms if bad(t) and "sorryAx" not in chk.theorems.get(t, (False, ""))[1]]
    deps = [t for t in thms if bad(t) and t not in roots]
    if roots or deps:
        chk.extra.setdefault("tie_broken", {})[which] = {"first_to_fail": roots, "fail_because_they_use_those": deps}
    rep = chk.extra.get("translator", {}).get(which, {})
    if rep:
        chk.extra.setdefault("translator_summary", {})[which] = {
            "translated": sorted(k for k, v in rep.items() if v.startswith("translated")),
            "not_translated": {k: v for k, v in rep.items() if not v.startswith("translated")},
        }
    return all(not bad(t) for t in thms)


if __name__ == "__main__":
    # stand-alone: python3 tools/areas/swap_tie.py [swap|vec2 ...]   (honours VERIF_REPO)
    import sys
    import time
    sys.path.insert(0, os.path.join(_HERE, "tools"))
    import vlib
    whichs = [w for w in sys.argv[1:] if w in AREAS] or list(AREAS)
    rc = 0
    for w in whichs:
        t0 = time.time()
        chk = vlib.Check("C11" if w == "swap" else "C10", "quick", 0)
        good = tie_run(chk, w)
        for t in TIE_THEOREMS[w]:
            okk, d = chk.theorems.get(t, (False, "not checked"))
            print("%-6s %s  %s" % ("ok" if okk else "BROKEN", t, "" if okk else d[:200]))
        if "tie_broken" in chk.extra:
            print("first to fail:", ", ".join(chk.extra["tie_broken"][w]["first_to_fail"]))
        for k, v in sorted(chk.extra.get("translator", {}).get(w, {}).items()):
            if not v.startswith("translated"):
                print("translator:", k, "--", v)
        for n in chk.notes:
            print("note:", n)
        for b in chk.build_problems + [("forbidden", h) for h in chk.forbidden]:
            print("problem:", b)
        print("%s: %d/%d tie theorems check against %s (%.1fs)" % (
            w, sum(1 for t in TIE_THEOREMS[w] if chk.theorems.get(t, (False,))[0]), len(TIE_THEOREMS[w]),
            vlib.REPO, time.time() - t0))
        if not good or chk.build_problems or chk.forbidden:
            rc = 1
    vlib.cleanup()
    sys.exit(rc)
