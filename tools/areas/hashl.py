"""hashl area: LINK-LEVEL model of src/hash.c  <->  lean/Cstl/HashL
(pointer level of properties C03, C04, C19 and the table half of C17: every chain a singly
linked list through `next`, the bucket array of `{ n; cst }`, the relink loop of
`cstl_clean_bucket`, the callback walk of `cstl_hash_find`, the pointer-to-pointer walk of
`cstl_hash_erase`, the walks of foreach / foreach_const / clear).

* Theorems (lean/Cstl/HashL/Props.lean): every link-level operation REFINES the operation of
  the existing model lean/Cstl/Hash/Model.lean under the abstraction relation `Rep`; history
  theorem over operation lists; C03 / C04 / C19 / C17b transferred to the pointer code.
* Translator tie (tools/c2lean_hash.py -> lean/Cstl/Gen/HashLC.lean, lean/Cstl/HashL/Tie.lean):
  the chain functions of hash.c are re-translated from the clang AST of the current source on
  every run and `translation = link-level model` is re-checked by the kernel.
* Correspondence: the harness, operation lines, generators and independent oracles are those
  of the `hash` area (harness/hash.c, tools/areas/hash.py); the model driver is `m_hashl`, which
  executes one Lean update per C assignment on the `next` / `key` / head / clean-bit memories
  and prints the state by walking the links from the bucket heads.
"""
import os
import random
import re
import sys

from areas import hash as H

NAME = "hashl"
HARNESS_SRCS = H.HARNESS_SRCS
REPO_SRCS = H.REPO_SRCS
LEAN_TARGETS = ["Cstl.HashL.Props", "m_hashl"]
IMPORTS = ["Cstl.HashL.Props"]

_T = "Cstl.HashL."

_COMMON = ["read_spec", "rep_functional", "rep_nodup", "init_represents"]

THEOREMS = {
    "C03": [_T + n for n in _COMMON + [
        # the incremental rehash at pointer level: relink loop, clean_bucket, sweep, keyed lookup
        "relink_sim", "cleanBucket_refines", "rehashN_refines", "rehash_refines", "keyed_refines",
        # keyed operations: chain-head insert, callback walk, pointer-to-pointer erase
        "insert_refines", "findWalk_link", "find_refines", "eraseWalk_link", "erase_refines",
        # geometry
        "resize_refines", "shrink_refines",
        # histories
        "lstep_sim", "history_refines", "history_exact", "history_inv",
    ]],
    "C04": [_T + n for n in _COMMON + [
        "bucketWalk_sim", "tableWalk_sim", "foreach_refines", "foreachConst_refines", "clear_refines",
        "foreachConst_link_all", "clear_link_once", "history_refines", "history_exact",
    ]],
    "C19": [_T + n for n in _COMMON + [
        "cleanBucket_refines", "rehashN_refines", "keyed_refines", "resize_refines", "shrink_refines",
        "lkstep_sim", "keyed_link_cost_and_progress", "settled_link_single_call", "lkrun_sim",
        "rehash_finishes_link", "history_trace", "history_refines",
    ]],
    "C17": [_T + n for n in ("history_refines", "history_failstop", "history_total_in_range")],
}
# no statement of this area is left unproved (`def ..._statement : Prop`): none

# translator tie: tools/c2lean_hash.py registers the area "hashl" with the translator
TIE_MODULE = "Cstl.HashL.Tie"


def _tie_theorems():
    path = os.path.join(os.path.dirname(os.path.dirname(os.path.dirname(os.path.abspath(__file__)))),
                        "lean", "Cstl", "HashL", "Tie.lean")
    if not os.path.exists(path):
        return []
    return ["Cstl.HashL.Tie." + n for n in re.findall(r"^theorem\s+(\S+)", open(path).read(), flags=re.M)]


TIE_THEOREMS = _tie_theorems()

in_domain = H.in_domain


def oracle(prop, script, c_lines):
    """the independent oracle of the hash area (membership ledger, visit counts, load / single
    call / relocation bounds).  The harness marks a chain it cannot walk (a cycle, or a link that
    leaves the element pool) with `links=bad@<bucket>`; the hash area's parser does not accept the
    marker, so it is judged here: no history of the documented domain may produce such a chain."""
    for op, line in zip(script, c_lines):
        if "links=bad@" in line:
            return "after `%s` a bucket chain is cyclic or leaves the element pool: %s" % (op, line[:200])
    return H.oracle(prop, script, c_lines)


def corpus(prop=None):
    """the corpus of the hash area plus pointer-level cases: erase of the chain head, of a middle
    node and of the last node of a chain; relinking a chain into its own bucket; duplicates; a
    callback erasing every / every other element; clear and reuse; both tables over one memory"""
    fill = ["resize 0 2 1 1"] + ["ins 0 %d %d" % (k, e) for e, k in enumerate((1, 3, 5, 7, 9, 2, 4), 1)]
    out = list(H.corpus())
    out += [
        # bucket 1 holds 5 nodes: erase head (5), middle (3), last (1), absent, then the rest
        fill + ["erase 0 5", "erase 0 3", "erase 0 1", "erase 0 1", "find 0 3 -1", "erase 0 2", "erase 0 4",
                "find 0 3 -1", "erase 0 6", "erase 0 7", "fconst 0 -1"],
        # relink into the same bucket (constant function), order reversal on every clean
        fill + ["resize 0 2 3 1", "find 0 1 -1", "find 0 2 -1", "resize 0 3 3 1", "find 0 9 -1", "fconst 0 -1",
                "resize 0 2 1 1", "find 0 1 -1", "find 0 2 -1", "find 0 3 -1", "fconst 0 -1"],
        # grow 2 -> 5 under another function, every keyed op kind while pending, then shrink back
        fill + ["resize 0 5 2 1", "find 0 5 0", "erase 0 2", "ins 0 3 2", "find 0 3 -1", "erase 0 4", "fconst 0 -1",
                "find 0 9 n", "find 0 9 n", "resize 0 2 1 1", "erase 0 1", "find 0 7 1", "rehash 0", "fconst 0 -1"],
        # callbacks erasing their element: all, every other, the first and stop
        fill + ["foreach 0 -1 127", "fconst 0 -1", "ins 0 1 8", "find 0 1 n"],
        fill + ["foreach 0 -1 85", "fconst 0 -1", "foreach 0 -1 3", "fconst 0 -1"],
        fill + ["resize 0 4 2 1", "foreach 0 0 1", "fconst 0 -1", "foreach 0 2 6", "fconst 0 -1"],
        # both tables over one memory: an element moves from table 0 to table 1
        ["resize 0 2 1 1", "resize 1 3 2 1", "ins 0 1 1", "ins 1 1 2", "ins 0 3 3", "erase 0 1", "ins 1 7 1",
         "find 1 7 n", "find 0 1 n", "swap", "find 0 7 n", "erase 0 1", "ins 1 9 1", "fconst 0 -1", "fconst 1 -1",
         "clear 0 1", "clear 1 1", "resize 0 2 1 1", "ins 0 4 2", "find 0 4 n"],
    ]
    return out


def tie_run(chk):
    """Translator tie: regenerate lean/Cstl/Gen/HashLC.lean from vlib.REPO's src/hash.c and
    re-check the fixed theorems `translation = link-level model` of lean/Cstl/HashL/Tie.lean
    against it, with the axiom audit (vlib.translator_tie)."""
    import vlib
    import c2lean_hash  # noqa: F401  (registers c2lean.AREAS["hashl"])
    vlib.translator_tie(chk, "hashl", TIE_MODULE, TIE_THEOREMS)


def _minimise_and_probe(chk, me, c_exe, m_exe):
    import vlib
    mine = [m for m in chk.mismatches if m["area"] == NAME]
    if not mine or chk.oracle_failures:
        return
    m = mine[0]
    small = vlib.minimise(me, c_exe, m_exe, m["script"], in_domain)
    m["minimised"] = small
    vlib.run_scripts(chk, me, c_exe, m_exe, [s for s in H._neighbourhood(small) if in_domain(s)], oracle)


def link_level_run(chk, c_exe=None):
    """Pointer-level part of C03 / C04 / C19 (and C17b): axiom audit of the refinement theorems,
    translator tie, and exact correspondence (results, offers, visit order, hash-call log,
    relocation count, allocation events, chains in order with keys, clean bits, scalars) between
    the real code and `m_hashl` on the corpus, a small-scope closure (every operation of the hash area's
    alphabet from every canonical state), boundary bucket counts and seeded random histories over two tables.  Records into `chk`; does not call
    chk.finish().  Returns False if nothing could be run."""
    import vlib
    me = sys.modules[__name__]
    prop = chk.prop
    n_mis = len(chk.mismatches)
    if c_exe is None:
        c_exe, m_exe = vlib.prepare_area(chk, me, leanchecker=True)
    else:
        _, m_exe = vlib.prepare_area(chk, me, leanchecker=True)
    if TIE_THEOREMS:
        tie_run(chk)
    if not c_exe or not m_exe:
        return False
    if prop == "C17":
        scripts = H.c17b_scripts(random.Random((chk.seed << 12) ^ 0x4a51), 30 if chk.tier == "quick" else 300)
        vlib.run_scripts(chk, me, c_exe, m_exe, scripts, lambda p, sc, c: oracle("C17", sc, c))
        chk.extra["link_level"] = {"model": "lean/Cstl/HashL/Model.lean (driver m_hashl)",
                                   "scope": "%d fail-stop scripts" % len(scripts),
                                   "mismatches": len(chk.mismatches) - n_mis}
        return True
    vlib.run_scripts(chk, me, c_exe, m_exe, corpus(prop), oracle)
    vlib.run_scripts(chk, me, c_exe, m_exe, H.boundary_scripts(), oracle)
    # quick: 3 elements over 2 keys, bucket counts 1-2, 2 functions (1 034 states, closes); thorough: the
    # hash area's quick scope (3 418 states) and its first thorough scope
    if chk.tier == "quick":
        scopes = [({1: 1, 2: 1, 3: 2}, (1, 2), (1, 2), 10 ** 6)]
    else:
        scopes = [H.scope("quick"), H.scope("thorough", 0)]
    notes = []
    closed = True
    for (elems, counts, fns, max_states) in scopes:
        states0 = chk.stats["states"]
        ok = vlib.closure(chk, NAME, c_exe, m_exe, H.closure_init(elems), H.make_alphabet(elems, counts, fns, prop),
                          200, max_states, oracle)
        nstates = chk.stats["states"] - states0
        closed = closed and bool(ok)
        notes.append("elements->keys %s, bucket counts %s, hash ids %s: %d states, closed=%s"
                     % (elems, list(counts), list(fns), nstates, bool(ok)))
    # own random stream: does not disturb the histories the functional check draws from chk.rng
    rng = random.Random((chk.seed << 12) ^ {"C03": 0x1a03, "C04": 0x1a04, "C19": 0x1a19}.get(prop, 0x1a00))
    if chk.tier == "quick":
        rnd = H.random_scripts(rng, 60, 300) + H.random_scripts(rng, 100, 120, nkeys=6, maxn=6, nelem=24)
    else:
        rnd = H.random_scripts(rng, 300, 600) + H.random_scripts(rng, 600, 150, nkeys=6, maxn=6, nelem=24)
    vlib.run_scripts(chk, me, c_exe, m_exe, rnd, oracle)
    chk.extra["link_level"] = {
        "model": "lean/Cstl/HashL/Model.lean (one update per C assignment on next / key / head / clean-bit memories; "
                 "driver m_hashl dumps by walking the links)",
        "scope": "corpus incl. pointer-level cases; boundary bucket counts; closures: %s; %d seeded random histories "
                 "over two tables with swap" % ("; ".join(notes), len(rnd)),
        "mismatches": len(chk.mismatches) - n_mis,
    }
    if len(chk.mismatches) > n_mis:
        _minimise_and_probe(chk, me, c_exe, m_exe)
    return True
