"""conc area: thread interleavings of src/memory.c's reference counting
<->  lean/Cstl/Conc  (property C06).

* a Python explicit-state explorer of the micro-step transition system of
  DESIGN 4/C06 is the *generator*: for a scenario (initial reference
  configuration + one program per thread) it enumerates every reachable state
  with visited-state pruning and emits a set of maximal schedules that
  exercises every reachable transition (stutter steps on the lock flag
  included), plus seeded random schedules.  Each schedule is replayed on the
  real code (harness/conc.c: unmodified memory.c against the shadow headers)
  and on the Lean model (m_conc); the outputs must agree line by line.
* `oracle` is an independent ownership ledger over the real code's event
  stream; it does not use either model.
"""
import itertools
import os
import re
import subprocess

NAME = "conc"
HARNESS_SRCS = ["conc.c"]
REPO_SRCS = ["memory.c"]
WRAP_ALLOC = False
INCLUDES_FIRST = [os.path.join(os.path.dirname(os.path.dirname(os.path.dirname(os.path.abspath(__file__)))),
                               "harness", "shadow")]
CFLAGS = []
LEAN_TARGETS = ["Cstl.Conc.Props", "m_conc"]
IMPORTS = ["Cstl.Conc.Props"]

THEOREMS = {
    "C06": [
        "Cstl.Conc.counting_invariant",
        "Cstl.Conc.saw_one_at_most_once",
        "Cstl.Conc.clear_free_at_most_once",
        "Cstl.Conc.clear_only_without_owner",
        "Cstl.Conc.data_free_only_without_reference",
        "Cstl.Conc.finished_exactly_once",
        "Cstl.Conc.no_bad_access",
        "Cstl.Conc.owner_keeps_memory_live",
        "Cstl.Conc.lock_success_live",
        "Cstl.Conc.use_sees_live_memory",
        "Cstl.Conc.owner_until_own_reset",
        "Cstl.Conc.bookkeeping_access_by_reference_holder",
        "Cstl.Conc.race_free",
        "Cstl.Conc.lock_holder_enabled",
        "Cstl.Conc.no_deadlock",
        "Cstl.Conc.measure_decreases",
        "Cstl.Conc.fair_termination",
        "Cstl.Conc.fair_of_recurrent",
        "Cstl.Conc.round_robin_terminates",
    ],
}

# ---------------------------------------------------------------------------
# scenarios:  [(shbits, wkbits, [op, ...]), ...]   op = "share:0:1" etc.


def script_of(scn, schedule, tail_rounds=2):
    lines = ["thr %s %s %s" % (sh or "-", wk or "-", " ".join(ops)) for sh, wk, ops in scn]
    lines = [l.rstrip() for l in lines]
    lines.append("start")
    lines += ["sched %d" % t for t in schedule]
    for _ in range(tail_rounds):
        lines += ["sched %d" % t for t in range(len(scn))]
    lines.append("end")
    return lines


def parse_script(script):
    """-> (scenario, schedule) of a script produced by script_of"""
    scn, sched = [], []
    for l in script:
        w = l.split()
        if w[0] == "thr":
            scn.append(("" if w[1] == "-" else w[1], "" if w[2] == "-" else w[2], w[3:]))
        elif w[0] == "sched":
            sched.append(int(w[1]))
    return scn, sched


# ---------------------------------------------------------------------------
# the transition system (generator side).  Thread-local steps are merged into
# the preceding micro-step, like both drivers do.

M64 = 2 ** 64 - 1


def _slot(l, j):
    return j < len(l) and l[j]


def _set(l, j, v):
    return l[:j] + (v,) + l[j + 1:]


def _parse_op(o):
    w = o.split(":")
    return (w[0],) + tuple(int(x) for x in w[1:])


def _settle(th):
    """run thread-local code until the next micro-step; th = (sh, wk, prog, pc)"""
    sh, wk, prog, pc = th
    while True:
        if pc[0] == "idle":
            if not prog:
                return (sh, wk, prog, pc)
            op, prog = prog[0], prog[1:]
            k = op[0]
            if k == "reset":
                if _slot(sh, op[1]):
                    pc = ("r1", op[1], ("done",))
            elif k == "share":
                if op[1] < len(sh) and op[2] < len(sh):
                    pc = ("r1", op[2], op) if _slot(sh, op[2]) else ("fin", op)
            elif k == "wfrom":
                if op[1] < len(sh) and op[2] < len(wk):
                    if _slot(wk, op[2]):
                        wk = _set(wk, op[2], False)
                        pc = ("w1", op)
                    else:
                        pc = ("fin", op)
            elif k == "lock":
                if op[1] < len(wk) and op[2] < len(sh):
                    pc = ("r1", op[2], op) if _slot(sh, op[2]) else ("fin", op)
            elif k == "wreset":
                if _slot(wk, op[1]):
                    wk = _set(wk, op[1], False)
                    pc = ("w1", ("done",))
            elif k == "use":
                if _slot(sh, op[1]):
                    pc = ("u", op[1])
        elif pc[0] == "fin":
            k = pc[1]
            if k[0] == "done":
                pc = ("idle",)
            elif k[0] == "share":
                pc = ("a1", k[1], k[2]) if _slot(sh, k[1]) else ("idle",)
            elif k[0] == "wfrom":
                pc = ("f1", k[1], k[2]) if _slot(sh, k[1]) else ("idle",)
            elif k[0] == "lock":
                pc = ("l1", k[1], k[2]) if _slot(wk, k[1]) else ("idle",)
        else:
            return (sh, wk, prog, pc)


def initial(scn):
    ths = []
    for sh, wk, ops in scn:
        ths.append(_settle((tuple(c == "1" for c in sh), tuple(c == "1" for c in wk),
                            tuple(_parse_op(o) for o in ops), ("idle",))))
    h = sum(sh.count("1") for sh, _, _ in scn)
    s = h + sum(wk.count("1") for _, wk, _ in scn)
    # (hard, soft, flag, mem, data, clr, fm, fd, bad)
    g = (h, s, False, h > 0, s > 0, 0 if h else 1, 0 if h else 1, 0 if s else 1, 0)
    return (g, tuple(ths))


def finished(th):
    return th[3][0] == "idle" and not th[2]


def step(state, tid):
    """-> (label, state', stutter) or None (finished)"""
    g, ths = state
    sh, wk, prog, pc = ths[tid]
    hard, soft, flag, mem, data, clr, fm, fd, bad = g
    k = pc[0]
    if k == "idle":
        return None
    needmem = k in ("r2a", "u")
    if not (data and (mem or not needmem)):
        bad += 1
    stutter = False
    if k == "r1":
        lab = ("fetch_sub hard", hard)
        old = hard
        hard = M64 if hard == 0 else hard - 1
        sh = _set(sh, pc[1], False)
        pc = ("r2a", pc[2]) if old == 1 else ("w1", pc[2])
    elif k == "r2a":
        lab = ("clear mem", 0)
        mem = False
        clr += 1
        pc = ("r2b", pc[1])
    elif k == "r2b":
        lab = ("free mem", 0)
        fm += 1
        pc = ("w1", pc[1])
    elif k == "w1":
        lab = ("fetch_sub soft", soft)
        old = soft
        soft = M64 if soft == 0 else soft - 1
        pc = ("w2", pc[1]) if old == 1 else ("fin", pc[1])
    elif k == "w2":
        lab = ("free data", 0)
        data = False
        fd += 1
        pc = ("fin", pc[1])
    elif k == "a1":
        lab = ("fetch_add hard", hard)
        hard += 1
        pc = ("a2", pc[1], pc[2])
    elif k == "a2":
        lab = ("fetch_add soft", soft)
        soft += 1
        sh = _set(sh, pc[2], True)
        pc = ("idle",)
    elif k == "f1":
        lab = ("fetch_add soft", soft)
        soft += 1
        wk = _set(wk, pc[2], True)
        pc = ("idle",)
    elif k == "l1":
        if flag:
            lab = ("test_and_set lock", 1)
            stutter = True
        else:
            lab = ("test_and_set lock", 0)
            flag = True
            pc = ("l2", pc[1], pc[2])
    elif k == "l2":
        lab = ("fetch_add hard", hard)
        pc = ("l3", pc[1], pc[2]) if hard > 0 else ("l3n", pc[1], pc[2])
        hard += 1
    elif k == "l3":
        lab = ("fetch_add soft", soft)
        soft += 1
        sh = _set(sh, pc[2], True)
        pc = ("l4", pc[1], pc[2])
    elif k == "l3n":
        lab = ("fetch_sub hard", hard)
        hard = M64 if hard == 0 else hard - 1
        pc = ("l4", pc[1], pc[2])
    elif k == "l4":
        lab = ("flag_clear lock", 0)
        flag = False
        pc = ("idle",)
    elif k == "u":
        lab = ("use mem", 1 if mem else 0)
        pc = ("idle",)
    else:
        raise AssertionError(pc)
    th = _settle((sh, wk, prog, pc))
    g2 = (hard, soft, flag, mem, data, clr, fm, fd, bad)
    return lab, (g2, ths[:tid] + (th,) + ths[tid + 1:]), stutter


class Graph:
    """reachable part of a scenario's transition system"""

    def __init__(self, scn, max_states=200000):
        self.scn = scn
        self.n = len(scn)
        s0 = initial(scn)
        self.init = s0
        self.parent = {s0: None}        # state -> (pred, tid)
        self.edges = {}                 # state -> [(tid, succ, stutter)]
        self.order = [s0]
        self.complete = True
        self.problems = []
        i = 0
        while i < len(self.order):
            s = self.order[i]
            i += 1
            out = []
            for t in range(self.n):
                r = step(s, t)
                if r is None:
                    continue
                _, s2, st = r
                out.append((t, s2, st))
                if s2 not in self.parent:
                    if len(self.parent) >= max_states:
                        self.complete = False
                        continue
                    self.parent[s2] = (s, t)
                    self.order.append(s2)
            self.edges[s] = out
            if s[0][8]:
                self.problems.append(("access to a dead block", s))
            if not out:
                if not all(finished(th) for th in s[1]):
                    self.problems.append(("deadlock", s))
            elif all(st for _, _, st in out):
                self.problems.append(("only stutter steps enabled", s))
        self.nstates = len(self.order)
        self.ntrans = sum(len(v) for v in self.edges.values())

    def path_to(self, s):
        p = []
        while self.parent[s] is not None:
            s, t = self.parent[s]
            p.append(t)
        p.reverse()
        return p

    def finals(self):
        return [s for s in self.order if not self.edges.get(s)]

    def covering_schedules(self, rng=None):
        """maximal schedules that together take every transition of the graph"""
        uncovered = set()
        for s, out in self.edges.items():
            for t, _, _ in out:
                uncovered.add((s, t))
        scheds = []
        for s in self.order:
            for t, _, _ in self.edges.get(s, []):
                if (s, t) not in uncovered:
                    continue
                path = self.path_to(s)
                # mark the prefix as covered too
                cur = self.init
                for pt in path:
                    uncovered.discard((cur, pt))
                    cur = [x for x in self.edges[cur] if x[0] == pt][0][1]
                nxt_t = t
                while True:
                    path.append(nxt_t)
                    uncovered.discard((cur, nxt_t))
                    cur = [x for x in self.edges[cur] if x[0] == nxt_t][0][1]
                    out = self.edges.get(cur, [])
                    if not out:
                        break
                    fresh = [x for x in out if (cur, x[0]) in uncovered]
                    if fresh:
                        nxt_t = fresh[0][0]
                    else:
                        prog = [x for x in out if not x[2]]
                        if not prog:
                            break
                        nxt_t = (rng.choice(prog) if rng else prog[0])[0]
                scheds.append(path)
        return scheds

    def all_schedules(self, limit):
        """every maximal schedule without stutter steps (None if more than limit)"""
        res = []
        stack = [(self.init, [])]
        while stack:
            s, p = stack.pop()
            out = [x for x in self.edges.get(s, []) if not x[2]]
            if not out:
                res.append(p)
                if len(res) > limit:
                    return None
                continue
            for t, s2, _ in out:
                stack.append((s2, p + [t]))
        return res

    def random_schedule(self, rng, burst=0.5, spin=0.3):
        """a random maximal schedule (stutter steps allowed with probability `spin`)"""
        s = self.init
        p = []
        last = None
        guard = 0
        while guard < 10000:
            guard += 1
            out = step_all(s, self.n)
            if not out:
                break
            prog = [x for x in out if not x[2]]
            cand = out if (rng.random() < spin or not prog) else prog
            if not prog and all(x[2] for x in out):
                break
            same = [x for x in cand if x[0] == last]
            x = same[0] if same and rng.random() < burst else rng.choice(cand)
            p.append(x[0])
            last = x[0]
            s = x[1]
        return p


def step_all(s, n):
    out = []
    for t in range(n):
        r = step(s, t)
        if r is not None:
            out.append((t, r[1], r[2]))
    return out


# ---------------------------------------------------------------------------
# scenario families

# per-thread variants for the two-thread closure: 2 shared objects, 1 weak
_CONFIGS = [("10", "0"), ("10", "1"), ("00", "1"), ("11", "0"), ("11", "1")]
_MAIN_OPS = [
    ["share:0:1", "use:1"],
    ["share:1:0", "use:0"],      # target non-NULL when both are set: leading reset
    ["share:0:0"],               # self share
    ["reset:0"],
    ["wfrom:0:0"],
    ["lock:0:1", "use:1"],
    ["lock:0:0", "use:0"],       # lock into the thread's own owner: leading reset
    ["wreset:0"],
    ["use:0"],
]
_CLEANUP = ["reset:0", "reset:1", "wreset:0"]


def _is_noop(cfg, ops):
    g = Graph([(cfg[0], cfg[1], ops)])
    return g.ntrans == 0


def thread_variants(cleanup=True):
    vs = []
    for cfg in _CONFIGS:
        for ops in _MAIN_OPS:
            if _is_noop(cfg, ops):
                continue
            vs.append((cfg[0], cfg[1], ops + (_CLEANUP if cleanup else [])))
    return vs


def two_thread_scenarios(cleanup=True):
    vs = thread_variants(cleanup)
    return [[a, b] for a, b in itertools.combinations_with_replacement(vs, 2)]


def selected_scenarios():
    """the three / four thread scenarios of DESIGN 4/C06 (name, scenario)"""
    L = ["lock:0:0", "use:0", "reset:0", "wreset:0"]
    return [
        ("reset|lock|lock", [("1", "", ["reset:0"]), ("0", "1", L), ("0", "1", L)]),
        ("share,reset|reset|lock", [("10", "", ["share:0:1", "reset:0", "use:1", "reset:1"]),
                                    ("1", "", ["reset:0"]), ("0", "1", L)]),
        ("lock|wreset|reset", [("0", "1", L), ("", "1", ["wreset:0"]), ("1", "1", ["reset:0", "wreset:0"])]),
        ("reset|reset|lock", [("1", "", ["use:0", "reset:0"]), ("1", "", ["reset:0"]), ("0", "1", L)]),
        ("lock,lock|reset|wfrom", [("00", "1", ["lock:0:0", "lock:0:1", "use:1", "reset:0", "reset:1", "wreset:0"]),
                                   ("1", "", ["reset:0"]),
                                   ("1", "0", ["wfrom:0:0", "reset:0", "wreset:0"])]),
        ("lock|lock|lock (no owner)", [("0", "1", L), ("0", "1", L), ("0", "1", L)]),
        ("share|share|reset", [("10", "", ["share:0:1", "reset:0", "reset:1"]),
                               ("10", "", ["share:0:1", "use:1", "reset:1", "reset:0"]),
                               ("1", "", ["reset:0"])]),
    ]


def four_thread_scenarios():
    L = ["lock:0:0", "use:0", "reset:0", "wreset:0"]
    return [
        ("reset|lock|lock|share", [("1", "", ["reset:0"]), ("0", "1", L), ("0", "1", L),
                                   ("10", "", ["share:0:1", "reset:0", "use:1", "reset:1"])]),
        ("reset|lock|lock|wreset", [("1", "", ["reset:0"]), ("0", "1", L), ("0", "1", L),
                                    ("", "1", ["wreset:0"])]),
    ]


def large_scenario(rng, nthreads):
    """random programs for the random-schedule part"""
    scn = []
    owners = 0
    for t in range(nthreads):
        sh = "".join(rng.choice("01") for _ in range(2))
        if t == 0 and "1" not in sh:
            sh = "10"
        wk = rng.choice("01")
        owners += sh.count("1")
        ops = []
        for _ in range(rng.randrange(2, 6)):
            k = rng.choice(["share", "reset", "wfrom", "lock", "wreset", "use", "lock", "reset"])
            if k in ("share",):
                ops.append("share:%d:%d" % (rng.randrange(2), rng.randrange(2)))
            elif k == "reset":
                ops.append("reset:%d" % rng.randrange(2))
            elif k == "wfrom":
                ops.append("wfrom:%d:0" % rng.randrange(2))
            elif k == "lock":
                j = rng.randrange(2)
                ops += ["lock:0:%d" % j, "use:%d" % j]
            elif k == "wreset":
                ops.append("wreset:0")
            else:
                ops.append("use:%d" % rng.randrange(2))
        scn.append((sh, wk, ops + _CLEANUP))
    return scn


def corpus():
    """schedules that expose the DESIGN section 9 changes (they are ordinary
    runs of the unchanged code)"""
    L = ["lock:0:0", "use:0", "reset:0", "wreset:0"]
    rll = [("1", "", ["reset:0"]), ("0", "1", L), ("0", "1", L)]
    out = []
    # spin removed: 0 sees the last owner go (1 -> 0), 1 bumps 0 -> 1, 2 sees 1 and believes the memory
    # live, 0 clears and frees, 2 completes its lock with an "owner" and uses the memory
    out.append(script_of(rll, [0, 1, 2, 0, 0, 2, 2, 2, 2, 1, 1, 1, 0, 0], tail_rounds=8))
    # the same race with the second lock arriving while the first is undoing
    out.append(script_of(rll, [0, 0, 0, 1, 2, 2, 2, 1, 1, 2, 2], tail_rounds=8))
    # L3' forgets hard--: a second lock after a failed one believes the memory live
    ll = [("00", "1", ["lock:0:0", "lock:0:1", "use:1", "reset:1", "reset:0", "wreset:0"]), ("1", "", ["reset:0"])]
    out.append(script_of(ll, [1, 1, 1, 1, 0, 0, 0, 0, 0, 0, 0, 0, 0], tail_rounds=6))
    return out


# ---------------------------------------------------------------------------
# independent oracle: ownership ledger over the implementation's event stream

# an atomic operation with an explicit memory order is named `op[order]` by the harness; the oracle
# reads it as the same operation (its judgement is about SC interleavings)
_LINE = re.compile(r"^(\d+) (none|[a-z_]+(?:\[[a-z_]+\])? [a-z0-9_>&.\-]+ \d+) \| clr=(\d+) fm=(\d+) fd=(\d+) \| fin=([01-]+) \| done=(\S+)$")
_START = re.compile(r"^ok \| clr=(\d+) fm=(\d+) fd=(\d+) \| fin=([01-]+) \| done=(\S+)$")
_END = re.compile(r"^end (.*) \| clr=(\d+) fm=(\d+) fd=(\d+) \| fin=([01-]+)$")


def _done_list(s):
    if s == "-":
        return []
    out = []
    for e in s.split(","):
        m = re.match(r"(\d+)\.(\d+):(\d)$", e)
        if not m:
            return None
        out.append((int(m.group(1)), int(m.group(2)), int(m.group(3))))
    return out


def oracle(prop, script, c_lines):
    """C06 read on the real code's output.  Ledger: an *owner* is a shared
    pointer object that references the block and whose reset has not begun (an
    initial reference, or the target of a completed share / lock that reported
    non-NULL); a *reference* is an owner or a weak pointer object likewise.
      - the memory is cleared exactly once and freed exactly once, and not while an owner exists;
      - a lock/share never completes with an owner once the memory was cleared;
      - `use` by an owner sees live memory;
      - the bookkeeping block is freed at most once, not while a reference exists, and no step
        touches it afterwards;
      - no sanitizer report, no crash;
      - the round-robin tail of the schedule makes progress until every thread has finished;
      - when everything has been reset, all three events have happened exactly once.
    Returns a description of the first failure or None."""
    scn, _ = parse_script(script)
    n = len(scn)
    progs = [[_parse_op(o) for o in ops] for _, _, ops in scn]
    owners = [set(j for j, c in enumerate(sh) if c == "1") for sh, _, _ in scn]
    weaks = [set(j for j, c in enumerate(wk) if c == "1") for _, wk, _ in scn]
    opi = [0] * n
    had_owner = any(owners)
    clr = fm = fd = None
    nthr_lines = 0
    started = False
    progress_in_round = {}
    sched_no = 0
    nsched = sum(1 for l in script if l.startswith("sched"))
    tail_start = None
    fin = "0" * n

    def complete(dl):
        for t, k, r in dl:
            if t >= n or k != opi[t] or k >= len(progs[t]):
                return "completion record %d.%d:%d does not follow the thread's program" % (t, k, r)
            op = progs[t][k]
            opi[t] += 1
            if op[0] in ("share", "lock") and op[2] < len(scn[t][0]):
                owners[t].discard(op[2])
                if r:
                    if clr:
                        return ("thread %d: %s completed with an owner after the memory was cleared"
                                % (t, ":".join(map(str, op))))
                    owners[t].add(op[2])
            elif op[0] == "reset":
                owners[t].discard(op[1])
            elif op[0] == "wfrom" and op[2] < len(scn[t][1]):
                weaks[t].discard(op[2])
                if r:
                    weaks[t].add(op[2])
            elif op[0] == "wreset":
                weaks[t].discard(op[1])
        return None

    for i, op in enumerate(script):
        if i >= len(c_lines):
            return "line %d '%s': no output from the implementation" % (i, op)
        line = c_lines[i]
        if line.startswith("STOP"):
            return "line %d '%s': implementation stopped with '%s' (sanitizer report / crash)" % (i, op, line)
        w = op.split()
        if w[0] == "thr":
            if line != "ok":
                return "line %d: unexpected output '%s'" % (i, line)
            continue
        if w[0] == "start":
            m = _START.match(line)
            if not m:
                return "line %d: unparsable output '%s'" % (i, line)
            clr, fm, fd = int(m.group(1)), int(m.group(2)), int(m.group(3))
            want = (0, 0) if had_owner else (1, 1)
            if (clr, fm) != want:
                return "start: clear/free counts %d/%d with%s initial owner" % (clr, fm, "" if had_owner else "out")
            dl = _done_list(m.group(5))
            if dl is None:
                return "line %d: unparsable completion list" % i
            e = complete(dl)
            if e:
                return e
            started = True
            continue
        if w[0] == "sched":
            m = _LINE.match(line)
            if not m:
                return "line %d: unparsable output '%s'" % (i, line)
            t = int(m.group(1))
            what = m.group(2)
            c2, m2, d2 = int(m.group(3)), int(m.group(4)), int(m.group(5))
            fin = m.group(6)
            sched_no += 1
            if what != "none":
                a = what.rsplit(" ", 1)
                act, val = a[0], int(a[1])
                if fd:
                    return "line %d: thread %d performs '%s' after the bookkeeping block was freed" % (i, t, act)
                # the reset of an owner begins with the first step of an operation that resets it
                if opi[t] < len(progs[t]):
                    cur = progs[t][opi[t]]
                    tgt = cur[1] if cur[0] == "reset" else cur[2] if cur[0] in ("share", "lock") else None
                    if tgt is not None:
                        owners[t].discard(tgt)
                    if cur[0] == "wfrom":
                        weaks[t].discard(cur[2])
                    if cur[0] == "wreset":
                        weaks[t].discard(cur[1])
                if act == "use mem" and val != 1:
                    return "line %d: thread %d uses the memory through an owner after it was cleared" % (i, t)
                if act == "use mem" and (c2 or m2):
                    return "line %d: thread %d uses the memory after clear/free" % (i, t)
                if not (act == "test_and_set lock" and val == 1):
                    progress_in_round[sched_no] = True
            if c2 < clr or m2 < fm or d2 < fd:
                return "line %d: event counters went backwards" % i
            if c2 > 1:
                return "line %d: the memory was cleared %d times" % (i, c2)
            if m2 > 1:
                return "line %d: the memory was freed %d times" % (i, m2)
            if d2 > 1:
                return "line %d: the bookkeeping block was freed %d times" % (i, d2)
            if m2 > c2:
                return "line %d: the memory was freed before it was cleared" % i
            nown = sum(len(o) for o in owners)
            if (c2 > clr or m2 > fm) and nown > 0:
                return ("line %d: memory cleared/freed by thread %d while %d owner(s) remain (%s)"
                        % (i, t, nown, owners))
            nref = nown + sum(len(x) for x in weaks)
            if d2 > fd and nref > 0:
                return "line %d: bookkeeping block freed by thread %d while %d reference(s) remain" % (i, t, nref)
            clr, fm, fd = c2, m2, d2
            dl = _done_list(m.group(7))
            if dl is None:
                return "line %d: unparsable completion list" % i
            e = complete(dl)
            if e:
                return e
            if clr and sum(len(o) for o in owners) > 0:
                return "line %d: an owner exists although the memory was cleared (%s)" % (i, owners)
            continue
        if w[0] == "end":
            m = _END.match(line)
            if not m:
                return "line %d: unparsable output '%s'" % (i, line)
            objs = m.group(1).split()
            fin = m.group(5)
            if "0" in fin:
                # waiting forever = a whole round-robin round at the end without any progress
                last_round = range(max(1, nsched - n + 1), nsched + 1)
                if nsched >= n and not any(progress_in_round.get(k) for k in last_round):
                    return "end: threads %s never finish (a full round-robin round made no progress)" % fin
                return None
            any_sh = any("1" in o.split("/")[0] for o in objs)
            any_ref = any("1" in o for o in objs)
            c2, m2, d2 = int(m.group(2)), int(m.group(3)), int(m.group(4))
            if not any_sh and (c2, m2) != (1, 1):
                return "end: no owner left but clear/free counts are %d/%d" % (c2, m2)
            if any_sh and (c2, m2) != (0, 0):
                return "end: an owner is left but the memory was cleared/freed (%d/%d)" % (c2, m2)
            if not any_ref and d2 != 1:
                return "end: no reference left but the bookkeeping block was freed %d times" % d2
            if any_ref and d2 != 0:
                return "end: a reference is left but the bookkeeping block was freed"
            continue
    return None


# ---------------------------------------------------------------------------
# supporting evidence (thorough tier): real threads under ThreadSanitizer


# ---------------------------------------------------------------------------
# re-entrant clear callback (implementation only: the model's callback is a single step)


def reent_scripts(rng, count):
    """scenarios in which the clear callback itself calls cstl_weak_ptr_lock on a weak pointer to the
    allocation being torn down, under round-robin and random schedules"""
    scns = [
        [("1", "", ["reset:0"])],
        [("1", "", ["reset:0"]), ("0", "1", ["lock:0:0", "use:0", "reset:0", "wreset:0"])],
        [("1", "", ["reset:0"]), ("1", "", ["reset:0"])],
        [("1", "1", ["reset:0", "lock:0:0", "reset:0", "wreset:0"]), ("0", "1", ["wreset:0"])],
        [("1", "", ["reset:0"]), ("0", "1", ["lock:0:0", "reset:0", "wreset:0"]), ("0", "1", ["lock:0:0", "reset:0", "wreset:0"])],
    ]
    out = []
    for scn in scns:
        n = len(scn)
        scheds = [[t for _ in range(40) for t in range(n)]]
        for _ in range(count):
            p = []
            while len(p) < 60:
                p += [rng.randrange(n)] * rng.choice([1, 1, 2, 3, 5])
            scheds.append(p + [t for _ in range(40) for t in range(n)])
        for p in scheds:
            lines = ["thr %s %s %s" % (sh or "-", wk or "-", " ".join(ops)) for sh, wk, ops in scn]
            out.append(lines + ["cbreent", "start"] + ["sched %d" % t for t in p] + ["end"])
    return out


def reent_judge(prop, script, c_lines):
    """every thread finishes (fair schedule, bounded work), the memory is cleared and freed exactly
    once, the bookkeeping block once, the callback's own lock never yields an owner, no sanitizer report"""
    for i, line in enumerate(c_lines):
        if line.startswith("STOP"):
            return "line %d '%s': implementation stopped with '%s'" % (i, script[min(i, len(script) - 1)], line)
    if len(c_lines) < len(script):
        return "no output for line %d" % len(c_lines)
    last = c_lines[len(script) - 1]
    m = _END.match(last.replace("end cbowner", "end", 1))
    if not m:
        return "unparsable end line '%s'" % last
    if last.startswith("end cbowner"):
        return "the lock taken inside the clear callback yielded an owner of the memory being cleared"
    clr, fm, fd, fin = int(m.group(2)), int(m.group(3)), int(m.group(4)), m.group(5)
    if "0" in fin:
        return ("thread(s) %s never finish under a fair schedule although every other thread has finished or keeps "
                "running: a thread waits forever (clear callback re-entering cstl_weak_ptr_lock)"
                % [k for k, c in enumerate(fin) if c == "0"])
    if (clr, fm, fd) != (1, 1, 1):
        return "clear/free(memory)/free(bookkeeping) counts %d/%d/%d, expected 1/1/1" % (clr, fm, fd)
    return None


def tsan_build():
    import vlib
    d = vlib.mktmp("conc_tsan")
    exe = os.path.join(d, "conc_tsan")
    cmd = ["gcc", "-std=gnu11", "-O1", "-g", "-DNDEBUG", "-fsanitize=thread", "-fno-omit-frame-pointer",
           "-I", os.path.join(vlib.REPO, "include"),
           os.path.join(vlib.HARNESS, "conc_tsan.c"), os.path.join(vlib.REPO, "src", "memory.c"),
           "-o", exe, "-lpthread"]
    r = vlib.sh(cmd)
    return (exe, None) if r.returncode == 0 else (None, r.stdout[-400:])


def tsan_scenarios():
    return [s for _, s in selected_scenarios() + four_thread_scenarios()] + two_thread_scenarios(cleanup=True)[::23]


def tsan_script(scn, iters):
    return [("thr %s %s %s" % (sh or "-", wk or "-", " ".join(ops))).rstrip() for sh, wk, ops in scn] + ["run %d" % iters]


def tsan_exec(exe, script, timeout=600):
    """-> (stdout lines starting with 'run ', ThreadSanitizer report text)"""
    p = subprocess.run([exe], input="\n".join(script) + "\n", stdout=subprocess.PIPE, stderr=subprocess.PIPE,
                       universal_newlines=True,
                       env=dict(os.environ, TSAN_OPTIONS="halt_on_error=0:exitcode=0:report_signal_unsafe=0"),
                       timeout=timeout)
    return [l for l in p.stdout.split("\n") if l.startswith("run ")], p.stderr, p.returncode


def tsan_judge(script, lines, report):
    """reading of C06 on a real-thread run: no data race reported inside the library,
    the clear callback ran exactly once per iteration"""
    iters = int(script[-1].split()[1])
    if "WARNING: ThreadSanitizer" in report:
        first = report[report.index("WARNING: ThreadSanitizer"):]
        frames = re.findall(r"#\d+ (\S+) [^\n]*", first[:3000])
        return ("ThreadSanitizer reports %d problem(s) on real threads; first: %s; frames: %s"
                % (report.count("WARNING: ThreadSanitizer"), first.split("\n")[0].strip(), " <- ".join(frames[:6])))
    if not lines:
        return "the real-thread run produced no result line (crash?)"
    if ("clears_ok=%d " % iters) not in lines[0]:
        return "real threads: %s (the clear callback did not run exactly once in every iteration)" % lines[0]
    return None


def tsan_search(chk, iters=400):
    """directed search on real threads (used when the atomic-step correspondence or a tie broke):
    every scenario under ThreadSanitizer; a report is a concrete failing input"""
    exe, err = tsan_build()
    if exe is None:
        chk.notes.append("TSan build failed: " + err)
        return
    n = 0
    for scn in tsan_scenarios():
        script = tsan_script(scn, iters)
        try:
            lines, report, _ = tsan_exec(exe, script)
        except subprocess.TimeoutExpired:
            lines, report = [], ""
        n += 1
        w = tsan_judge(script, lines, report)
        if w and len(chk.oracle_failures) < 5:
            chk.oracle_failures.append({"area": "conc_tsan", "script": script, "what": w,
                                        "impl_output": lines + report[:4000].split("\n")})
    chk.extra["directed_search_real_threads"] = {"scenarios": n, "iterations_each": iters}


def tsan_run(chk, iters=300):
    import vlib
    exe, err = tsan_build()
    if exe is None:
        chk.notes.append("TSan build failed: " + err)
        return
    scns = tsan_scenarios()
    inp = ""
    for scn in scns:
        for sh, wk, ops in scn:
            inp += ("thr %s %s %s" % (sh or "-", wk or "-", " ".join(ops))).rstrip() + "\n"
        inp += "run %d\n" % iters
    p = subprocess.run([exe], input=inp, stdout=subprocess.PIPE, stderr=subprocess.PIPE, universal_newlines=True,
                       env=dict(os.environ, TSAN_OPTIONS="halt_on_error=0:exitcode=0:report_signal_unsafe=0"),
                       timeout=1800)
    lines = [l for l in p.stdout.split("\n") if l.startswith("run ")]
    warnings = p.stderr.count("WARNING: ThreadSanitizer")
    bad = [l for l in lines if ("clears_ok=%d " % iters) not in l]
    chk.extra["real_threads_tsan"] = {
        "role": "supporting evidence for the sequential-consistency assumption; not part of the verdict",
        "scenarios": len(scns), "iterations_each": iters, "runs_reported": len(lines),
        "tsan_warnings": warnings, "runs_with_wrong_clear_count": len(bad), "exit": p.returncode}
    if warnings or bad or len(lines) != len(scns):
        chk.notes.append("real-thread run: %d ThreadSanitizer warnings, %d runs with a wrong clear count, %d/%d runs "
                         "reported; first report: %s" % (warnings, len(bad), len(lines), len(scns),
                                                         p.stderr[:600].replace("\n", " / ")))
