"""mem area: src/memory.c, include/cstl/memory.h, cstl_array_* of src/array.c
<->  lean/Cstl/Mem   (properties C05, C14, C20)

The oracle below is an ownership ledger: a reference semantics of the
*documented* behaviour (who owns which allocation, which view an array object
is) that never looks at the Lean model.  It is fed with the implementation's
output lines and checks

  C05  every malloc/free/clear-callback event against the ledger (memory
       destroyed exactly in the operation that removes the last owner, clear
       callback immediately before the free, bookkeeping released with the last
       reference, nothing else freed, exact accounting of live blocks after
       every operation), get / unique / lock results;
  C14  size, data, at as (buffer, offset) inside the live buffer, abort exactly
       on bad index / bad slice, release only to the sole user, failed
       allocation leaves the object empty;
  C20  SIGABRT exactly when a stray copy sits in a position through which the
       function reads, transfers or releases the pointer.
"""
import itertools
import re

NAME = "mem"
HARNESS_SRCS = ["mem.c"]
REPO_SRCS = ["memory.c", "array.c", "common.c"]
LEAN_TARGETS = ["Cstl.Mem.Props", "m_mem"]
IMPORTS = ["Cstl.Mem.Props"]

_C05 = ["reachable_inv", "run_inv", "run_logInv", "counts_exact", "mem_live_iff", "data_live_iff",
        "destroy_exactly_at_last_owner", "clear_exactly_at_last_owner", "clear_then_free", "release_in_op",
        "free_at_most_once", "get_same", "lock_iff", "unique_iff", "no_leak", "unique_clear_then_free_once",
        "step_never_asan"]
_C20 = ["stray_aborts", "stray_untouched", "overwrite_only", "stamped_preserved", "original_keeps_working",
        "stamped_never_aborts", "properly_moved_never_abort", "exec_stray", "exec_inv", "run_inv"]
_C14 = ["run_ainv", "exec_ainv", "at_in_buffer", "at_abort_iff", "slice_abort_iff", "lifetime",
        "release_sole_external", "alloc_fail_empty", "run_inv", "destroy_exactly_at_last_owner",
        "free_at_most_once", "no_leak", "step_never_asan"]
THEOREMS = {
    "C05": ["Cstl.Mem." + t for t in _C05],
    "C14": ["Cstl.Mem." + t for t in _C14],
    "C20": ["Cstl.Mem." + t for t in _C20],
}

W = 1 << 64
M = W - 1
LIMIT = 1 << 40
EXTSZ = 64
POOL = {"g": 4, "u": 6, "s": 10, "w": 6, "a": 6}


def num(s):
    if s == "M":
        return M
    if s.startswith("M-"):
        return M - int(s[2:])
    return int(s)


def sym(n):
    """driver syntax for a size_t value"""
    if n > M - 1000:
        return "M" if n == M else "M-%d" % (M - n)
    return str(n)


# ---------------------------------------------------------------------------
# parsing the implementation's output


def parse_line(line):
    """'res | evs | objs | blocks | datas' -> dict or None"""
    if line.startswith("STOP") or "|" not in line:
        return None
    parts = [p.strip() for p in line.split("|")]
    if len(parts) != 5:
        return None
    res, evs, objs, blocks, datas = parts
    out = {"res": res, "evs": [] if evs == "-" else evs.split(), "objs": {}, "blocks": {}, "datas": datas}
    if objs != "-":
        for tok in objs.split():
            name, val = tok.split("=", 1)
            stray = None
            if val.startswith("~"):
                stray, val = val[1:].split(":", 1)
            m = re.match(r"(\?|\d+)", val)
            if not m:
                return None
            ptr = m.group(1)
            o = {"stray": stray, "ptr": None if ptr == "?" else int(ptr), "raw": val}
            rest = val[m.end():]
            if name[0] == "a":
                m2 = re.match(r"\+(\d+):(\d+)", rest)
                if not m2:
                    return None
                o["off"], o["len"] = int(m2.group(1)), int(m2.group(2))
            if name[0] == "u":
                m2 = re.match(r",c(-?\d+),p(\d+)", rest)
                if not m2:
                    return None
                o["clr"], o["priv"] = int(m2.group(1)), int(m2.group(2))
            out["objs"][name] = o
    if blocks != "-":
        for tok in blocks.split():
            b, n = tok.split(":")
            out["blocks"][int(b)] = int(n)
    return out


# ---------------------------------------------------------------------------
# reference semantics (independent of the Lean model)


class Token:
    """one allocation made through a shared pointer or an array object"""

    def __init__(self, clr=0):
        self.owners = set()     # names of shared / array objects
        self.weaks = set()
        self.clr = clr
        self.mem = None         # block id of the managed memory (learned from the events)
        self.book = None        # block id of the bookkeeping block
        self.array = None       # dict(nm, sz, ext) for arrays

    def refs(self):
        return len(self.owners) + len(self.weaks)


class UBlock:
    def __init__(self, clr, priv):
        self.clr, self.priv, self.blk = clr, priv, None


READS = {
    # op -> argument indices (into the word list) through which the pointer is read/transferred/released
    "ginit": [], "gset": [], "gget": [1], "gcopy": [2], "gswap": [1, 2],
    "uinit": [], "ualloc": [1], "uget": [1], "urelease": [1], "uswap": [1, 2], "ureset": [1],
    "sinit": [], "salloc": [1], "sunique": [1], "sget": [1], "sshare": [1, 2], "sswap": [1, 2], "sreset": [1],
    "smany": [1],
    "winit": [], "wfrom": [1, 2], "wlock": [1, 2], "wswap": [1, 2], "wreset": [1],
    "ainit": [], "asize": [], "aset": [1], "arelease": [1], "aalloc": [1], "areset": [1], "adata": [1],
    "aat": [1], "aslice": [1, 4], "aunslice": [1, 2], "amany": [1],
}
KINDS = {
    "ginit": "g", "gset": "g", "gget": "g", "gcopy": "gg", "gswap": "gg",
    "uinit": "u", "ualloc": "u", "uget": "u", "urelease": "u", "uswap": "uu", "ureset": "u",
    "sinit": "s", "salloc": "s", "sunique": "s", "sget": "s", "sshare": "ss", "sswap": "ss", "sreset": "s",
    "smany": "s",
    "winit": "w", "wfrom": "ws", "wlock": "ws", "wswap": "ww", "wreset": "w",
    "ainit": "a", "asize": "a", "aset": "a", "arelease": "a", "aalloc": "a", "areset": "a", "adata": "a",
    "aat": "a", "aslice": "a", "aunslice": "aa", "amany": "a",
}


class Ref:
    def __init__(self):
        self.tok = {}       # shared / weak / array object name -> Token
        self.view = {}      # array object name -> (off, len)
        self.ub = {}        # unique object name -> UBlock
        self.g = {}         # guarded object name -> int
        self.selfof = {}    # object name -> name stamped in it (absent = itself)
        self.expect = None  # expectations about the events of the current op
        self.live = {}      # ledger: block id -> size (from the event stream)

    # -- helpers
    def stray(self, x):
        return self.selfof.get(x, x) != x

    def holds(self, x):
        if self.stray(x):
            return False
        return x in self.tok or x in self.ub or self.g.get(x, 0) != 0

    def enabled(self, op):
        w = op.split()
        o = w[0]
        if o in ("rcopy", "rmemcpy"):
            if len(w) != 3 or w[1][0] != w[2][0]:
                return False
            d, s = w[1], w[2]
            if self.holds(d):
                return False
            return d == s or self.selfof.get(s, s) != d
        if o not in KINDS:
            return False
        for t in w[1:]:
            if t[:1] in "0123456789M" and t != "-":
                try:
                    if not 0 <= num(t) < W:
                        return False
                except ValueError:
                    if not re.match(r"[01]+$", t):
                        return False
        if o in ("uinit", "sinit", "winit", "ainit") and self.holds(w[1]):
            return False
        if o == "aset":
            if w[2] not in ("E1", "E2"):
                return False
            if num(w[3]) * num(w[4]) > EXTSZ:
                return False
        return True

    def will_abort_stray(self, w):
        return any(self.stray(w[i]) for i in READS[w[0]])

    # -- ownership changes; each records what the event stream must show
    def _drop_owner(self, x):
        t = self.tok.pop(x, None)
        if t is None:
            return
        t.owners.discard(x)
        if not t.owners:
            self.expect["destroy"].append(t)
        if t.refs() == 0:
            self.expect["bookfree"].append(t)

    def _drop_weak(self, x):
        t = self.tok.pop(x, None)
        if t is None:
            return
        t.weaks.discard(x)
        if t.refs() == 0:
            self.expect["bookfree"].append(t)

    def _drop_unique(self, x):
        u = self.ub.pop(x, None)
        if u is not None:
            self.expect["udestroy"].append(u)

    def apply(self, op, failed=None):
        """Advance the reference state.  `failed`: did the implementation report a
        failed malloc in this op (None = predict from the plan).
        Returns (kind, value): ('abort', None) | ('res', expected result string or None)"""
        w = op.split()
        o = w[0]
        self.expect = {"destroy": [], "bookfree": [], "udestroy": [], "new": None, "newu": None}
        if o in ("rcopy", "rmemcpy"):
            d, s = w[1], w[2]
            if d != s:
                self.selfof[d] = self.selfof.get(s, s)
                # the bytes of s now also sit in d; d holds nothing the library knows about
                self.tok.pop(d, None)
                self.ub.pop(d, None)
                self.g[d] = self.g.get(s, 0)
                self.view.pop(d, None)
                if s in self.view:
                    self.view[d] = self.view[s]     # asize does not go through the guarded pointer
            return ("res", "ok")
        if self.will_abort_stray(w):
            return ("abort", None)

        def plan_fails(plan, k):
            return any(c == "0" for c in (plan if plan != "-" else "")[:k])

        x = w[1]
        # ---- guarded
        if o == "ginit":
            self.selfof.pop(x, None); self.g[x] = 0; return ("res", "ok")
        if o == "gset":
            self.selfof.pop(x, None); self.g[x] = num(w[2]); return ("res", "ok")
        if o == "gget":
            return ("res", str(self.g.get(x, 0)))
        if o == "gcopy":
            self.selfof.pop(x, None); self.g[x] = self.g.get(w[2], 0); return ("res", "ok")
        if o == "gswap":
            y = w[2]
            self.g[x], self.g[y] = self.g.get(y, 0), self.g.get(x, 0)
            return ("res", "ok")
        # ---- unique
        if o == "uinit":
            self.selfof.pop(x, None); self.ub.pop(x, None); return ("res", "ok")
        if o == "ualloc":
            sz, clr, priv, plan = num(w[2]), num(w[3]), num(w[4]), w[5]
            self._drop_unique(x)
            if sz > 0:
                f = failed if failed is not None else (plan_fails(plan, 1) or sz > LIMIT)
                if not f:
                    self.ub[x] = UBlock(clr, priv)
                    self.expect["newu"] = self.ub[x]
            return ("res", "ok")
        if o == "uget":
            u = self.ub.get(x)
            return ("res", "0" if u is None else ("b%d+0" % u.blk if u.blk is not None else None))
        if o == "urelease":
            u = self.ub.pop(x, None)
            if u is None:
                return ("res", "0 c0 p0")
            # the harness (as the caller) runs the clear function and frees the memory
            self.expect["udestroy"].append(u)
            return ("res", "b%d+0 c%d p%d" % (u.blk, u.clr, u.priv) if u.blk is not None else None)
        if o == "uswap":
            y = w[2]
            a, b = self.ub.pop(x, None), self.ub.pop(y, None)
            if b is not None:
                self.ub[x] = b
            if a is not None and x != y:
                self.ub[y] = a
            elif a is not None:
                self.ub[x] = a
            return ("res", "ok")
        if o == "ureset":
            self._drop_unique(x)
            return ("res", "ok")
        # ---- shared / weak
        if o in ("sinit", "winit"):
            self.selfof.pop(x, None); self.tok.pop(x, None); return ("res", "ok")
        if o == "salloc":
            sz, clr, plan = num(w[2]), num(w[3]), w[4]
            self._drop_owner(x)
            if sz > 0:
                f = failed if failed is not None else (plan_fails(plan, 2) or sz > LIMIT)
                if not f:
                    t = Token(clr)
                    t.owners.add(x)
                    self.tok[x] = t
                    self.expect["new"] = t
            return ("res", "ok")
        if o == "amany":
            return ("res", "ok")
        if o == "smany":
            # many co-owners and weak references come and go (judged step by step inside the
            # harness): no event, no change of the state
            return ("res", "ok")
        if o == "sunique":
            t = self.tok.get(x)
            return ("res", "1" if t is None or t.refs() == 1 else "0")
        if o == "sget":
            t = self.tok.get(x)
            return ("res", "0" if t is None else ("b%d+0" % t.mem if t.mem is not None else None))
        if o == "sshare":
            e, n = w[1], w[2]
            self._drop_owner(n)
            t = self.tok.get(e)
            if t is not None:
                t.owners.add(n)
                self.tok[n] = t
            return ("res", "ok")
        if o in ("sswap", "wswap"):
            y = w[2]
            if x != y:
                a, b = self.tok.pop(x, None), self.tok.pop(y, None)
                grp = "owners" if o == "sswap" else "weaks"
                if a is not None:
                    getattr(a, grp).discard(x)
                if b is not None:
                    getattr(b, grp).discard(y)
                if a is not None:
                    getattr(a, grp).add(y); self.tok[y] = a
                if b is not None:
                    getattr(b, grp).add(x); self.tok[x] = b
            return ("res", "ok")
        if o == "sreset":
            self._drop_owner(x)
            return ("res", "ok")
        if o == "wfrom":
            s = w[2]
            self._drop_weak(x)
            t = self.tok.get(s)
            if t is not None:
                t.weaks.add(x)
                self.tok[x] = t
            return ("res", "ok")
        if o == "wlock":
            s = w[2]
            self._drop_owner(s)
            t = self.tok.get(x)
            if t is not None and t.owners:
                t.owners.add(s)
                self.tok[s] = t
            return ("res", "ok")
        if o == "wreset":
            self._drop_weak(x)
            return ("res", "ok")
        # ---- arrays
        if o == "ainit":
            self.selfof.pop(x, None); self.tok.pop(x, None); self.view.pop(x, None); return ("res", "ok")
        if o == "asize":
            return ("res", str(self.view.get(x, (0, 0))[1]))
        if o in ("aalloc", "aset"):
            if o == "aalloc":
                nm, sz, plan, ext = num(w[2]), num(w[3]), w[4], 0
                bytes_ = 24 + nm * sz
            else:
                ext, nm, sz, plan = int(w[2][1:]), num(w[3]), num(w[4]), w[5]
                bytes_ = 24
            self._drop_owner(x)
            self.view.pop(x, None)
            representable = bytes_ < W
            f = failed if failed is not None else (plan_fails(plan, 2) or bytes_ > LIMIT)
            if representable and not f:
                t = Token(0)
                t.owners.add(x)
                t.array = {"nm": nm, "sz": sz, "ext": ext}
                self.tok[x] = t
                self.view[x] = (0, nm)
                self.expect["new"] = t
            return ("res", "ok")
        if o == "areset":
            self._drop_owner(x)
            self.view.pop(x, None)
            return ("res", "ok")
        if o == "arelease":
            t = self.tok.get(x)
            if t is not None and t.array["ext"] and t.refs() == 1:
                self._drop_owner(x)
                self.view.pop(x, None)
                return ("res", "E%d+0" % t.array["ext"])
            return ("res", "0")
        if o == "adata":
            t = self.tok.get(x)
            if t is None:
                return ("res", "0")
            return ("loc", (t, 0))
        if o == "aat":
            i = num(w[2])
            off, ln = self.view.get(x, (0, 0))
            if i >= ln:
                return ("abort", None)
            t = self.tok[x]
            return ("loc", (t, (off + i) * t.array["sz"]))
        if o == "aslice":
            beg, end, s = num(w[2]), num(w[3]), w[4]
            t = self.tok.get(x)
            off, ln = self.view.get(x, (0, 0))
            if t is None or end < beg or off + end > t.array["nm"]:
                return ("abort", None)
            if s != x:
                self._drop_owner(s)
                t.owners.add(s)
                self.tok[s] = t
            self.view[s] = (off + beg, end - beg)
            return ("res", "ok")
        if o == "aunslice":
            s, a = w[1], w[2]
            t = self.tok.get(s)
            if t is None:
                return ("abort", None)
            if a != s:
                self._drop_owner(a)
                t.owners.add(a)
                self.tok[a] = t
            self.view[a] = (0, t.array["nm"])
            return ("res", "ok")
        return ("res", None)


def _check_events(ref, op, evs, parsed):
    """the ledger: every event of this op against the expectations.  Returns a
    failure description or None."""
    exp = ref.expect
    allocated = []
    freed = []
    i = 0
    must_mem = {}       # block id -> token / ublock to be destroyed in this op
    for t in exp["destroy"]:
        must_mem[t.mem] = ("clr", t.clr, 0)
    for u in exp["udestroy"]:
        must_mem[u.blk] = ("clr", u.clr, u.priv)
    must_book = set(t.book for t in exp["bookfree"])
    while i < len(evs):
        e = evs[i]
        if e.startswith("A!"):
            i += 1
            continue
        if e.startswith("A"):
            b, n = e[1:].split(":")
            b, n = int(b), int(n)
            if b in ref.live:
                return "block %d allocated while it is live" % b
            ref.live[b] = n
            allocated.append(b)
            i += 1
            continue
        if e.startswith("C"):
            f, p, priv = e[1:].split(":")
            if p == "?" or int(p) not in must_mem:
                return "clear callback %s for memory whose last owner did not let go in this operation" % e
            p = int(p)
            want = must_mem[p]
            if want[1] == 0 or int(f) != want[1] or int(priv) != want[2]:
                return "clear callback %s, registered callback %d priv %d" % (e, want[1], want[2])
            if must_mem[p][0] != "clr":
                return "clear callback %s ran twice" % e
            if i + 1 >= len(evs) or evs[i + 1] != "F%d" % p:
                return "clear callback %s is not immediately followed by the release of that memory" % e
            must_mem[p] = ("free", want[1], want[2])
            i += 1
            continue
        if e.startswith("F"):
            if e == "F?":
                return "free of a pointer that is not a live allocation (double free?)"
            b = int(e[1:])
            if b not in ref.live:
                return "block %d freed but it is not live (double free)" % b
            if b in must_mem:
                st = must_mem[b]
                if st[0] == "clr" and st[1] != 0:
                    return "memory %d released without its clear callback %d" % (b, st[1])
                del must_mem[b]
            elif b in must_book:
                must_book.discard(b)
            elif b in allocated:
                pass            # clean-up of a half-built allocation
            else:
                return "block %d released although it still has %s" % (
                    b, "an owner" if any(t.mem == b for t in set(ref.tok.values())) else "a reference")
            del ref.live[b]
            freed.append(b)
            i += 1
            continue
        return "unparsable event %s" % e
    if must_mem:
        return "memory %s lost its last owner in this operation but was not released" % sorted(
            k for k in must_mem if k is not None)
    if must_book:
        return "bookkeeping block %s lost its last reference but was not released" % sorted(must_book)
    # bind the blocks of a new allocation
    new = [b for b in allocated if b in ref.live]
    if exp["new"] is not None:
        t = exp["new"]
        if len(new) != 2:
            return "successful shared allocation left %d new blocks, expected managed memory + bookkeeping" % len(new)
        x = [k for k, v in ref.tok.items() if v is t][0]
        shown = parsed["objs"].get(x)
        if shown is None or shown["stray"] or shown["ptr"] not in new:
            return "after a successful allocation %s does not refer to the new allocation" % x
        t.book = shown["ptr"]
        t.mem = [b for b in new if b != t.book][0]
    elif exp["newu"] is not None:
        u = exp["newu"]
        if len(new) != 1:
            return "successful unique allocation left %d new blocks" % len(new)
        u.blk = new[0]
    elif new:
        return ("blocks %s allocated in this operation stay live although the allocation must fail or was not "
                "requested (unrepresentable size / failed malloc / leak)" % new)
    # exact accounting: live blocks = blocks of live tokens + unique blocks
    want = set()
    for t in set(ref.tok.values()):
        want.add(t.book)
        if t.owners:
            want.add(t.mem)
    for u in ref.ub.values():
        want.add(u.blk)
    if set(ref.live) != want:
        extra = sorted(set(ref.live) - want)
        missing = sorted(want - set(ref.live))
        if extra:
            return "blocks %s are live but nothing refers to them (leak)" % extra
        return "blocks %s are referenced but no longer live" % missing
    return None


def _check_objects(ref, parsed):
    """the objects as the harness sees them versus the reference"""
    objs = parsed["objs"]
    for k, cnt in POOL.items():
        for i in range(cnt):
            x = "%s%d" % (k, i)
            shown = objs.get(x)
            if ref.stray(x):
                continue
            if shown is not None and shown["stray"]:
                return "%s is shown as a stray copy but was never copied" % x
            ptr = shown["ptr"] if shown else 0
            if k == "g":
                if ptr != ref.g.get(x, 0):
                    return "%s holds %s, reference %d" % (x, ptr, ref.g.get(x, 0))
            elif k == "u":
                u = ref.ub.get(x)
                if (u.blk if u else 0) != ptr:
                    return "%s refers to block %s, reference %s" % (x, ptr, u.blk if u else 0)
            else:
                t = ref.tok.get(x)
                if (t.book if t else 0) != ptr:
                    return "%s refers to bookkeeping block %s, reference %s" % (x, ptr, t.book if t else 0)
                if k == "a":
                    v = ref.view.get(x, (0, 0))
                    ln = shown["len"] if shown else 0
                    if ln != v[1]:
                        return "%s has size %d, reference %d%s" % (
                            x, ln, v[1], "" if t else " (the object must be empty)")
    return None


def _check_loc(ref, parsed, tok_off, res):
    t, byte = tok_off
    arr = t.array
    if arr["ext"]:
        want = "E%d+%d" % (arr["ext"], byte)
        if res != want:
            return "address %s, element is at %s of the external buffer" % (res, want)
        return None
    m = re.match(r"b(\d+)\+(\d+)$", res)
    if not m:
        return "address %s is not inside any live block (buffer is block %s)" % (res, t.mem)
    b, off = int(m.group(1)), int(m.group(2))
    size = ref.live.get(t.mem)
    if b != t.mem or size is None:
        return "address %s is not in the live buffer block %s" % (res, t.mem)
    base = size - arr["nm"] * arr["sz"]
    if base < 0:
        return "buffer block %d has %d bytes, %d elements of %d bytes do not fit" % (t.mem, size, arr["nm"], arr["sz"])
    if off != base + byte:
        return "address %s, element is at b%d+%d" % (res, t.mem, base + byte)
    if arr["sz"] and off + (arr["sz"] if byte < arr["nm"] * arr["sz"] else 0) > size:
        return "address %s reaches outside the %d-byte buffer block" % (res, size)
    return None


def oracle(prop, script, c_lines):
    """Independent reading of C05 / C14 / C20 on the real code's output.
    Returns a description of the first failure or None."""
    ref = Ref()
    for i, op in enumerate(script):
        if not ref.enabled(op):
            return None         # outside the documented domain: nothing to say
        if i >= len(c_lines):
            return "op %d '%s': no output from the implementation" % (i, op)
        line = c_lines[i]
        parsed = parse_line(line)
        failed = None
        if parsed is not None:
            failed = any(e.startswith("A!") for e in parsed["evs"])
        kind, val = ref.apply(op, failed)
        if kind == "abort":
            if line != "STOP abort":
                return "op %d '%s': must abort, implementation answered '%s'" % (i, op, line)
            return None
        if line.startswith("STOP"):
            return "op %d '%s': implementation stopped with '%s'" % (i, op, line)
        if parsed is None:
            return "op %d '%s': unparsable implementation output '%s'" % (i, op, line)
        w = _check_events(ref, op, parsed["evs"], parsed)
        if w:
            return "op %d '%s': %s" % (i, op, w)
        if kind == "loc":
            w = _check_loc(ref, parsed, val, parsed["res"])
            if w:
                return "op %d '%s': %s" % (i, op, w)
        elif val is not None and parsed["res"] != val:
            return "op %d '%s': result '%s', reference '%s'" % (i, op, parsed["res"], val)
        w = _check_objects(ref, parsed)
        if w:
            return "op %d '%s': %s" % (i, op, w)
    return None


def in_domain(script):
    ref = Ref()
    for op in script:
        if not ref.enabled(op):
            return False
        if ref.apply(op)[0] == "abort":
            break
    return True


def expected_abort(script):
    """does the reference end this script with an abort?"""
    ref = Ref()
    for op in script:
        if not ref.enabled(op):
            return False
        if ref.apply(op)[0] == "abort":
            return True
    return False


# ---------------------------------------------------------------------------
# canonical states for the closure (block ids renamed in order of appearance)


def canon_state(line):
    if line.startswith("STOP") or "|" not in line:
        return line
    parts = [p.strip() for p in line.split("|")]
    objs, datas = parts[2], parts[4]
    ren = {}

    def r(m):
        k = m.group(0)
        if k == "0":
            return "0"
        if k not in ren:
            ren[k] = str(len(ren) + 1)
        return ren[k]

    # pointers in objects: name=[~self:]PTR...
    def obj(tok):
        name, val = tok.split("=", 1)
        pre = ""
        if val.startswith("~"):
            pre, val = val.split(":", 1)
            pre += ":"
        val = re.sub(r"^\d+", r, val)
        return name + "=" + pre + val
    o2 = " ".join(obj(t) for t in objs.split()) if objs != "-" else "-"
    # bookkeeping blocks: dN=hH,sS,mM,cC
    d2 = []
    if datas != "-":
        for tok in datas.split():
            m = re.match(r"d(\d+)=h(\d+),s(\d+),m(\d+),c(\d+)(.*)", tok)
            if m:
                d2.append("d%s=h%s,s%s,m%s,c%s%s" % (r(re.match(r"\d+", m.group(1))), m.group(2), m.group(3),
                                                       "0" if m.group(4) == "0" else "x", m.group(5), m.group(6)))
            else:
                d2.append(tok)
    return o2 + " | " + " ".join(sorted(d2))


def canon_state_sym(names):
    """canonical state up to renaming of the given (interchangeable) objects: the closure's
    alphabet applies every operation to every one of them, so one representative per orbit is
    enough"""
    names = list(names)

    def f(line):
        if line.startswith("STOP") or "|" not in line:
            return line
        parts = [p.strip() for p in line.split("|")]
        toks = {} if parts[2] == "-" else dict(t.split("=", 1) for t in parts[2].split())
        best = None
        for perm in itertools.permutations(names):
            ren = dict(zip(perm, names))
            objs = []
            for old in perm:
                if old in toks:
                    v = toks[old]
                    # stray markers name objects too
                    v = re.sub(r"^~([a-z]\d+):", lambda m: "~%s:" % ren.get(m.group(1), m.group(1)), v)
                    objs.append("%s=%s" % (ren[old], v))
            objs += ["%s=%s" % (k, v) for k, v in toks.items() if k not in ren]
            cand = canon_state(" | ".join([parts[0], parts[1], " ".join(objs) if objs else "-", parts[3], parts[4]]))
            if best is None or cand < best:
                best = cand
        return best
    return f


# ---------------------------------------------------------------------------
# generators


def c05_alphabet(ns, nw, nu, nalloc, rich=True):
    S = ["s%d" % i for i in range(ns)]
    Wk = ["w%d" % i for i in range(nw)]
    U = ["u%d" % i for i in range(nu)]

    def alpha(last):
        ndata = 0
        if last and "|" in last:
            d = last.split("|")[4].strip()
            ndata = 0 if d == "-" else len(d.split())
        ops = []
        for s in S:
            if ndata < nalloc:
                ops += ["salloc %s 8 1 -" % s, "salloc %s 8 0 -" % s]
            ops += ["salloc %s 8 1 0" % s, "salloc %s 8 1 10" % s, "salloc %s 0 1 -" % s]
            ops += ["sreset " + s]
            if rich:
                ops += ["sget " + s, "sunique " + s]
            for t in S:
                ops.append("sshare %s %s" % (s, t))
                if s <= t:
                    ops.append("sswap %s %s" % (s, t))
            for w_ in Wk:
                ops += ["wfrom %s %s" % (w_, s), "wlock %s %s" % (w_, s)]
        for w_ in Wk:
            ops.append("wreset " + w_)
            for v in Wk:
                if w_ <= v:
                    ops.append("wswap %s %s" % (w_, v))
        for u in U:
            ops += ["ualloc %s 8 1 7 -" % u, "ualloc %s 8 0 0 -" % u, "ualloc %s 8 2 5 0" % u, "ualloc %s 0 1 3 -" % u,
                    "ureset " + u, "urelease " + u]
            if rich:
                ops.append("uget " + u)
            for v in U:
                if u <= v:
                    ops.append("uswap %s %s" % (u, v))
        return ops
    return alpha


def _boundary_sizes(off, ln, nm):
    vals = {0, 1, 2, ln, ln + 1, nm, nm + 1, max(nm - off, 0), max(nm - off, 0) + 1,
            M, M - 1, M - 2, 1 << 63, (1 << 32) + 1, W - off if off else M, (W - off + 1) % W, (W - off + nm) % W}
    if ln:
        vals.add(ln - 1)
    return sorted(v for v in vals if 0 <= v < W)


# element counts / sizes whose byte count cannot be represented or that no allocator satisfies
BAD_ALLOCS = [((1 << 62) + 1, 4), (M, M), (M - 23, 1), (M - 24, 1), (M, 1), (1 << 32, 1 << 32),
              ((1 << 61) + 1, 8), (M // 4, 4), (1 << 40, 1)]


def c14_boundary_scripts():
    """every unrepresentable / unsatisfiable allocation from an empty object, from a whole buffer and
    from a slice with a non-zero offset, followed by size / data / at / slice / a fresh alloc"""
    out = []
    for pre in ([], ["aalloc a0 3 4 -"], ["aalloc a0 3 4 -", "aslice a0 1 3 a0"],
                ["aset a0 E1 3 4 -", "aslice a0 2 3 a1", "aslice a1 0 1 a0"]):
        for n_, s_ in BAD_ALLOCS:
            for plan in ("-", "0", "10"):
                out.append(pre + ["aalloc a0 %s %s %s" % (sym(n_), sym(s_), plan), "asize a0", "adata a0",
                                  "aat a0 0", ])
                out.append(pre + ["aalloc a0 %s %s %s" % (sym(n_), sym(s_), plan), "aslice a0 0 0 a1"])
                out.append(pre + ["aalloc a0 %s %s %s" % (sym(n_), sym(s_), plan), "aalloc a0 2 4 -", "aat a0 1",
                                  "aslice a0 1 2 a0", "aat a0 0", "areset a0", "areset a1"])
    return out


def c14_alphabet(na, nm, rich=True):
    A = ["a%d" % i for i in range(na)]

    def alpha(last):
        views = {}
        if last and "|" in last:
            p = parse_line(last)
            if p:
                for k, v in p["objs"].items():
                    if k[0] == "a":
                        m = re.search(r"\[(\d+),", v["raw"])
                        views[k] = (v["off"], v["len"], int(m.group(1)) if m else 0)
        ops = []
        for a in A:
            off, ln, n_ = views.get(a, (0, 0, 0))
            ops += ["aalloc %s %d 4 -" % (a, nm), "aalloc %s %d 4 0" % (a, nm), "aalloc %s %d 4 10" % (a, nm),
                    "aset %s E1 %d 4 -" % (a, nm), "areset " + a, "arelease " + a]
            if rich:
                ops += ["aalloc %s 0 4 -" % a, "aalloc %s 1 0 -" % a, "aset %s E1 %d 4 10" % (a, nm)]
            # products that cannot be represented / that no allocator satisfies
            for n_sz in (BAD_ALLOCS[:4] if rich else BAD_ALLOCS[:2]):
                ops.append("aalloc %s %s %s -" % (a, sym(n_sz[0]), sym(n_sz[1])))
            if rich:
                ops += ["asize " + a, "adata " + a]
                for i in sorted(set([0, ln - 1 if ln else 0, ln, nm, M, (W - off) % W])):
                    ops.append("aat %s %s" % (a, sym(i)))
            room = max(n_ - off, 0)
            good = [(b_, e_) for e_ in range(room + 1) for b_ in range(e_ + 1)] if n_ or views.get(a) else []
            probes = [(1, 0), (2, 1), (0, room + 1), (room + 1, room + 1), (0, M), (M, M), (M - 1, M),
                      (0, 1 << 63), (M - 2, M)]
            if off:
                probes += [(0, W - off), (W - off, W - off), (W - off, W - off + 1), (0, (W - off + n_) % W),
                           (W - off, (W - off + n_) % W), (W - off + 1, (W - off + n_) % W)]
            for s in A:
                ops.append("aunslice %s %s" % (a, s))
                for beg, end in good + (probes if rich else probes[:4]):
                    if not (0 <= beg < W and 0 <= end < W):
                        continue
                    ops.append("aslice %s %s %s %s" % (a, sym(beg), sym(end), s))
        return ops
    return alpha


def corpus(prop=None):
    """witnesses of former failures; `prop` selects the ones a property's check replays"""
    allc = _corpus()
    if prop == "C05":
        return [sc for sc in allc if not any(op.startswith("a") for op in sc)]
    if prop == "C14":
        return [sc for sc in allc if any(op.startswith("a") for op in sc)]
    return allc


def _corpus():
    return [
        # defect #9 (fixed): re-alloc of a slice kept the view offset
        ["aalloc a0 4 4 -", "aslice a0 2 4 a0", "aalloc a0 2 4 -", "asize a0", "aat a0 0", "aat a0 1"],
        # defect #9 (fixed): failed alloc kept the old length over a NULL descriptor
        ["aalloc a0 4 4 -", "aalloc a0 2 2 0", "asize a0", "aat a0 0"],
        ["aalloc a0 4 4 -", "aalloc a0 2 2 10", "asize a0", "adata a0"],
        # defect #10 (fixed): nm * sz wrapped
        ["aalloc a0 4611686018427387905 4 -", "asize a0", "aat a0 7"],
        ["aalloc a0 M M -", "asize a0"],
        # both factors just above 2^32: the product wraps to a value that is larger than either factor
        # (a guard of the form "wrapped if the product is smaller than a factor" misses it)
        ["aalloc a0 4294967297 4294967297 -", "asize a0", "adata a0"],
        ["aalloc a0 4294967311 4294967299 -", "asize a0"],
        # defect #11 (fixed): off + end wrapped in slice
        ["aalloc a0 4 4 -", "aslice a0 2 4 a0", "aslice a0 M-2 M a1", "asize a1", "aat a1 0"],
        ["aalloc a0 4 4 -", "aslice a0 2 4 a1", "aslice a1 M-2 M a1"],
        # reference counts far beyond anything a counter narrower than size_t can hold
        ["salloc s0 8 1 -", "smany s0 70000", "sunique s0", "wfrom w0 s0", "smany s0 66000", "sunique s0", "sreset s0",
         "wlock w0 s1", "wreset w0"],
        ["salloc s0 8 1 -", "sshare s0 s1", "smany s1 300", "smany s2 5", "sreset s0", "sunique s1", "sreset s1"],
        ["aalloc a0 4 4 -", "amany a0 70000", "aat a0 3", "aslice a0 1 3 a1", "amany a1 66000", "areset a0", "aat a1 1",
         "areset a1"],
        ["aset a0 E1 3 4 -", "amany a0 70000", "arelease a0"],
        # ownership corner cases of C05
        ["salloc s0 8 1 -", "wfrom w0 s0", "wlock w0 s0", "sget s0", "wlock w0 s1", "sreset s1", "wreset w0"],
        ["salloc s0 8 1 -", "sshare s0 s0", "sget s0", "wfrom w0 s0", "wlock w0 s0"],
        ["salloc s0 8 1 -", "salloc s1 8 2 -", "sswap s0 s1", "sshare s0 s1", "sreset s0", "sreset s1"],
        ["salloc s0 8 1 -", "wfrom w0 s0", "wfrom w1 s0", "sreset s0", "wlock w0 s1", "wlock w1 s1", "wreset w0", "wreset w1"],
        ["ualloc u0 8 1 7 -", "ualloc u1 8 2 9 -", "uswap u0 u1", "urelease u0", "ualloc u1 8 1 1 -", "ureset u1"],
        # C20
        ["salloc s0 8 1 -", "rcopy s1 s0", "sget s0", "sreset s1"],
        ["aalloc a0 2 4 -", "rmemcpy a1 a0", "asize a1", "aat a1 0"],
    ]


# ---- C20: the property's own table -----------------------------------------

def _setup(kind, state, x, spare):
    """ops that bring object x (of the given kind) into `state`; `spare` are
    other objects of the pool that may be used.  Returns op list or None."""
    if kind == "g":
        return {"empty": [], "owning": ["gset %s 5" % x]}.get(state)
    if kind == "u":
        return {"empty": [], "owning": ["ualloc %s 8 1 7 -" % x]}.get(state)
    if kind == "s":
        return {"empty": [], "owning": ["salloc %s 8 1 -" % x],
                "shared": ["salloc %s 8 1 -" % x, "sshare %s s9" % x],
                "weak-only": ["salloc %s 8 1 -" % x, "wfrom w5 %s" % x],      # owner is reset after the copy
                "dead": ["salloc %s 8 1 -" % x]}.get(state)
    if kind == "w":
        return {"empty": [], "owning": ["salloc s9 8 1 -", "wfrom %s s9" % x],
                "shared": ["salloc s9 8 1 -", "sshare s9 s8", "wfrom %s s9" % x],
                "weak-only": ["salloc s9 8 1 -", "wfrom %s s9" % x, "sreset s9"],
                "dead": ["salloc s9 8 1 -", "wfrom %s s9" % x]}.get(state)
    if kind == "a":
        return {"empty": [], "owning": ["aalloc %s 3 4 -" % x],
                "shared": ["aalloc %s 3 4 -" % x, "aslice %s 1 2 a5" % x],
                "dead": ["aalloc %s 3 4 -" % x]}.get(state)
    return None


def _after_copy(kind, state, x):
    """ops on the original after the stray copy was made (the original keeps working)"""
    if kind == "s" and state in ("weak-only", "dead"):
        return ["sget " + x, "sreset " + x]
    if kind == "w" and state == "dead":
        return ["sreset s9", "wreset " + x]
    if kind == "a" and state == "dead":
        return ["areset " + x]
    return {"g": ["gget " + x], "u": ["uget " + x], "s": ["sget " + x, "sunique " + x],
            "w": ["wlock %s s7" % x, "sreset s7"], "a": ["asize " + x, "adata " + x]}[kind]


CALLS = [
    # (template, kinds of the object arguments in order)
    ("ginit {0}", "g"), ("gset {0} 9", "g"), ("gget {0}", "g"), ("gcopy {0} {1}", "gg"), ("gswap {0} {1}", "gg"),
    ("uinit {0}", "u"), ("ualloc {0} 8 2 3 -", "u"), ("uget {0}", "u"), ("urelease {0}", "u"),
    ("uswap {0} {1}", "uu"), ("ureset {0}", "u"),
    ("sinit {0}", "s"), ("salloc {0} 8 2 -", "s"), ("sunique {0}", "s"), ("sget {0}", "s"),
    ("sshare {0} {1}", "ss"), ("sswap {0} {1}", "ss"), ("sreset {0}", "s"),
    ("winit {0}", "w"), ("wfrom {0} {1}", "ws"), ("wlock {0} {1}", "ws"), ("wswap {0} {1}", "ww"), ("wreset {0}", "w"),
    ("ainit {0}", "a"), ("asize {0}", "a"), ("aset {0} E1 3 4 -", "a"), ("arelease {0}", "a"),
    ("aalloc {0} 2 4 -", "a"), ("areset {0}", "a"), ("adata {0}", "a"), ("aat {0} 0", "a"), ("aat {0} 9", "a"),
    ("aslice {0} 0 1 {1}", "aa"), ("aslice {0} 0 1 {0}", "a"), ("aunslice {0} {1}", "aa"), ("aunslice {0} {0}", "a"),
]
STATES = {"g": ["empty", "owning"], "u": ["empty", "owning"],
          "s": ["empty", "owning", "shared", "weak-only", "dead"],
          "w": ["empty", "owning", "shared", "weak-only", "dead"],
          "a": ["empty", "owning", "shared", "dead"]}


def c20_table():
    """every public function x argument position x object state x copy kind;
    the co-argument (if any) is a properly initialised object, empty or owning."""
    scripts = []
    for tmpl, kinds in CALLS:
        for pos in range(len(kinds)):
            k = kinds[pos]
            orig, stray = k + "0", k + "1"
            for state in STATES[k]:
                for cp in ("rcopy", "rmemcpy"):
                    co_states = ["empty", "owning"] if len(kinds) == 2 else [None]
                    if len(kinds) == 2 and k in "swa" and state in ("owning", "shared"):
                        co_states.append("same")    # the co-argument refers to the SAME allocation as the original
                    for co_state in co_states:
                        sc = list(_setup(k, state, orig, None))
                        args = [None] * len(kinds)
                        args[pos] = stray
                        if len(kinds) == 2:
                            ck = kinds[1 - pos]
                            co = ck + "2"
                            if co_state == "same":
                                owner = orig if k == "s" else "s9"
                                if k == "a":
                                    sc += ["aslice %s 0 1 %s" % (orig, co)]
                                elif ck == "s":
                                    sc += ["sshare %s %s" % (owner, co)]
                                else:
                                    sc += ["wfrom %s %s" % (co, owner)]
                            else:
                                sc += _setup(ck, co_state, co, None)
                            args[1 - pos] = co
                        sc.append("%s %s %s" % (cp, stray, orig))
                        sc += _after_copy(k, state, orig)
                        call = tmpl.format(*args)
                        sc.append(call)
                        # if the call did not abort (overwrite-only positions), the object is a
                        # proper one now: keep using it and the original
                        sc += _after_copy(k, "empty", stray) if k != "w" else ["wreset " + stray]
                        sc += _after_copy(k, state, orig) if state not in ("weak-only", "dead") else []
                        scripts.append(sc)
    # the original as the co-argument of its own stray copy
    for tmpl, kinds in CALLS:
        if len(kinds) == 2 and kinds[0] == kinds[1]:
            k = kinds[0]
            for state in STATES[k]:
                for order in ((k + "0", k + "1"), (k + "1", k + "0")):
                    sc = list(_setup(k, state, k + "0", None))
                    sc.append("rcopy %s1 %s0" % (k, k))
                    sc.append(tmpl.format(*order))
                    scripts.append(sc)
    # the same stray copy in both argument positions (aliased arguments)
    for tmpl, kinds in CALLS:
        if len(kinds) == 2 and kinds[0] == kinds[1]:
            k = kinds[0]
            for state in STATES[k]:
                for cp in ("rcopy", "rmemcpy"):
                    sc = list(_setup(k, state, k + "0", None))
                    sc.append("%s %s1 %s0" % (cp, k, k))
                    sc.append(tmpl.format(k + "1", k + "1"))
                    scripts.append(sc)
                # and a proper object aliased with itself never aborts
                sc = list(_setup(k, state, k + "0", None))
                sc.append(tmpl.format(k + "0", k + "0"))
                sc += _after_copy(k, state, k + "0") if state not in ("weak-only", "dead") else []
                scripts.append(sc)
    return scripts


# ---- seeded random histories -------------------------------------------------

def random_scripts(rng, count, length, mode, ns=8, nw=4, nu=4, na=4, ng=2, stray=0.0):
    """mode: 'ptr' (C05), 'arr' (C14), 'all' (C20)"""
    S = ["s%d" % i for i in range(ns)]
    Wk = ["w%d" % i for i in range(nw)]
    U = ["u%d" % i for i in range(nu)]
    A = ["a%d" % i for i in range(na)]
    G = ["g%d" % i for i in range(ng)]
    scripts = []
    for _ in range(count):
        ref = Ref()
        sc = []
        for _ in range(length):
            for _try in range(20):
                kind = rng.choice({"ptr": "sssswwu", "arr": "a", "all": "ssswwuaaag"}[mode])
                if stray and rng.random() < stray:
                    pool = {"s": S, "w": Wk, "u": U, "a": A, "g": G}[kind]
                    op = "%s %s %s" % (rng.choice(["rcopy", "rmemcpy"]), rng.choice(pool), rng.choice(pool))
                elif kind == "s":
                    s, t = rng.choice(S), rng.choice(S)
                    op = rng.choice([
                        "salloc %s %d %d %s" % (s, rng.choice([8, 8, 1, 0, 24]), rng.randrange(3),
                                                rng.choice(["-", "-", "-", "-", "0", "10", "11"])),
                        "salloc %s 8 1 -" % s,
                        "sshare %s %s" % (s, t), "sshare %s %s" % (s, t), "sswap %s %s" % (s, t),
                        "sreset " + s, "sget " + s, "sunique " + s, "sinit " + s])
                elif kind == "w":
                    w_, v, s = rng.choice(Wk), rng.choice(Wk), rng.choice(S)
                    op = rng.choice(["wfrom %s %s" % (w_, s), "wfrom %s %s" % (w_, s), "wlock %s %s" % (w_, s),
                                     "wlock %s %s" % (w_, s), "wswap %s %s" % (w_, v), "wreset " + w_, "winit " + w_])
                elif kind == "u":
                    u, v = rng.choice(U), rng.choice(U)
                    op = rng.choice([
                        "ualloc %s %d %d %d %s" % (u, rng.choice([8, 16, 0, 1]), rng.randrange(3), rng.randrange(9),
                                                   rng.choice(["-", "-", "-", "0"])),
                        "uswap %s %s" % (u, v), "ureset " + u, "urelease " + u, "uget " + u, "uinit " + u])
                elif kind == "g":
                    g, h = rng.choice(G), rng.choice(G)
                    op = rng.choice(["gset %s %d" % (g, rng.randrange(1, 9)), "gget " + g, "gcopy %s %s" % (g, h),
                                     "gswap %s %s" % (g, h), "ginit " + g])
                else:
                    a, b = rng.choice(A), rng.choice(A)
                    t = ref.tok.get(a)
                    off, ln = ref.view.get(a, (0, 0)) if t else (0, 0)
                    nm = t.array["nm"] if t else 0
                    bs = _boundary_sizes(off, ln, nm)
                    r = rng.random()
                    if r < 0.18:
                        op = "aalloc %s %d %d %s" % (a, rng.randrange(0, 9), rng.choice([1, 2, 4, 8, 0]),
                                                      rng.choice(["-", "-", "-", "0", "10"]))
                    elif r < 0.22:
                        n_, s_ = rng.choice([((1 << 62) + 1, 4), (M, 1), (M, M), (M - 23, 1), (M - 24, 1),
                                              (1 << 32, 1 << 32), (1 << 40, 1), (M // 8, 8)])
                        op = "aalloc %s %s %s -" % (a, sym(n_), sym(s_))
                    elif r < 0.30:
                        sz = rng.choice([1, 2, 4, 8])
                        op = "aset %s E%d %d %d %s" % (a, rng.choice([1, 2]), rng.randrange(0, EXTSZ // sz + 1), sz,
                                                         rng.choice(["-", "-", "0", "10"]))
                    elif r < 0.55:
                        if ln and rng.random() < 0.7:
                            beg = rng.randrange(0, nm - off + 1)
                            end = rng.randrange(beg, nm - off + 1)
                        else:
                            beg, end = rng.choice(bs), rng.choice(bs)
                        op = "aslice %s %s %s %s" % (a, sym(beg), sym(end), b)
                    elif r < 0.62:
                        op = "aunslice %s %s" % (a, b)
                    elif r < 0.80:
                        i = rng.randrange(0, ln) if ln and rng.random() < 0.7 else rng.choice(bs)
                        op = "aat %s %s" % (a, sym(i))
                    else:
                        op = rng.choice(["areset " + a, "arelease " + a, "adata " + a, "asize " + a, "ainit " + a])
                if ref.enabled(op):
                    break
            else:
                continue
            sc.append(op)
            if ref.apply(op)[0] == "abort":
                # aborting ops end the process: keep them rare in long histories
                if rng.random() < 0.9 and len(sc) < length - 1:
                    sc.pop()
                    # the reference has advanced into the aborted op: rebuild it
                    ref = Ref()
                    for o2 in sc:
                        ref.apply(o2)
                    continue
                break
        scripts.append(sc)
    return scripts


# ---------------------------------------------------------------------------
# C16 (allocation failure): templates for tools/props/C16.py


def c16_templates(tier):
    """fault-enumeration templates (see tools/props/C16.py): shared alloc makes two
    requests (data block, bookkeeping block), unique alloc one, array alloc two"""
    SA = lambda s, sz: ("salloc %s %d 1 {}" % (s, sz), 2)
    UA = lambda u, sz: ("ualloc %s %d 1 7 {}" % (u, sz), 1)
    AA = lambda a, nm: ("aalloc %s %d 4 {}" % (a, nm), 2)
    t1 = [SA("s0", 8), "sget s0", "sunique s0", "sshare s0 s1", "wfrom w0 s0", SA("s0", 16), "sget s0", "sget s1",
          "wlock w0 s2", "sreset s1", "sreset s2", "wlock w0 s2", "wreset w0", SA("s1", 8), "sswap s0 s1",
          "sreset s0", "sreset s1", "sreset s2"]
    t2 = [UA("u0", 8), "uget u0", UA("u0", 16), "uget u0", "uswap u0 u1", UA("u0", 4), "ureset u0", "urelease u1",
          UA("u1", 8), "ureset u1", "ureset u0"]
    t3 = [AA("a0", 4), "asize a0", "aat a0 3", "aslice a0 1 3 a1", AA("a0", 2), "asize a0", "aat a1 1", "aat a0 1",
          AA("a1", 3), "asize a1", "aslice a1 0 2 a1", AA("a1", 1), "aat a1 0", "areset a0", "areset a1"]
    AS = lambda a, nm: ("aset %s E1 %d 4 {}" % (a, nm), 2)
    t4 = [AS("a0", 3), "asize a0", "aat a0 0", "aat a0 2", "aunslice a0 a1", AS("a0", 2), "asize a0", "asize a1", "aat a1 2",
          "arelease a1", "arelease a0", AS("a1", 3), "asize a1", "aat a1 0", "arelease a1", "areset a0", "areset a1"]
    thms = ["Cstl.Mem.run_inv", "Cstl.Mem.no_leak", "Cstl.Mem.free_at_most_once", "Cstl.Mem.step_never_asan",
            "Cstl.Mem.alloc_fail_empty", "Cstl.Mem.run_ainv"]
    return [t1, t2, t3, t4], (lambda sc: "C14" if any(op.split()[0].startswith("a") for op in sc) else "C05"), thms
