"""slist area: src/slist.c  <->  lean/Cstl/SList  (property C13, part of C15)"""
import re

NAME = "slist"
HARNESS_SRCS = ["slist.c"]
REPO_SRCS = ["slist.c", "common.c"]
LEAN_TARGETS = ["Cstl.SList.Props", "m_slist"]
IMPORTS = ["Cstl.SList.Props"]

THEOREMS = {
    "C13": [
        "Cstl.SList.insertAfter_spec",
        "Cstl.SList.eraseAfter_spec",
        "Cstl.SList.pushFront_spec",
        "Cstl.SList.pushBack_spec",
        "Cstl.SList.popFront_spec",
        "Cstl.SList.popFront_empty",
        "Cstl.SList.front_spec",
        "Cstl.SList.back_spec",
        "Cstl.SList.reverse_spec",
        "Cstl.SList.concat_spec",
        "Cstl.SList.swap_spec",
        "Cstl.SList.foreach_spec",
        "Cstl.SList.clear_spec",
        "Cstl.SList.sort_spec",
        "Cstl.SList.refForeach_sound",
        "Cstl.SList.msort_perm",
        "Cstl.SList.msort_sorted",
        "Cstl.SList.walk_spec",
        "Cstl.SList.step_refines",
        "Cstl.SList.run_refines",
        "Cstl.SList.Abs_init",
    ],
    "C15": [
        "Cstl.SList.clear_spec",
    ],
}

TIE_MODULE = "Cstl.SList.Tie"
def _tie_theorems():
    import os
    src = open(os.path.join(os.path.dirname(os.path.dirname(os.path.dirname(os.path.abspath(__file__)))),
                            "lean", "Cstl", "SList", "Tie.lean")).read()
    return ["Cstl.SList.Tie." + n for n in re.findall(r"^theorem\s+(\S+)", src, flags=re.M)]


TIE_THEOREMS = _tie_theorems()

NLISTS = 3


def parse_state(line):
    """'res | [..] t=.. c=.. | ...' -> (res, [(list, t, c), ...]) or None"""
    if line.startswith("STOP") or "|" not in line:
        return None
    parts = [p.strip() for p in line.split("|")]
    res = parts[0]
    ls = []
    for p in parts[1:]:
        m = re.match(r"\[([^\]]*)\] t=(-?\d+) c=(\d+)$", p)
        if not m:
            return None
        xs = [int(x) for x in m.group(1).split(",") if x]
        ls.append((xs, int(m.group(2)), int(m.group(3))))
    return res, ls


# ---------------------------------------------------------------------------
# reference semantics (independent of the Lean model): python lists


class Ref:
    def __init__(self):
        self.ls = [[] for _ in range(NLISTS)]
        self.keys = {}
        # which hook of the elements a list object is anchored at (harness: lists 1, 2 use the
        # first hook, list 3 the second); swap exchanges it with everything else
        self.hook = [0, 0, 1]

    def key(self, e):
        return self.keys.get(e, 0)

    def enabled(self, op):
        """is the call inside the documented domain?"""
        w = op.split()
        o = w[0]
        inlists = set(x for l in self.ls for x in l)
        if o in ("pushf", "pushb"):
            return int(w[2]) not in inlists
        if o == "insa":
            l = self.ls[int(w[1]) - 1]
            return int(w[2]) in l and int(w[3]) not in inlists
        if o == "eraa":
            l = self.ls[int(w[1]) - 1]
            return int(w[2]) in l and l.index(int(w[2])) + 1 < len(l)
        if o == "concat":
            # lists of different element layout cannot be concatenated (the library ignores the call)
            return self.hook[int(w[1]) - 1] == self.hook[int(w[2]) - 1]
        if o == "bigsort":
            return len(self.ls[int(w[1]) - 1]) == 0
        if o == "foreachmv":
            return w[1] != w[3] and self.hook[int(w[1]) - 1] == self.hook[int(w[3]) - 1]
        return True

    def apply(self, op):
        """returns the expected result string (None = unspecified)"""
        w = op.split()
        o = w[0]
        if o == "keys":
            self.keys = {10 + i: int(k) for i, k in enumerate(w[1:])}
            return "ok"
        l = self.ls[int(w[1]) - 1]
        if o == "bigsort":
            # checked step by step inside the harness; the list is empty again afterwards
            return "bigsort"
        if o == "pushf":
            l.insert(0, int(w[2])); return "ok"
        if o == "pushb":
            l.append(int(w[2])); return "ok"
        if o == "insa":
            l.insert(l.index(int(w[2])) + 1, int(w[3])); return "ok"
        if o == "eraa":
            return str(l.pop(l.index(int(w[2])) + 1))
        if o == "popf":
            return str(l.pop(0)) if l else "0"
        if o == "front":
            return str(l[0]) if l else "0"
        if o == "back":
            return str(l[-1]) if l else "0"
        if o == "rev":
            l.reverse(); return "ok"
        if o == "sort":
            l.sort(key=self.key)    # python's sort is stable; stability is not required by the property
            return "ok"
        if o == "concat":
            s = self.ls[int(w[2]) - 1]
            l.extend(s); del s[:]; return "ok"
        if o == "swap":
            i, j = int(w[1]) - 1, int(w[2]) - 1
            self.ls[i], self.ls[j] = self.ls[j], self.ls[i]
            self.hook[i], self.hook[j] = self.hook[j], self.hook[i]; return "ok"
        if o == "foreach":
            k = int(w[2])
            if 0 <= k < len(l):
                return "%d [%s]" % (-3 if k % 2 else 7, ",".join(map(str, l[:k + 1])))
            return "0 [%s]" % ",".join(map(str, l))
        if o == "foreachmv":
            k = int(w[2]); dst = self.ls[int(w[3]) - 1]
            vis = l[:k + 1] if 0 <= k < len(l) else list(l)
            for e in vis:
                l.remove(e)
                dst.append(e)
            stopped = 0 <= k < len(vis)
            return "%d [%s]" % ((-3 if k % 2 else 7) if stopped else 0, ",".join(map(str, vis)))
        if o == "clear":
            r = sorted(l)
            del l[:]
            return ("clear", r)
        return None


def oracle(prop, script, c_lines):
    """Independent reading of C13 (and the slist part of C15) on the real
    code's output.  Returns a description of the first failure or None."""
    ref = Ref()
    for i, op in enumerate(script):
        if not ref.enabled(op):
            return None     # outside the documented domain: nothing to say
        if i >= len(c_lines):
            return "op %d '%s': no output from the implementation" % (i, op)
        line = c_lines[i]
        exp = ref.apply(op)
        if line.startswith("STOP"):
            return "op %d '%s': implementation stopped with '%s'" % (i, op, line)
        st = parse_state(line)
        if st is None:
            return "op %d '%s': unparsable implementation output '%s'" % (i, op, line)
        res, ls = st
        o = op.split()[0]
        if isinstance(exp, tuple):
            m = re.match(r"\[([^\]]*)\] p=(\d)$", res)
            if not m:
                return "op %d '%s': unparsable clear result '%s'" % (i, op, res)
            got = sorted(int(x) for x in m.group(1).split(",") if x)
            if got != exp[1]:
                return "op %d '%s': clear callbacks %s, contained elements %s" % (i, op, got, exp[1])
            if m.group(2) != "1":
                return "op %d '%s': an element was written after its clear callback" % (i, op)
        elif o == "sort":
            pass
        elif o == "bigsort":
            if not res.startswith("ok ck="):
                w_ = op.split()
                return ("op %d '%s': sorting a list of %s elements (keys below %s): %s"
                        % (i, op, w_[2], w_[3], res))
        elif exp is not None and res != exp:
            return "op %d '%s': result '%s', reference '%s'" % (i, op, res, exp)
        for k, (xs, t, c) in enumerate(ls):
            want = ref.ls[k]
            if o == "sort" and k == int(op.split()[1]) - 1:
                if sorted(xs) != sorted(want) or any(ref.key(a) > ref.key(b) for a, b in zip(xs, xs[1:])):
                    return "op %d '%s': list %d is %s, not an ordered permutation of %s" % (i, op, k + 1, xs, want)
                ref.ls[k] = list(xs)
                want = xs
            if xs != want:
                return "op %d '%s': list %d traverses as %s, reference %s" % (i, op, k + 1, xs, want)
            if c != len(want):
                return "op %d '%s': list %d size %d, reference %d" % (i, op, k + 1, c, len(want))
            last = want[-1] if want else k + 1
            if t != last:
                return "op %d '%s': list %d tail is %d, true last is %d" % (i, op, k + 1, t, last)
    return None


# ---------------------------------------------------------------------------
# generators


def _ops_for(ref, elems, rich=True):
    """all enabled operations in scope for the reference state"""
    inlists = set(x for l in ref.ls for x in l)
    free = [e for e in elems if e not in inlists]
    ops = []
    for li in range(1, NLISTS + 1):
        l = ref.ls[li - 1]
        for e in free[:1]:      # free elements are interchangeable up to renaming: take the first
            ops += ["pushf %d %d" % (li, e), "pushb %d %d" % (li, e)]
            for b in l:
                ops.append("insa %d %d %d" % (li, b, e))
        for b in l[:-1]:
            ops.append("eraa %d %d" % (li, b))
        ops += ["popf %d" % li, "rev %d" % li, "clear %d" % li]
        if rich:
            ops += ["front %d" % li, "back %d" % li, "sort %d" % li]
            ops += ["foreach %d %d" % (li, k) for k in ([-1] + list(range(len(l))))]
        for lj in range(1, NLISTS + 1):
            if lj != li:
                if ref.hook[li - 1] == ref.hook[lj - 1]:
                    ops.append("concat %d %d" % (li, lj))
                if li < lj:
                    ops.append("swap %d %d" % (li, lj))
    return ops


def ref_after(script):
    ref = Ref()
    for op in script:
        ref.apply(op)
    return ref


def moving_visitor_scripts():
    """implementation-only scripts: a traversal whose visit function moves every element it is shown to
    the end of another list (with and without an early stop)"""
    out = []
    for n in (1, 2, 3, 5, 7):
        fill = ["pushb 1 %d" % (10 + i) for i in range(n)]
        for other in ([], ["pushb 2 30"]):
            for stop in sorted(set([-1, 0, n // 2, n - 1])):
                out.append(fill + other + ["foreachmv 1 %d 2" % stop, "pushb 1 40", "pushb 2 41", "back 1", "back 2",
                                           "foreach 2 -1", "foreach 1 -1"])
    return out


def sort_pattern_scripts():
    """sorts of structured inputs of 2..24 elements: two ascending runs with the second entirely below
    the first (rotations of a sorted sequence at every split point), reversed, sawtooth, all equal,
    organ pipe - then the tail is used (a merge sort that special-cases such inputs is a classic)"""
    out = []
    for n in list(range(2, 17)) + [20, 24]:
        base = list(range(1, n + 1))
        pats = [list(reversed(base)), [1] * n, [k % 3 for k in range(n)],
                [min(k, n - 1 - k) for k in range(n)], base]
        pats += [base[k:] + base[:k] for k in sorted(set([1, n // 2, (n + 1) // 2, n - 1]))]
        for keys in pats:
            out.append(["keys " + " ".join(map(str, keys))] + ["pushb 1 %d" % (10 + i) for i in range(n)]
                       + ["sort 1"] + ['back 1', 'pushb 1 40', 'back 1', 'foreach 1 -1'])
    return out


def bigsort_scripts(rng, quick):
    """long lists: a sort is judged element by element inside the harness (lengths around
    powers of two and in between; the small-scope closures stay below 6 elements)"""
    sizes = [1024, 1500, 4096, 5000] if quick else [1024, 2047, 2048, 4096, 4097, 6144, 8192, 20000, 33000, 65536, 70000]
    out = []
    for j, n in enumerate(sizes):
        out.append(["bigsort %d %d %d %d" % (1 + j % 3, n, (7, 1000, 2, 100000)[j % 4], rng.randrange(1 << 30)),
                    "pushb 1 10", "back 1"])
    return out


def corpus():
    return [
        # defect #8 (fixed): pop_front on an empty list
        ["popf 1", "pushb 1 10", "popf 1", "popf 1", "pushb 1 11", "back 1"],
        ["pushb 1 10", "pushb 1 11", "eraa 1 10", "pushb 1 12", "back 1"],
        ["pushb 1 10", "pushb 1 11", "pushb 1 12", "rev 1", "pushb 1 13"],
        ["pushb 1 10", "swap 1 2", "pushb 1 11", "pushb 2 12", "concat 1 2", "pushb 2 13", "pushb 1 14"],
        ["keys 2 1 2 1 0", "pushb 1 10", "pushb 1 11", "pushb 1 12", "pushb 1 13", "pushb 1 14", "sort 1", "pushb 1 15"],
        # lists anchored at different hooks of the elements meet in swap
        ["pushb 1 10", "pushb 1 11", "pushb 3 12", "swap 1 3", "pushb 1 13", "pushf 3 14", "back 3", "swap 2 3", "concat 2 3", "rev 1", "rev 2", "pushb 2 15"],
        ["pushb 1 10", "swap 1 3", "front 3", "popf 3", "swap 3 1", "pushb 3 11", "concat 1 2", "popf 3"],
    ]


def exhaustive_scripts(nelem, nlists, depth):
    """every in-domain operation sequence of the given depth over `nlists` lists
    and `nelem` elements, built level by level from the reference semantics,
    pruned to one representative per reference state (lists contents)."""
    elems = [10 + i for i in range(nelem)]
    keyline = "keys " + " ".join(str((i * 2) % 3) for i in range(nelem))
    seen = {}
    frontier = [[keyline]]
    out = []
    for _ in range(depth):
        nxt = []
        for path in frontier:
            ref = ref_after(path)
            ops = [o for o in _ops_for(ref, elems)
                   if all(int(x) <= nlists for x in o.split()[1:2])
                   and (o.split()[0] not in ("concat", "swap") or int(o.split()[2]) <= nlists)]
            for op in ops:
                sc = path + [op]
                out.append(sc)
                r2 = ref_after(sc)
                key = repr((r2.ls, r2.hook[:nlists]))
                if key not in seen:
                    seen[key] = True
                    nxt.append(sc)
        frontier = nxt
        if not frontier:
            break
    return out, len(seen), not frontier


def random_scripts(rng, count, length, nelem):
    elems = [10 + i for i in range(nelem)]
    scripts = []
    for _ in range(count):
        ref = Ref()
        sc = ["keys " + " ".join(str(rng.randrange(4)) for _ in range(nelem))]
        ref.apply(sc[0])
        for _ in range(length):
            ops = _ops_for(ref, rng.sample(elems, len(elems)))
            # weight towards growth so that long lists appear
            grow = [o for o in ops if o.split()[0] in ("pushf", "pushb", "insa")]
            op = rng.choice(grow) if grow and rng.random() < 0.45 else rng.choice(ops)
            sc.append(op)
            ref.apply(op)
        scripts.append(sc)
    return scripts
