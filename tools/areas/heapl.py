"""heapl area: LINK-LEVEL model of all of src/heap.c  <->  lean/Cstl/HeapL
(pointer level of property C07: the bit-path walk of cstl_heap_find through the l/r links, the
attach at the slot computed from size, the sift-up loop navigating through the parent links, the
unlink of the last slot, the move of the last node to the root position with the relinking of its
neighbours, the sift-down loop with the C tie rules, clear through the bintree traversal).

The harness, the operation lines, the generators and the independent oracle are those of the
`heap` area (tools/areas/heap.py, harness/heap.c); the model driver is `m_heapl`, which executes
one Lean update per C assignment on link memories and prints the state by walking the link
fields exactly like `dump()` of the harness (level order with ids, every parent link checked).

  link_level_run(chk)   audit of the link-level theorems + exact correspondence of m_heapl with
                        the real code on the C07 closures / histories / random scripts
  tie_run(chk)          translator ties: cstl_fls, cstl_heap_find, the push and pop loops are
                        re-translated from the current source (tools/c2lean_heap.py) and the fixed
                        equalities `translation = model` of lean/Cstl/HeapL/Tie.lean re-checked
"""
import os
import random
import re
import sys

if __name__ == "__main__":      # stand-alone run: make `areas` / `vlib` importable
    sys.path.insert(0, os.path.dirname(os.path.dirname(os.path.abspath(__file__))))

from areas import heap

NAME = "heapl"
HARNESS_SRCS = heap.HARNESS_SRCS
REPO_SRCS = heap.REPO_SRCS
LEAN_TARGETS = ["Cstl.HeapL.Props", "m_heapl"]
IMPORTS = ["Cstl.HeapL.Props"]

_H = "Cstl.HeapL."

THEOREMS = {"C07": []}     # filled in below: every `theorem` of lean/Cstl/HeapL/Props.lean

TIE_MODULE = "Cstl.HeapL.Tie"

oracle = heap.oracle
corpus = heap.corpus
in_domain = heap.in_domain

_LEAN = os.path.join(os.path.dirname(os.path.dirname(os.path.dirname(os.path.abspath(__file__)))), "lean")


def _theorems_of(relpath, ns):
    p = os.path.join(_LEAN, relpath)
    if not os.path.exists(p):
        return []
    return [ns + n for n in re.findall(r"^theorem\s+(\S+)", open(p).read(), flags=re.M)]


# every `theorem` of Props.lean is a property theorem (helper lemmas live in the other files)
THEOREMS["C07"] = _theorems_of("Cstl/HeapL/Props.lean", _H)
assert set(THEOREMS["C07"]) >= set(_H + n for n in (
    "heap_find_refines", "heap_find_level_order", "heap_push_refines", "heap_pop_refines", "heap_get_refines",
    "heap_clear_refines", "heap_step_refines", "heap_runL_refines", "heap_history_refines",
    "heap_parent_links_ok", "heap_history_max")) or not THEOREMS["C07"]

# translator ties (tools/c2lean_heap.py -> Cstl/Gen/HeapC.lean; fixed equalities in Cstl/HeapL/Tie.lean)
TIE_AREA = "heapl_all"
TIE_THEOREMS = ["Cstl.HeapL.Tie." + n for n in (
    "fls_loop_tie", "fls_tie", "find_loop_tie", "find_tie", "promote_tie", "get_tie",
    "push_loop_tie", "push_tie", "pop_loop_tie", "pop_tie")]

# quick / thorough scope of the correspondence (same closures and histories as tools/props/C07.py)
SCOPE = {
    "quick": dict(max_n=7, nprio=3, hist=6, fls=500, rnd=(8, 3000, 150), big=(2, 6000, 1000), clear=9),
    "thorough": dict(max_n=9, nprio=3, hist=8, fls=5000, rnd=(24, 3000, 150), big=(8, 20000, 1000), clear=33),
}


def pointer_corpus():
    """pointer-level cases on top of heap.corpus(): promote at the root and below it on either side,
    the last node being the root's child / a grandchild on either side when it is moved to the root,
    sift-down to the left / right / stopping at once, every shape of the last level up to 15 nodes"""
    out = []
    for n in range(1, 16):
        # ascending keys: every push sifts all the way up through the parent links
        out.append(["push %d %d" % (k, k) for k in range(1, n + 1)] + ["pop"] * (n + 1))
        # descending keys: no push sifts; every pop sifts the moved node all the way down
        out.append(["push %d %d" % (n + 1 - k, k) for k in range(1, n + 1)] + ["pop"] * (n + 1))
        # equal keys: no promotion at all, the moved node stays at the root
        out.append(["push 5 %d" % k for k in range(1, n + 1)] + ["pop"] * (n + 1))
    # the moved node goes down the right spine / the left spine
    out.append(["push 9 1", "push 3 2", "push 8 3", "push 1 4", "push 2 5", "push 7 6", "push 6 7",
                "pop", "pop", "pop", "pop", "pop", "pop", "pop", "pop"])
    out.append(["push 9 1", "push 8 2", "push 3 3", "push 7 4", "push 6 5", "push 1 6", "push 2 7",
                "pop", "pop", "pop", "pop", "pop", "pop", "pop", "pop"])
    # reuse of popped elements (stale link fields of a popped node are overwritten by push)
    out.append(["push 1 1", "push 2 2", "push 3 3", "pop", "pop", "pop", "push 2 3", "push 3 2", "push 1 1",
                "pop", "push 5 2", "pop", "pop", "pop", "pop"])
    # clear of every small shape, then reuse
    for n in range(0, 8):
        out.append(["push %d %d" % ((3 * k) % 5, k) for k in range(1, n + 1)] + ["clear", "size", "get", "pop"]
                   + ["push %d %d" % (k % 3, k) for k in range(1, n + 2)] + ["pop"] * (n + 2))
    return out


def driver_selftest(chk, m_exe, rng):
    """the driver re-tabulates only the addresses an operation can have written; `mode full`
    re-tabulates every address: both must print the same lines"""
    import vlib
    scripts = heap.random_scripts(rng, 6, 600, 60) + pointer_corpus()
    fast, _ = vlib.run_exe(m_exe, scripts)
    full, _ = vlib.run_exe(m_exe, [["mode full"] + sc for sc in scripts])
    for sc, a, b in zip(scripts, fast, full):
        if a != b[1:]:
            i = vlib.first_diff(a, b[1:])
            chk.build_problems.append(("m_heapl driver self-test (incremental vs full tabulation of the link memories)",
                                       "differs at op %d '%s': %s  /  %s" % (i, sc[i] if i < len(sc) else "?",
                                                                            a[i] if i < len(a) else "<missing>",
                                                                            b[1 + i] if 1 + i < len(b) else "<missing>")))
            return False
    return True


def _minimise_and_probe(chk, me, c_exe, m_exe):
    """only the correspondence broke: minimise the difference and look for a failing input of the
    property itself around it (drain; push one of each priority and drain)"""
    import vlib
    mine = [m for m in chk.mismatches if m["area"] == NAME]
    if not mine or chk.oracle_failures:
        return
    m = mine[0]
    small = vlib.minimise(me, c_exe, m_exe, m["script"], heap.in_domain)
    m["minimised"] = small
    n = sum(1 for op in small if op.startswith("push"))
    drain = ["pop"] * (n + 2)
    near = [small + drain, small + ["get", "size"] + drain]
    for k in (0, 1, 2, 3):
        near.append(small + ["push %d 3990" % k] + drain)
        near.append(small + ["push %d 3990" % k, "push %d 3991" % (2 - k if k < 3 else 0)] + drain)
    base = m["script"]
    near.append(base + ["pop"] * (sum(1 for op in base if op.startswith("push")) + 2))
    vlib.run_scripts(chk, me, c_exe, m_exe, [s for s in near if heap.in_domain(s)], oracle)


def link_level_run(chk, c_exe=None):
    """Pointer-level part of C07: axiom audit of the link-level theorems and exact correspondence
    (results, size, level-order dump with ids and keys, completeness flag, links marker) between the
    real code and `m_heapl` on the heap area's corpus, the C07 closure (every operation from every
    state), every drained transition, all histories of a fixed length and seeded random histories.
    Records into `chk`; does not call chk.finish().  Returns False if nothing could be run."""
    import vlib
    me = sys.modules[__name__]
    p = SCOPE[chk.tier]
    n_mis = len(chk.mismatches)
    if c_exe is None:
        c_exe, m_exe = vlib.prepare_area(chk, me, leanchecker=True)
    else:
        # the harness of the heap area is this area's harness: build the Lean side only
        ok, out = vlib.lake_build(LEAN_TARGETS)
        if not ok:
            errs = [l for l in out.split("\n") if "error" in l][:5]
            chk.build_problems.append(("lake build %s" % " ".join(LEAN_TARGETS), " | ".join(errs) or out[-500:]))
        for h in vlib.grep_forbidden(IMPORTS + ["Cstl.HeapL.Main"]):
            if h not in chk.forbidden:
                chk.forbidden.append(h)
        chk.theorems.update(vlib.audit(THEOREMS["C07"], IMPORTS, leanchecker=chk.tier == "thorough"))
        m_exe = vlib.model_exe(NAME)
        if not os.path.exists(m_exe):
            m_exe = None
    if not c_exe or not m_exe:
        return False
    # own random stream: does not disturb the histories the functional check draws from chk.rng
    rng = random.Random((chk.seed << 12) ^ 0x4ea91)
    driver_selftest(chk, m_exe, rng)
    vlib.run_scripts(chk, me, c_exe, m_exe, heap.corpus() + pointer_corpus(), oracle)
    transitions = []

    def recording_oracle(prop, script, c_lines):
        transitions.append(script)
        return oracle(prop, script, c_lines)

    closed = vlib.closure(chk, NAME, c_exe, m_exe, [], heap.closure_alphabet(p["max_n"], p["nprio"]),
                          max_depth=40, max_states=20000, oracle=recording_oracle, state_of=heap.closure_state)
    vlib.run_scripts(chk, me, c_exe, m_exe,
                     [heap.drained(sc) for sc in transitions if sc[-1].split()[0] in ("push", "pop", "clear")],
                     oracle)
    vlib.run_scripts(chk, me, c_exe, m_exe, heap.all_histories(p["hist"], 3), oracle)
    vlib.run_scripts(chk, me, c_exe, m_exe, heap.fls_scripts(rng, p["fls"]), oracle)
    rnd = heap.random_scripts(rng, *p["rnd"])
    rnd += heap.random_scripts(rng, *p["big"], nprios=(0, 5, 40))
    vlib.run_scripts(chk, me, c_exe, m_exe, rnd, oracle)
    vlib.run_scripts(chk, me, c_exe, m_exe, heap.clear_scripts(rng, p["clear"]), oracle)
    chk.extra["link_level"] = {
        "model": "lean/Cstl/HeapL/Model.lean (one update per C assignment on p/l/r memories: find, push with the "
                 "sift-up loop, pop with unlink / move to root / sift-down loop, clear traversal; driver m_heapl)",
        "scope": "closure <=%d elements over %d priorities (closed=%s), every transition drained, all histories of "
                 "length %d, %d seeded random histories up to 1000 live elements, clear of every size <=%d"
                 % (p["max_n"], p["nprio"], closed, p["hist"], len(rnd), p["clear"]),
        "mismatches": len(chk.mismatches) - n_mis,
    }
    if len(chk.mismatches) > n_mis:
        _minimise_and_probe(chk, me, c_exe, m_exe)
    return True


def standalone_verdict(chk):
    """verdict of a stand-alone run: same rule as vlib.Check.finish, but nothing is written to
    /verif/evidence or /verif/replays (those belong to the registered check of C07)"""
    import json
    bad_thm = [(t, d) for t, (ok, d) in sorted(chk.theorems.items()) if not ok]
    rc = 0
    for f in chk.oracle_failures[:5]:
        print("VIOLATION property=C07 (heapl stand-alone) failing-input ops=%s oracle=%s"
              % (json.dumps(f["script"][:60]), f["what"]))
        rc = 1
    if not chk.oracle_failures:
        for m in chk.mismatches[:1]:
            print("VIOLATION property=C07 (heapl stand-alone) no-failing-input-found: correspondence of area %s "
                  "differs at op %d of %s: impl=%r model=%r"
                  % (m["area"], m["index"], json.dumps(m.get("minimised") or m["script"][:60]), m["impl"][:200], m["model"][:200]))
            rc = 1
        for t, d in bad_thm:
            print("VIOLATION property=C07 (heapl stand-alone) no-failing-input-found: theorem %s: %s" % (t, d))
            rc = 1
        for h in chk.forbidden:
            print("VIOLATION property=C07 (heapl stand-alone) escape hatch: %s" % (h,))
            rc = 1
        for b in chk.build_problems:
            print("VIOLATION property=C07 (heapl stand-alone) build: %s: %s" % b)
            rc = 1
    if rc == 0:
        print("OK heapl tier=%s seed=%d theorems=%d/%d scripts=%d ops=%d mismatches=%d translator=%s"
              % (chk.tier, chk.seed, sum(1 for ok, _ in chk.theorems.values() if ok), len(chk.theorems),
                 chk.stats["scripts"], chk.stats["evaluations"], len(chk.mismatches),
                 json.dumps(chk.extra.get("translator", {}).get(TIE_AREA, {}))))
    return rc


def run_check(chk):
    """stand-alone link-level check of C07 (what tools/props/C07.py should call, plus a verdict)"""
    import vlib
    vlib.HARNESS_ENV["H_SCRIPT_TIMEOUT"] = "30"
    link_level_run(chk)
    tie_run(chk)
    return standalone_verdict(chk)


def replay(path):
    """replay a recorded input on the real code and on the link-level model"""
    import json
    import vlib
    me = sys.modules[__name__]
    r = json.load(open(path))
    chk = vlib.Check("C07", "quick", 0)
    c_exe, m_exe = vlib.prepare_area(chk, me, theorems=[])
    d = r.get("detail") or {}
    ops = r.get("ops") or d.get("minimised") or d.get("script")
    if not ops or not c_exe or not m_exe:
        print("nothing to replay (no operation list in %s)" % path)
        return 2
    c, m = vlib.run_pair(c_exe, m_exe, [ops], jobs=1)
    for op, a, b in zip(ops, c[0] + ["<missing>"] * len(ops), m[0] + ["<missing>"] * len(ops)):
        print("%-20s impl : %s\n%-20s model: %s" % (op, a[:300], "", b[:300]))
    w = oracle("C07", ops, c[0])
    print("oracle:", w or "property holds on this input")
    return 1 if w else 0


def tie_run(chk):
    """Translator ties of C07's pointer level: `cstl_fls` (src/common.c) and `cstl_heap_find`,
    `cstl_heap_promote_child`, `cstl_heap_push`, `cstl_heap_get`, `cstl_heap_pop` (src/heap.c) are
    re-translated from the current source by tools/c2lean_heap.py, the translation is compiled in a
    scratch directory that shadows the committed lean/Cstl/Gen/HeapC.lean, and the fixed theorems
    `translation = model` of lean/Cstl/HeapL/Tie.lean are re-checked by the kernel against it, with
    the axiom audit (vlib.translator_tie does the work; the area is registered here, at run time)."""
    import vlib
    import c2lean
    import c2lean_heap
    c2lean.AREAS[TIE_AREA] = dict(src="heap.c + common.c", module=c2lean_heap.MODULE,
                                  custom=lambda repo: c2lean_heap.translate(repo))
    ok, out = vlib.lake_build(["Cstl.HeapL.Tie"])
    if not ok:
        errs = [l for l in out.split("\n") if "error" in l][:5]
        # the committed copy may simply be out of date; the check below uses the regenerated one
        chk.notes.append("lake build Cstl.HeapL.Tie (against the committed Cstl/Gen/HeapC.lean): " + (" | ".join(errs) or out[-300:]))
    for h in vlib.grep_forbidden([TIE_MODULE]):
        if h not in chk.forbidden:
            chk.forbidden.append(h)
    vlib.translator_tie(chk, TIE_AREA, TIE_MODULE, TIE_THEOREMS)
    rep = chk.extra.get("translator", {}).get(TIE_AREA, {})
    for fn, st in sorted(rep.items()):
        if not st.startswith("translated"):
            # a function the translator can no longer read: its tie theorems cannot check
            chk.notes.append("c2lean_heap: %s %s" % (fn, st))
    return True


if __name__ == "__main__":
    # python3 tools/areas/heapl.py [quick|thorough]   (stand-alone run; honours VERIF_SEED / VERIF_REPO)
    import vlib
    tier = sys.argv[1] if len(sys.argv) > 1 else "quick"
    chk = vlib.Check("C07", tier, int(os.environ.get("VERIF_SEED", "0")))
    rc = run_check(chk)
    vlib.cleanup()
    sys.exit(rc)
