"""treel area: LINK-LEVEL model of src/bintree.c and src/rbtree.c  <->  lean/Cstl/TreeL
(pointer level of properties C01 and C02: parent / child links, the upward
navigation of the red-black fix-up loops, the stack-local stand-in node).

The harness, the operation lines, the generators and the independent oracles
are those of the `tree` area (tools/areas/tree.py, harness/tree.c); the model
driver is `m_treel`, which executes one Lean update per C assignment on link
memories and prints the state by walking the link fields.  The map is not
modelled at link level: scripts containing `map` lines are left out."""
import random
import sys

from areas import tree

NAME = "treel"
HARNESS_SRCS = tree.HARNESS_SRCS
REPO_SRCS = tree.REPO_SRCS
LEAN_TARGETS = ["Cstl.TreeL.Props", "m_treel"]
IMPORTS = ["Cstl.TreeL.Props"]

_T = "Cstl.TreeL."

THEOREMS = {
    "C01": [_T + n for n in (
        # abstraction: what IsTree says about the links; the driver's dump is the represented tree
        "parent_links_ok", "readTree_spec",
        # link-mutating primitives of bintree.c: IsTree ... t  ->  IsTree ... t', with frame
        "rotate_left_refines", "rotate_right_refines", "attach_leaf_refines",
        "erase_surgery_one_child", "erase_surgery_two_children",
        # loops: find / insert (with and without hint) / erase refine the functional model
        "find_refines", "bintree_insert_refines", "bintree_insert_hint_refines", "bintree_erase_refines",
        # histories (the step functions the driver executes) and the parent links after every operation
        "bt_history_refines", "bt_parent_links_ok",
    )],
    "C02": [_T + n for n in (
        "parent_links_ok", "rotate_left_refines", "rotate_right_refines",
        # the fix-up loops (upward navigation through the parent links, stack-local stand-in node)
        "rb_fix_insertion_loop_refines", "rb_fix_deletion_loop_refines",
        "rb_insert_refines", "rb_insert_hint_refines", "rb_erase_refines", "rb_erase_refines_inv",
        "rb_history_refines", "rb_history_no_stop", "rb_parent_links_ok", "rb_history_dump",
    )],
    # pointer level of the heap's promote_child (the step Cstl/Heap/Model.lean abstracts)
    "C07": [_T + n for n in ("heap_promote_child_refines", "parent_links_ok")],
}

# translator tie (tools/c2lean.py, AREAS["treel"]): __cstl_bintree_rotate and the link surgery of
# __cstl_bintree_erase are regenerated from the C AST on every run and `generated = model` is re-checked
TIE_MODULE = "Cstl.TreeL.Tie"


def _tie_theorems():
    import os
    import re
    src = open(os.path.join(os.path.dirname(os.path.dirname(os.path.dirname(os.path.abspath(__file__)))),
                            "lean", "Cstl", "TreeL", "Tie.lean")).read()
    return ["Cstl.TreeL.Tie." + n for n in re.findall(r"^theorem\s+(\S+)", src, flags=re.M)]


TIE_THEOREMS = _tie_theorems()
# cstl_heap_promote_child (src/heap.c, c2lean AREAS["heapl"])
TIE_HEAP_MODULE = "Cstl.TreeL.TieHeap"
TIE_HEAP_THEOREMS = ["Cstl.TreeL.TieHeap.promoteChild_tie"]

oracle = tree.oracle


def _no_map(scripts):
    return [sc for sc in scripts if not any(op.split()[:1] == ["map"] for op in sc)]


def corpus(prop=None):
    """the hand-written cases of the tree area (every erase case of the property text, boundary
    keys) plus pointer-level cases: rotations at the root and below it in both directions, the
    successor-is-right-child erase, erase through the stand-in node on both sides, arbitrary hints"""
    out = _no_map(tree.corpus(prop))
    for c in ("bt", "rb"):
        out += [
            # left-left, left-right, right-right, right-left insert fix-ups at the root and below
            [c + " ins 1 30", c + " ins 2 20", c + " ins 3 10", c + " ins 4 15", c + " ins 5 12", c + " ins 6 40",
             c + " ins 7 50", c + " ins 8 45", c + " ins 9 42", c + " ins 10 5", c + " ins 11 1", c + " show"],
            # erase: successor is the right child (root and inner), successor deeper, black leaf on either side
            [c + " ins 1 50", c + " ins 2 30", c + " ins 3 70", c + " ins 4 20", c + " ins 5 40", c + " ins 6 60",
             c + " ins 7 80", c + " erase 50", c + " erase 30", c + " ins 8 65", c + " erase 60", c + " erase 20",
             c + " erase 80", c + " erase 70", c + " erase 40", c + " erase 65", c + " erase 65"],
            [c + " ins 1 50", c + " ins 2 30", c + " ins 3 70", c + " ins 4 20", c + " ins 5 40", c + " ins 6 60",
             c + " ins 7 80", c + " erase 80", c + " erase 60", c + " erase 70", c + " insat 8 35 5",
             c + " insatr 45 0", c + " insatr 10 2", c + " erase 20", c + " erase 50", c + " clear", c + " ins 1 1"],
        ]
    return out


def _minimise_and_probe(chk, me, c_exe, m_exe, prop):
    import vlib
    mine = [m for m in chk.mismatches if m["area"] == NAME]
    if not mine or chk.oracle_failures:
        return
    m = mine[0]
    small = vlib.minimise(me, c_exe, m_exe, m["script"])
    m["minimised"] = small
    probes = [p for p in tree._probe_ops(prop) if not p.startswith("map")]
    near = [small + [a] for a in probes] + [small[:-1] + [a, small[-1]] for a in probes]
    vlib.run_scripts(chk, me, c_exe, m_exe, near, oracle)


def link_level_run(chk, c_exe=None):
    """Pointer-level part of C01 / C02: axiom audit of the link-level theorems and exact
    correspondence (results, size, shape with ids and colours, links marker) between the real
    code and `m_treel` on the tree area's corpus, closures and seeded random histories.
    Records into `chk`; does not call chk.finish().  Returns False if nothing could be run."""
    import vlib
    me = sys.modules[__name__]
    prop = chk.prop
    p = tree.SCOPE[prop][chk.tier]
    n_mis = len(chk.mismatches)
    if c_exe is None:
        c_exe, m_exe = vlib.prepare_area(chk, me, leanchecker=True)
    else:
        _, m_exe = vlib.prepare_area(chk, me, leanchecker=True)
    vlib.translator_tie(chk, "treel", TIE_MODULE, TIE_THEOREMS)
    if not c_exe or not m_exe:
        return False
    vlib.run_scripts(chk, me, c_exe, m_exe, corpus(prop), oracle)
    closed = True
    for (c, nmax, keys) in p["closures"]:
        ok = vlib.closure(chk, NAME, c_exe, m_exe, [], tree.tree_alphabet(c, keys, nmax), p["depth"], p["states"],
                          oracle, state_of=lambda l: tree.strip_ids(l.split("|", 1)[1]) if "|" in l else l)
        closed = closed and ok
    # own random stream: does not disturb the histories the functional check draws from chk.rng
    rng = random.Random((chk.seed << 12) ^ (0x7ee1 if prop == "C01" else 0x7ee2))
    conts = ("bt", "rb") if prop == "C01" else ("rb",)
    rnd = []
    for c in conts:
        n, ln, nk, ml = p["rnd_full"]
        rnd += tree.random_tree_scripts(rng, c, n, ln, nk, ml, False, insat=True)
        n, ln, nk, ml = p["rnd_hash"]
        rnd += tree.random_tree_scripts(rng, c, n, ln, nk, ml, True)
    vlib.run_scripts(chk, me, c_exe, m_exe, rnd, oracle)
    chk.extra["link_level"] = {
        "model": "lean/Cstl/TreeL/Model.lean (one update per C assignment on p/l/r/colour memories; driver m_treel)",
        "scope": "same closures as the functional check %s, closed=%s; %d seeded random histories incl. arbitrary hints"
                 % (p["closures"], closed, len(rnd)),
        "mismatches": len(chk.mismatches) - n_mis,
    }
    if len(chk.mismatches) > n_mis:
        _minimise_and_probe(chk, me, c_exe, m_exe, prop)
    return True


def promote_child_run(chk):
    """C07, pointer level: `cstl_heap_promote_child` is re-translated from src/heap.c, the kernel
    re-checks `promoteChild = translation`, and the theorem that `promoteChild` exchanges the
    positions of a node and its parent (all six neighbours re-linked, parent links consistent)
    is audited.  No harness run is needed: the model of this function IS the translation."""
    import vlib
    me = sys.modules[__name__]
    ok, out = vlib.lake_build(LEAN_TARGETS)
    if not ok:
        errs = [l for l in out.split("\n") if "error" in l][:5]
        chk.build_problems.append(("lake build %s" % " ".join(LEAN_TARGETS), " | ".join(errs) or out[-500:]))
    for h in vlib.grep_forbidden(IMPORTS + [TIE_HEAP_MODULE]):
        if h not in chk.forbidden:
            chk.forbidden.append(h)
    chk.theorems.update(vlib.audit(THEOREMS["C07"], IMPORTS))
    vlib.translator_tie(chk, "heapl", TIE_HEAP_MODULE, TIE_HEAP_THEOREMS)
    return True


def run_check(chk, prop):
    """stand-alone link-level check of one property (C01 or C02)"""
    assert chk.prop == prop
    link_level_run(chk)
    return chk.finish()


def replay(prop, path):
    import json
    import vlib
    me = sys.modules[__name__]
    r = json.load(open(path))
    chk = vlib.Check(prop, "quick", 0)
    c_exe, m_exe = vlib.prepare_area(chk, me, theorems=[])
    d = r.get("detail") or {}
    ops = r.get("ops") or d.get("minimised") or d.get("script")
    if not ops or not c_exe:
        print("nothing to replay (no operation list in %s)" % path)
        return 2
    c, m = vlib.run_pair(c_exe, m_exe, [ops], jobs=1)
    for op, a, b in zip(ops, c[0] + ["<missing>"] * len(ops), m[0] + ["<missing>"] * len(ops)):
        print("%-22s impl : %s\n%-22s model: %s" % (op, a, "", b))
    w = oracle(prop, ops, c[0])
    print("oracle:", w or "property holds on this input")
    return 1 if w else 0
