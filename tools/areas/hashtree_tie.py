"""Translator ties, last part: the entry points of src/hash.c and src/bintree.c that were tied to their Lean
models by correspondence only.

  which = "hash2"   tools/c2lean_hash2.py -> Cstl.Gen.HashLC2, fixed theorems lean/Cstl/HashL/Tie2.lean
                    (vocabulary lean/Cstl/HashL/CSem2.lean): the whole of hash.c against lean/Cstl/HashL/Model.lean —
                    the keyed lookup sequence of cstl_hash_get_bucket, both sweep loops of __cstl_hash_rehash and the
                    adoption of the pending geometry, cstl_hash_rehash (SIZE_MAX sweep), cstl_hash_find_visit /
                    cstl_hash_find, __cstl_hash_set_capacity (overflow guard, realloc as an oracle step),
                    cstl_hash_resize, cstl_hash_shrink_to_fit, __cstl_hash_foreach (bound rule) / cstl_hash_foreach /
                    cstl_hash_foreach_const, cstl_hash_clear, cstl_hash_insert / cstl_hash_erase as whole functions,
                    cstl_hash_size / cstl_hash_load / cstl_hash_swap of hash.h
  which = "tree3"   tools/c2lean_tree2.py -> Cstl.Gen.TreeLC3, fixed theorems lean/Cstl/TreeL/Tie3.lean
                    (vocabulary lean/Cstl/TreeL/CSem3.lean): cstl_bintree_foreach (the `switch (dir)`),
                    cstl_bintree_clear (+ its visitor) against the functional `clearOrder`, cstl_bintree_height (+ its
                    visitor) against `Tree.minLeaf` / `Tree.height`, cstl_bintree_swap, __cstl_bintree_prev

`tie_run(chk, which)` regenerates the module from vlib.REPO's CURRENT source into a scratch directory and re-checks
the fixed Tie file against it (kernel + `#print axioms`), exactly like tools/areas/hashl.py / treel_tie.py do
(vlib.translator_tie; the areas "hashl2" / "treel3" are registered in c2lean.AREAS when the translator modules are
imported).  Records into chk.theorems / chk.extra["translator"][area] / chk.extra["translator_ties"][area]; does not
call chk.finish().

Call sites (to be wired by the lead):
    tools/props/C03.py, C04.py, C19.py (next to hashl.link_level_run / hashl.tie_run):
        from areas import hashtree_tie; hashtree_tie.tie_run(chk, "hash2")
    tools/props/C01.py, C15.py (next to treel_tie.tie2_run):
        from areas import hashtree_tie; hashtree_tie.tie_run(chk, "tree3")
"""
import os
import re
import sys

_TOOLS = os.path.dirname(os.path.dirname(os.path.abspath(__file__)))
if _TOOLS not in sys.path:
    sys.path.insert(0, _TOOLS)
_LEAN = os.path.join(os.path.dirname(_TOOLS), "lean")

CONF = {
    "hash2": dict(
        area="hashl2", module="Cstl.HashL.Tie2", ns="Cstl.HashL.Tie2.", file=("Cstl", "HashL", "Tie2.lean"),
        translator="c2lean_hash2",
        # Lean modules the Tie file / the generated module import (built before the scratch check)
        deps=["Cstl.HashL.CSem2", "Cstl.HashL.History"],
        table=[
            # theorem, C function(s), model function (Cstl.HashL.*)
            ("getBucket_tie", "__cstl_hash_get_bucket", "getBucket"),
            ("relink_tie", "cstl_clean_bucket (HASH_LIST_FOREACH loop)", "relink"),
            ("cleanBucket_tie", "cstl_clean_bucket", "cleanBucket (up to the ghost relocation counter)"),
            ("bucketForeach_tie", "cstl_hash_bucket_foreach", "bucketForeach"),
            ("eraseVisit_tie", "cstl_hash_erase_visit", "eraseVisit"),
            ("skipClean_tie", "__cstl_hash_rehash (first loop)", "skipClean"),
            ("sweep_tie", "__cstl_hash_rehash (second loop)", "sweep"),
            ("rehashN_tie", "__cstl_hash_rehash", "rehashN (adoption of the pending geometry)"),
            ("rehash_tie", "cstl_hash_rehash", "rehash (SIZE_MAX sweep = unbounded sweep below 2^64 buckets)"),
            ("keyed_tie", "cstl_hash_get_bucket", "keyed (clean old, clean new, sweep one, use new)"),
            ("findVisit_tie", "cstl_hash_find_visit", "findVisit"),
            ("find_tie", "cstl_hash_find", "find"),
            ("setCapacity_tie", "__cstl_hash_set_capacity", "setCapacity (overflow guard, realloc oracle)"),
            ("initBuckets_tie", "cstl_hash_resize (for loop)", "initBuckets"),
            ("resizeTail_tie", "cstl_hash_resize (after the forced rehash)", "resizeTail / pickHash"),
            ("resize_tie", "cstl_hash_resize", "resize / ensureCapacity / effCount / effHash"),
            ("shrink_tie", "cstl_hash_shrink_to_fit", "shrink"),
            ("tableWalk_tie", "__cstl_hash_foreach (for loop)", "tableWalk"),
            ("hforeach_tie", "__cstl_hash_foreach", "hforeach / LT.bound (pending-count rule)"),
            ("foreach_tie", "cstl_hash_foreach", "foreach"),
            ("foreachVisit_tie", "cstl_hash_foreach_visit", "userVisit without erase"),
            ("foreachConst_tie", "cstl_hash_foreach_const", "foreachConst"),
            ("clearVisit_tie", "cstl_hash_clear_visit", "userVisit (fun _ _ => (0, false))"),
            ("clear_tie", "cstl_hash_clear", "clear (walk, free event, every member reset)"),
            ("insert_tie", "cstl_hash_insert", "insert"),
            ("erase_tie", "cstl_hash_erase", "erase"),
            ("size_tie", "cstl_hash_size", "LT.size"),
            ("load_tie", "cstl_hash_load", "Hash.HT.load of the table read off the links"),
            ("swap_tie", "cstl_hash_swap", "lstep … Op.swap"),
        ],
    ),
    "tree3": dict(
        area="treel3", module="Cstl.TreeL.Tie3", ns="Cstl.TreeL.Tie3.", file=("Cstl", "TreeL", "Tie3.lean"),
        translator="c2lean_tree2",
        deps=["Cstl.TreeL.CSem3", "Cstl.TreeL.Lemmas", "Cstl.Tree.Events"],
        table=[
            ("foreach_refines", "__cstl_bintree_foreach (recursion, callback)", "Cstl.Tree.walk"),
            ("foreachVisit_tie", "cstl_bintree_foreach_visit", "the client function itself"),
            ("foreachEntry_tie", "cstl_bintree_foreach (switch (dir))", "the recursion with direction true / false"),
            ("foreachEntry_refines", "cstl_bintree_foreach", "Cstl.Tree.foreach"),
            ("foreach_quiet", "__cstl_bintree_foreach for callbacks that keep the links and never stop",
             "fold over Cstl.Tree.events"),
            ("clearVisit_tie", "__cstl_bintree_clear_visit", "fires on POST / LEAF"),
            ("clear_tie", "cstl_bintree_clear", "Cstl.Tree.clearOrder (Tree.clear_spec), TreeL.clearHd"),
            ("upLoop_tie", "__cstl_bintree_height (for loop up the parent links)", "UpLen"),
            ("heightVisit_leaf", "__cstl_bintree_height", "min / max update on LEAF"),
            ("height_tie", "cstl_bintree_height", "Tree.minLeaf, Tree.height"),
            ("swap_tie", "cstl_bintree_swap", "(b, a)"),
            ("prev_mirror", "__cstl_bintree_prev", "__cstl_bintree_next on the mirrored memory"),
            ("prev_tie", "__cstl_bintree_prev under bn->l != NULL", "slide"),
        ],
    ),
}


def _theorems(which):
    """every `theorem` of the Tie file that starts a line (helpers included: an error in a helper must not hide)"""
    c = CONF[which]
    path = os.path.join(_LEAN, *c["file"])
    if not os.path.exists(path):
        return []
    return [c["ns"] + n for n in re.findall(r"^theorem\s+(\S+)", open(path).read(), flags=re.M)]


TIE_THEOREMS = {w: _theorems(w) for w in CONF}


def tie_run(chk, which, theorems=None):
    """Regenerate the translation of `which` ("hash2" | "tree3") from vlib.REPO's current source and re-check the fixed
    Tie file against it, with the axiom audit.  Returns False if the Lean modules the tie depends on could not be built."""
    import importlib
    import vlib
    c = CONF[which]
    importlib.import_module(c["translator"])          # registers c2lean.AREAS[c["area"]]
    ok, out = vlib.lake_build(c["deps"])
    if not ok:
        errs = [l for l in out.split("\n") if "error" in l][:5]
        chk.build_problems.append(("lake build %s" % " ".join(c["deps"]), " | ".join(errs) or out[-500:]))
        return False
    for h in vlib.grep_forbidden([c["module"]]):
        if h not in chk.forbidden:
            chk.forbidden.append(h)
    ths = list(theorems) if theorems is not None else list(TIE_THEOREMS[which])
    vlib.translator_tie(chk, c["area"], c["module"], ths)
    rep = chk.extra.get("translator", {}).get(c["area"])
    if rep is not None:
        bad = {k: v for k, v in rep.items() if not v.startswith("translated")}
        if bad:
            # a function the translator can no longer read is a broken tie as well (its theorems then fail to
            # elaborate and are reported above; this keeps the reason visible in the evidence)
            chk.notes.append("%s: %s" % (c["translator"], "; ".join("%s: %s" % kv for kv in sorted(bad.items()))))
    chk.extra.setdefault("translator_ties", {})[c["area"]] = {
        "module": c["module"],
        "theorems": len(ths),
        "table": [{"theorem": c["ns"] + t, "c": cf, "model": m} for (t, cf, m) in c["table"]],
    }
    return True


def main(argv):
    """stand-alone: python3 tools/areas/hashtree_tie.py [hash2|tree3 …]   (VERIF_REPO selects the source tree)"""
    import time
    import vlib
    rc = 0
    for which in (argv[1:] or ["hash2", "tree3"]):
        t0 = time.time()
        chk = vlib.Check("C03" if which == "hash2" else "C01", "quick", 0)
        tie_run(chk, which)
        bad = 0
        for t in TIE_THEOREMS[which]:
            ok, detail = chk.theorems.get(t, (False, "not checked"))
            if not ok:
                bad += 1
            print("%-4s %s  (%s)" % ("ok" if ok else "FAIL", t, detail[:160]))
        for k, v in sorted(chk.extra.get("translator", {}).get(CONF[which]["area"], {}).items()):
            print("translator: %s: %s" % (k, v))
        for n in chk.notes + ["forbidden: " + h for h in chk.forbidden] + ["build: %s %s" % b for b in chk.build_problems]:
            print("note:", n)
        print("%s repo=%s  %d/%d tie theorems check  %.1fs" % (which, vlib.REPO, len(TIE_THEOREMS[which]) - bad,
                                                             len(TIE_THEOREMS[which]), time.time() - t0))
        if bad or chk.forbidden or chk.build_problems:
            rc = 1
    vlib.cleanup()
    return rc


if __name__ == "__main__":
    sys.exit(main(sys.argv))
