"""hash area: src/hash.c, include/cstl/hash.h  <->  lean/Cstl/Hash
(properties C03, C04, C19 and part b of C17)

Scripts (one op per line, table index t in {0,1}, elements 1..256):
  ins t k e | find t k n|<accept-index> | erase t e | resize t n f|- p | rehash t
  shrink t p | swap | foreach t <stop-index> <erase-mask> | fconst t <stop-index>
  clear t 0|1
Output line: <result> hc=[f/k/m,..] rl=<relocated buckets> ev=[..] | <table 0> | <table 1>
Table dump : n= cap= h= c= rh=<f:n:clean|-> sz= ld=<float bits> [<cst>:<id>/<key>.<id>/<key>,...]
"""
import re
import struct

import vlib

NAME = "hash"
HARNESS_SRCS = ["hash.c"]
REPO_SRCS = ["hash.c", "common.c"]
LEAN_TARGETS = ["Cstl.Hash.Props", "m_hash"]
IMPORTS = ["Cstl.Hash.Props"]

_P = "Cstl.Hash."
THEOREMS = {
    "C03": [_P + n for n in (
        "inv_init", "insert_exact", "find_exact", "find_answers", "erase_exact", "size_exact",
        "resize_exact", "rehash_exact", "shrink_exact", "step_inv", "run_exact", "run_inv",
        "run_total_in_range")],
    "C04": [_P + n for n in (
        "visited_exactly_once", "visited_results", "foreach_once", "foreachConst_once", "foreachConst_all",
        "clear_once", "clear_reusable", "step_inv", "run_inv")],
    "C19": [_P + n for n in (
        "load_spec", "resize_lands", "heading_kept_keyed", "heading_kept_rehash", "heading_kept_shrink",
        "settled_single_call", "keyed_cost_and_progress", "rehash_finishes", "rehash_finishes_sharp",
        "keyed_touches_three")],
    # part b of C17 (part a: area hashfn)
    "C17": [_P + n for n in (
        "getBucket_failstop", "insert_failstop", "find_failstop", "erase_failstop", "resize_failstop",
        "rehash_failstop", "shrink_failstop", "foreach_failstop", "foreachConst_failstop", "clear_failstop",
        "run_failstop", "returns_of_in_range", "run_total_in_range")],
}
# no statement of this area is left unproved (`def ..._statement : Prop`): none

NE = 256
GOOD_FNS = (0, 1, 2, 3)
ALWAYS_BAD = (4, 5, 6, 14)
KEY_BAD = (7, 8, 9, 13)
SIZE_BAD = (10, 11, 12)  # in range for some table sizes only (harness/hash.c h10..h12)
BIG = 1 << 36            # bucket counts above this are refused by the allocation interposer


# ---------------------------------------------------------------------------
# parsing


def parse_size(s):
    if s == "M":
        return (1 << 64) - 1
    if s.startswith("M-"):
        return (1 << 64) - 1 - int(s[2:])
    return int(s)


_HEAD = re.compile(r"^(.*) hc=\[(.*?)\] rl=(\d+) ev=\[(.*?)\]$")
_TAB = re.compile(r"^(at=bad )?n=(\d+) cap=(\d+) h=(\S+) c=([01]) rh=(\S+) sz=(\d+) ld=(\S+) \[(.*)\]$")


class TabDump(object):
    pass


def parse_table(s):
    m = _TAB.match(s.strip())
    if not m:
        return None
    t = TabDump()
    t.bad = bool(m.group(1))
    t.n = int(m.group(2))
    t.cap = int(m.group(3))
    t.h = None if m.group(4) == "-" else m.group(4)
    t.c = int(m.group(5))
    if m.group(6) == "-":
        t.rh = None
    else:
        f, n, cl = m.group(6).split(":")
        t.rh = (f, int(n), int(cl))
    t.sz = int(m.group(7))
    t.ld = m.group(8)
    t.buckets = []
    body = m.group(9)
    if body != "":
        for b in body.split(","):
            cst, _, chain = b.partition(":")
            nodes = []
            for x in chain.split("."):
                if x == "":
                    continue
                if x.startswith("links=bad"):
                    t.bad = True
                    continue
                i, _, k = x.partition("/")
                try:
                    nodes.append((int(i), int(k)))
                except ValueError:
                    t.bad = True        # the harness's own inconsistency marker / a cyclic chain
            try:
                t.buckets.append((int(cst), nodes))
            except ValueError:
                t.bad = True
                t.buckets.append((0, nodes))
    return t


def parse_line(line):
    """-> (result, calls [(f,k,m)], rl, events [str], [TabDump, TabDump]) or None"""
    if line.startswith("STOP"):
        return None
    parts = line.split(" | ")
    if len(parts) != 3:
        return None
    m = _HEAD.match(parts[0])
    if not m:
        return None
    calls = []
    if m.group(2):
        for c in m.group(2).split(","):
            if c == "overflow":
                calls.append(("overflow", 0, 0))
                continue
            f, k, mm = c.split("/")
            calls.append((int(f), int(k), int(mm)))
    evs = [e for e in m.group(4).split(",") if e]
    tabs = [parse_table(parts[1]), parse_table(parts[2])]
    if tabs[0] is None or tabs[1] is None:
        return None
    return m.group(1), calls, int(m.group(3)), evs, tabs


def parse_idlist(s):
    return [int(x) for x in s.strip("[]").split(",") if x]


def f32_bits(x):
    return "%08x" % struct.unpack("<I", struct.pack("<f", x))[0]


# ---------------------------------------------------------------------------
# reference semantics, independent of the Lean model: an address-keyed
# membership ledger per table + what the documentation promises about
# geometry requests (no buckets, no chains, no rehash state)


class RefTab(object):
    def __init__(self):
        self.live = {}       # element -> key
        self.ready = False   # resized since init / clear
        self.n = 0           # bucket count most recently requested (and satisfiable)
        self.fn = None       # hash function most recently requested
        self.cap = 0         # buckets allocated (documented: retained when shrinking)
        self.budget = None   # keyed operations the pending rehash may still take (None: unknown / none pending)


class Ref(object):
    def __init__(self):
        self.tabs = [RefTab(), RefTab()]
        self.keyfield = {}

    def where(self, e):
        for i, t in enumerate(self.tabs):
            if e in t.live:
                return i
        return None

    def satisfiable(self, t, n, p):
        if n < 1:
            return False
        if n <= t.cap:
            return True
        return p == "1" and n <= BIG

    def enabled(self, op, allow_bad=False):
        """is the call inside the documented domain (and inside what the
        harness can represent)?"""
        w = op.split()
        o = w[0]
        if o == "swap":
            return True
        t = self.tabs[int(w[1])]
        okfn = t.fn in GOOD_FNS or (allow_bad and t.fn is not None)
        if o == "ins":
            return t.ready and okfn and self.where(int(w[3])) is None
        if o == "find":
            return t.ready and okfn
        if o == "erase":
            e = int(w[2])
            return t.ready and okfn and self.where(e) in (None, int(w[1]))
        if o == "resize":
            n = parse_size(w[2])
            f = None if w[3] == "-" else int(w[3])
            if f is not None and f not in GOOD_FNS and not allow_bad:
                return False
            if (1 << 16) < n <= BIG:
                return False        # would really allocate / dump a huge bucket array
            return okfn or not t.ready
        if o in ("rehash", "shrink", "foreach", "fconst", "clear"):
            return okfn or not t.ready
        return False

    def apply(self, op):
        """update the ledger as if the documented behaviour happened"""
        w = op.split()
        o = w[0]
        if o == "swap":
            self.tabs.reverse()
            return
        t = self.tabs[int(w[1])]
        if o == "ins":
            t.live[int(w[3])] = parse_size(w[2])
            self.keyfield[int(w[3])] = parse_size(w[2])
        elif o == "erase":
            t.live.pop(int(w[2]), None)
        elif o == "resize":
            n = parse_size(w[2])
            f = None if w[3] == "-" else int(w[3])
            if self.satisfiable(t, n, w[4]):
                newfn = f if f is not None else (t.fn if t.ready else 0)
                if not t.ready or n != t.n or newfn != t.fn:
                    t.budget = "from-dump"
                t.fn = newfn
                t.n = n
                t.cap = max(t.cap, n)
                t.ready = True
        elif o == "shrink":
            if t.ready and w[2] == "1":
                t.cap = t.n
        elif o == "clear":
            t.live = {}
            t.ready = False
            t.n = 0
            t.fn = None
            t.cap = 0
            t.budget = None
        # foreach: the caller applies the erasures it observed (erase mask)


def in_domain(script, allow_bad=False):
    ref = Ref()
    for op in script:
        if not ref.enabled(op, allow_bad):
            return False
        if op.split()[0] == "foreach":
            return_mask = int(op.split()[3])
            if return_mask:
                # which elements get erased depends on the visiting order: the ledger
                # cannot continue without the implementation's output
                pass
        ref.apply(op)
    return True


# ---------------------------------------------------------------------------
# the oracle


def _dirty_to_clean(before, after):
    """indices of buckets that were dirty before and are clean after (table bit unchanged)"""
    out = []
    if before is None or before.rh is None:
        return out
    for i in range(min(before.n, len(before.buckets))):
        if before.buckets[i][0] != before.c:
            if i >= len(after.buckets) or after.buckets[i][0] == before.c:
                out.append(i)
    return out


def oracle(prop, script, c_lines):
    """Independent reading of C03 / C04 / C19 / C17b on the real code's output.
    Returns a description of the first failure or None."""
    ref = Ref()
    allow_bad = prop == "C17"
    prev = [None, None]          # previous table dumps
    for i, op in enumerate(script):
        if not ref.enabled(op, allow_bad):
            return None          # outside the documented domain: nothing to say
        if i >= len(c_lines):
            return "op %d '%s': no output from the implementation" % (i, op)
        line = c_lines[i]
        w = op.split()
        o = w[0]
        ti = int(w[1]) if len(w) > 1 and o != "swap" else None
        t = ref.tabs[ti] if ti is not None else None
        keyed = o in ("ins", "find", "erase")
        key = None
        if o in ("ins", "find"):
            key = parse_size(w[2])
        elif o == "erase":
            key = ref.keyfield.get(int(w[2]), 0)

        # ---- fail-stop (C17b) and crashes
        before = prev[ti] if ti is not None else None
        if prop == "C17":
            # functions the table holds right now (as dumped by the implementation
            # after the previous operation): current and pending
            held = _held_fns(before)
            must = keyed and any(_is_bad(f, key) for f in held)
            may = any(f not in GOOD_FNS for f in held)
            if line == "STOP abort" and may:
                return None      # documented fail-stop; the script ends here
            if line.startswith("STOP"):
                return "op %d '%s': implementation stopped with '%s'" % (i, op, line)
            if must:
                return ("op %d '%s': a hash function of the table returns a value >= m for key %d but the "
                        "operation did not abort" % (i, op, key))
        elif line.startswith("STOP"):
            return "op %d '%s': implementation stopped with '%s'" % (i, op, line)
        st = parse_line(line)
        if st is None:
            return "op %d '%s': unparsable implementation output '%s'" % (i, op, line[:200])
        res, calls, rl, evs, tabs = st
        if prop == "C17":
            # the operation completed: none of the hash calls it made may have returned m or more
            for (cf, ck, cm) in calls:
                if cf == "overflow":
                    continue
                v = fn_value(cf, ck, cm)
                if v is not None and v >= cm:
                    return ("op %d '%s': hash function %d returned %d for key %d and table size %d, but the "
                            "operation that invoked it did not abort" % (i, op, cf, v, ck, cm))
        for k in (0, 1):
            if tabs[k].bad:
                return "op %d '%s': table %d: inconsistent bucket array / chain links" % (i, op, k)

        was_pending = before is not None and before.rh is not None
        was_ready = t.ready if t is not None else False
        live_before = dict(t.live) if t is not None else {}
        req_before = (t.fn, t.n) if t is not None else None

        # ---- results against the ledger: find is C03's, enumeration and clear are C04's
        # (the ledger itself is kept for every property)
        chk_find = prop == "C03"
        chk_enum = prop == "C04"
        if o == "find" and chk_find:
            m = re.match(r"r=(-?\d+) of=(\[[^\]]*\])$", res)
            if not m:
                return "op %d '%s': unparsable result '%s'" % (i, op, res)
            r, offers = int(m.group(1)), parse_idlist(m.group(2))
            want = sorted(e for e, k in t.live.items() if k == key)
            if w[3] == "n":
                if offers:
                    return "op %d '%s': visit function called without one being given" % (i, op)
                if want and r not in want:
                    return "op %d '%s': returned %d, live elements with key %d are %s" % (i, op, r, key, want)
                if not want and r != 0:
                    return "op %d '%s': returned %d, no live element has key %d" % (i, op, r, key)
            else:
                a = int(w[3])
                if len(set(offers)) != len(offers):
                    return "op %d '%s': an element was offered twice: %s" % (i, op, offers)
                if any(x not in want for x in offers):
                    return "op %d '%s': offered %s, live elements with key %d are %s" % (i, op, offers, key, want)
                if 0 <= a < len(want):
                    if len(offers) != a + 1 or r != offers[a]:
                        return ("op %d '%s': visit accepted offer #%d of %s but find returned %d"
                                % (i, op, a, offers, r))
                else:
                    if r != 0:
                        return "op %d '%s': nothing accepted but find returned %d" % (i, op, r)
                    if sorted(offers) != want:
                        return ("op %d '%s': offered %s, live elements with key %d are %s"
                                % (i, op, sorted(offers), key, want))
        elif o in ("foreach", "fconst"):
            m = re.match(r"r=(-?\d+) v=(\[[^\]]*\])$", res)
            if not m:
                return "op %d '%s': unparsable result '%s'" % (i, op, res)
            r, vis = int(m.group(1)), parse_idlist(m.group(2))
            stop = int(w[2])
            L = sorted(t.live)
            if not chk_enum:
                pass
            elif len(set(vis)) != len(vis):
                return "op %d '%s': an element was visited twice: %s" % (i, op, vis)
            elif any(x not in t.live for x in vis):
                return "op %d '%s': visited %s, live elements are %s" % (i, op, vis, L)
            elif 0 <= stop < len(L):
                want_r = -3 if stop % 2 else 7
                if len(vis) != stop + 1 or r != want_r:
                    return ("op %d '%s': visit asked to stop at call #%d with %d: %d calls, returned %d"
                            % (i, op, stop, want_r, len(vis), r))
            elif sorted(vis) != L or r != 0:
                return ("op %d '%s': visited %s (returned %d), live elements are %s"
                        % (i, op, sorted(vis), r, L))
            if o == "foreach":
                mask = int(w[3])
                for j, e in enumerate(vis):
                    if (mask >> (j % 62)) & 1:
                        t.live.pop(e, None)
        elif o == "clear":
            m = re.match(r"v=(\[[^\]]*\])$", res)
            if not m:
                return "op %d '%s': unparsable result '%s'" % (i, op, res)
            vis = parse_idlist(m.group(1))
            L = sorted(t.live)
            if not chk_enum:
                pass
            elif w[2] == "1":
                if sorted(vis) != L:
                    return ("op %d '%s': clear callback got %s, live elements were %s"
                            % (i, op, sorted(vis), L))
            elif vis:
                return "op %d '%s': callbacks without a clear function" % (i, op)

        ref.apply(op)

        # ---- size (C03; C04: what foreach-with-erase and clear leave behind)
        for k in (0, 1):
            if prop in ("C03", "C04") and tabs[k].sz != len(ref.tabs[k].live):
                return ("op %d '%s': table %d reports size %d, %d elements are live"
                        % (i, op, k, tabs[k].sz, len(ref.tabs[k].live)))

        # ---- geometry (C19)
        if prop == "C19" and t is not None:
            after = tabs[ti]
            if o == "swap":
                pass
            if t.ready and t.n > 0:
                wantld = f32_bits(float(len(t.live)) / float(t.n))
                if after.ld != wantld:
                    return ("op %d '%s': load is %s, size/requested buckets = %d/%d = %s"
                            % (i, op, after.ld, len(t.live), t.n, wantld))
            if t.budget == "from-dump":
                # the request just made: the rehash may take as many keyed operations as there were buckets
                t.budget = after.n if after.rh is not None else None
            if keyed and was_ready:
                if not was_pending:
                    fn, n = req_before
                    want = [(fn, key, n)] if fn != 0 else []
                    if calls != want:
                        return ("op %d '%s': no rehash pending, hash calls %s, expected exactly %s"
                                % (i, op, calls, want))
                else:
                    d2c = _dirty_to_clean(before, after)
                    if len(d2c) > 3 or rl > 3:
                        return ("op %d '%s': relocated the contents of %d buckets (%s)"
                                % (i, op, max(len(d2c), rl), d2c))
                    if after.rh is not None and after.rh[2] < before.rh[2] + 1:
                        return ("op %d '%s': sweep index %d -> %d while the rehash is still pending"
                                % (i, op, before.rh[2], after.rh[2]))
                    held = sum(len(before.buckets[b][1]) for b in d2c)
                    if len(calls) > 2 + 3 * held:
                        return ("op %d '%s': %d hash calls, the relocated buckets held %d nodes"
                                % (i, op, len(calls), held))
                    if t.budget is not None:
                        t.budget -= 1
                        if after.rh is None:
                            t.budget = None
                        elif t.budget <= 0:
                            return ("op %d '%s': rehash still pending after as many keyed operations "
                                    "as there were buckets" % (i, op))
            if after.rh is None:
                t.budget = None
        if o == "swap":
            prev = [tabs[0], tabs[1]]
        else:
            prev = tabs
    return None


def _held_fns(dump):
    out = []
    if dump is None:
        return out
    for x in (dump.h, dump.rh[0] if dump.rh is not None else None):
        if x is not None:
            try:
                out.append(int(x))
            except ValueError:
                pass
    return out


def _is_bad(f, key):
    return f in ALWAYS_BAD or (f in KEY_BAD and key is not None and key % 4 == 3)


def fn_value(f, k, m):
    """what caller-supplied function f of harness/hash.c returns for (k, m); None for the
    built-in function 0 (its range is the subject of the other half of C17)"""
    M = 1 << 64
    modm = (k % m) if m else 0
    if f == 1:
        return modm
    if f == 2:
        return ((k // 2) % m) if m else 0
    if f == 3:
        return 0
    if f == 4:
        return m
    if f == 5:
        return (m + 1) % M
    if f == 6:
        return M - 1
    if f in (7, 8, 9):
        return modm if k % 4 != 3 else (m, (m + 1) % M, M - 1)[f - 7]
    if f == 13:
        return modm if k % 4 != 3 else (1 << 32) + modm
    if f == 14:
        return (1 << 63) + modm
    if f == 10:
        return k % 8
    if f == 11:
        return modm if m >= 4 else (m if k % 2 else 0)
    if f == 12:
        return modm if m <= 4 else ((m + 1) % M if k % 4 == 3 else modm)
    return None


# ---------------------------------------------------------------------------
# corpus: witnesses of the defects of DESIGN section 5 (fixed) + regression scripts


def corpus():
    fill = ["resize 0 4 1 1"] + ["ins 0 %d %d" % (k, k + 1) for k in range(12)]
    return [
        # defect #2 (fixed): foreach_const / clear while a grow is pending
        fill + ["resize 0 16 - 1", "find 0 1 n", "fconst 0 -1"],
        fill + ["resize 0 16 - 1", "find 0 1 n", "clear 0 1"],
        ["resize 0 1 1 1", "ins 0 1 1", "resize 0 2 - 1", "find 0 3 n", "fconst 0 -1", "clear 0 1"],
        # defect #3 (fixed): clear, fresh resize, insert
        ["resize 0 4 1 1", "ins 0 1 1", "clear 0 1", "resize 0 8 - 1", "ins 0 1 1", "find 0 1 n"],
        ["resize 0 4 1 1", "clear 0 0", "resize 0 4 2 1", "ins 0 6 2", "find 0 6 -1"],
        # defect #4 (fixed): resize back to the current count while another one is pending
        ["resize 0 4 1 1", "ins 0 1 1", "ins 0 2 2", "ins 0 3 3", "ins 0 4 4", "resize 0 8 - 1",
         "resize 0 4 - 1", "find 0 1 n"],
        ["resize 0 2 1 1", "ins 0 1 1", "resize 0 2 2 1", "resize 0 2 1 1", "find 0 1 n", "find 0 1 n"],
        # defect #12 (fixed): bucket byte count wraps to 0
        ["resize 0 4 1 1", "ins 0 1 1", "ins 0 2 2", "ins 0 77 3", "resize 0 1152921504606846976 - 1",
         "find 0 77 n", "ins 0 5 4"],
        ["resize 0 4 - 1", "ins 0 1 1", "resize 0 2305843009213693952 1 1", "find 0 1 n"],
        # regression: duplicates, erase during rehash, swap, shrink
        ["resize 0 2 1 1", "ins 0 5 1", "ins 0 5 2", "ins 0 7 3", "resize 0 3 2 1", "erase 0 1",
         "find 0 5 -1", "find 0 5 0", "swap", "find 1 7 n", "shrink 1 1", "find 1 5 1", "erase 1 2", "erase 1 2"],
        ["resize 0 4 1 1", "ins 0 1 1", "ins 0 2 2", "ins 0 5 3", "resize 0 2 - 1", "shrink 0 1", "find 0 5 0",
         "foreach 0 -1 3", "find 0 1 -1", "find 0 5 -1"],
        ["resize 0 3 0 1", "ins 0 10 1", "ins 0 11 2", "ins 0 12 3", "resize 0 5 - 1", "find 0 10 n",
         "find 0 11 n", "find 0 12 n", "rehash 0", "fconst 0 1"],
    ]


# ---------------------------------------------------------------------------
# small-scope closure


def scope(tier, which=0):
    """(elements -> key, bucket counts, hash ids, max states); two elements share a key"""
    if tier == "quick":
        return {1: 1, 2: 1, 3: 2}, (1, 2, 3), (1, 2), 10 ** 6
    if which == 0:
        return {1: 1, 2: 1, 3: 2, 4: 6}, (1, 2, 3), (1, 2), 10 ** 6
    return {1: 1, 2: 1, 3: 2, 4: 2, 5: 5}, (1, 2, 3, 4), (1, 2, 3), 4000


def closure_init(elems):
    """give every element's key field its fixed value, then return the table to
    the freshly initialised condition: afterwards the dump determines the state"""
    ops = ["resize 0 1 1 1"]
    for e, k in sorted(elems.items()):
        ops += ["ins 0 %d %d" % (k, e), "erase 0 %d" % e]
    ops += ["clear 0 0"]
    return ops


def make_alphabet(elems, counts, fns, focus):
    keys = sorted(set(elems.values()))
    absent_key = max(keys) + 1

    def alphabet(last):
        st = parse_line(last) if last else None
        live = set()
        ready = False
        if st is not None:
            tab = st[4][0]
            ready = tab.h is not None
            for _, nodes in tab.buckets:
                for e, _k in nodes:
                    live.add(e)
        ops = []
        for n in counts:
            for f in ("-",) + tuple(str(x) for x in fns):
                ops.append("resize 0 %d %s 1" % (n, f))
        ops.append("resize 0 %d - 0" % max(counts))
        ops += ["rehash 0", "shrink 0 1", "shrink 0 0", "fconst 0 -1", "fconst 0 1", "clear 0 1", "clear 0 0"]
        if ready:
            seen_keys = set()
            for e, k in sorted(elems.items()):
                if e not in live and k not in seen_keys:
                    seen_keys.add(k)       # free elements with one key are interchangeable
                    ops.append("ins 0 %d %d" % (k, e))
            for k in keys:
                for a in ("n", "-1", "0", "1"):
                    ops.append("find 0 %d %s" % (k, a))
            ops += ["find 0 %d n" % absent_key, "find 0 %d -1" % absent_key]
            for e in sorted(elems):
                ops.append("erase 0 %d" % e)
            for stop, mask in ((-1, 0), (-1, 1), (-1, 2), (-1, 5), (-1, 31), (0, 0), (0, 1), (1, 2), (1, 0)):
                ops.append("foreach 0 %d %d" % (stop, mask))
        else:
            ops.append("foreach 0 -1 0")
        return ops
    return alphabet


# ---------------------------------------------------------------------------
# random histories (both tables, swap, many keys, bucket counts to 64)


def random_scripts(rng, count, length, nkeys=64, maxn=64, nelem=NE, fns=GOOD_FNS, bad=False):
    scripts = []
    for _ in range(count):
        ref = Ref()
        sc = []
        keys = [rng.randrange(0, 4 * nkeys) for _ in range(nkeys)]
        free = list(range(1, nelem + 1))
        rng.shuffle(free)
        target = rng.choice((4, 12, 40, 120))
        while len(sc) < length:
            ti = 0 if rng.random() < 0.7 else 1
            t = ref.tabs[ti]
            r = rng.random()
            op = None
            if not t.ready or r < 0.10:
                n = rng.choice((1, 2, 3, 4, 5, 7, 8, 13, 16, 31, 32, 33, 64)) if rng.random() < 0.8 else rng.randrange(1, maxn + 1)
                n = min(n, maxn)
                if t.ready and rng.random() < 0.15:
                    n = t.n
                f = "-" if rng.random() < 0.5 else str(rng.choice(fns))
                p = "1" if rng.random() < 0.9 else "0"
                op = "resize %d %d %s %s" % (ti, n, f, p)
                if t.ready and rng.random() < 0.5:
                    # a second request while the first is (probably) still pending
                    sc.append(op)
                    ref.apply(op)
                    n2 = rng.choice((t.n, max(1, t.n // 2), min(maxn, t.n * 2), rng.randrange(1, maxn + 1)))
                    op = "resize %d %d %s 1" % (ti, n2, "-" if rng.random() < 0.5 else str(rng.choice(fns)))
            elif r < 0.45:
                if len(t.live) < target and free:
                    e = free.pop()
                    op = "ins %d %d %d" % (ti, rng.choice(keys), e)
                else:
                    op = "find %d %d n" % (ti, rng.choice(keys))
            elif r < 0.70:
                k = rng.choice(keys) if rng.random() < 0.8 or not t.live else rng.choice(list(t.live.values()))
                op = "find %d %d %s" % (ti, k, rng.choice(("n", "-1", "-1", "0", "1", "2")))
            elif r < 0.85:
                if t.live and rng.random() < 0.85:
                    e = rng.choice(sorted(t.live))
                    free.insert(0, e)
                else:
                    cand = [e for e in range(1, nelem + 1) if ref.where(e) is None]
                    e = rng.choice(cand) if cand else 1
                op = "erase %d %d" % (ti, e)
            elif r < 0.88:
                op = "fconst %d %d" % (ti, rng.choice((-1, -1, 0, 3)))
            elif r < 0.90:
                op = "foreach %d %d 0" % (ti, rng.choice((-1, -1, 2)))
            elif r < 0.92:
                op = "rehash %d" % ti
            elif r < 0.94:
                op = "shrink %d %s" % (ti, "1" if rng.random() < 0.8 else "0")
            elif r < 0.97:
                op = "swap"
            elif r < 0.985:
                # erasing foreach ends the ledger-driven generation of this script (the
                # visiting order decides which elements go); keep it as the last op
                op = "foreach %d %d %d" % (ti, rng.choice((-1, 4)), rng.getrandbits(20))
                if ref.enabled(op, bad):
                    sc.append(op)
                break
            else:
                op = "clear %d %s" % (ti, rng.choice("01"))
                for e in t.live:
                    free.insert(0, e)
            if op is not None and ref.enabled(op, bad):
                sc.append(op)
                ref.apply(op)
        scripts.append(sc)
    return scripts


def boundary_scripts():
    base = ["resize 0 4 1 1", "ins 0 1 1", "ins 0 6 2", "ins 0 77 3"]
    out = []
    sizes = ["0", str(BIG + 1), str(1 << 59), str((1 << 60) - 1), str(1 << 60), str((1 << 60) + 1),
             str(1 << 61), str(1 << 62), str(1 << 63), "M-1", "M", str((1 << 60) + 4), str((1 << 61) + 8)]
    for n in sizes:
        for f in ("-", "2"):
            for p in ("1", "0"):
                out.append(base + ["resize 0 %s %s %s" % (n, f, p), "find 0 77 n", "find 0 6 -1", "ins 0 9 4",
                                   "fconst 0 -1", "shrink 0 1", "find 0 1 n"])
                out.append(["resize 0 %s %s %s" % (n, f, p), "resize 0 2 1 1", "ins 0 1 1", "find 0 1 n"])
                out.append(base + ["resize 0 8 - 1", "resize 0 %s %s %s" % (n, f, p), "find 0 77 n", "clear 0 1"])
    # keys at the edge of size_t
    for k in ("0", "M", "M-1", str(1 << 63), str((1 << 32) - 1), str(1 << 32)):
        out.append(["resize 0 3 1 1", "ins 0 %s 1" % k, "ins 0 %s 2" % k, "resize 0 5 2 1", "find 0 %s -1" % k,
                    "erase 0 1", "find 0 %s n" % k, "resize 0 2 0 1", "find 0 %s 0" % k, "rehash 0", "find 0 %s -1" % k])
    return out


# ---------------------------------------------------------------------------
# C17 part b: out-of-range hash results under current and pending geometry


def c17b_scripts(rng=None, nrandom=0):
    out = []
    keyed = ["ins 0 3 9", "ins 0 4 9", "find 0 3 n", "find 0 7 -1", "find 0 4 0", "erase 0 1", "erase 0 2", "erase 0 9"]
    others = ["rehash 0", "foreach 0 -1 0", "foreach 0 -1 1", "shrink 0 1", "resize 0 2 - 1", "resize 0 6 1 1",
              "fconst 0 -1", "clear 0 1", "clear 0 0"]
    fill = ["ins 0 3 1", "ins 0 4 2", "ins 0 7 3", "ins 0 9 4", "ins 0 2 5"]
    for b in ALWAYS_BAD + KEY_BAD:
        # bad function is the current one from the first resize on
        for op in keyed + others:
            out.append(["resize 0 4 %d 1" % b, op, "find 0 1 n"])
        # table filled under a good function, bad one pending (grow, shrink, same size)
        for n in (8, 2, 4):
            for op in keyed + others:
                out.append(["resize 0 4 1 1"] + fill + ["resize 0 %d %d 1" % (n, b), op, "find 0 4 n"])
        # a partly conditional function current with elements it accepts, a good one pending
        if b in KEY_BAD:
            for op in keyed + others:
                out.append(["resize 0 4 %d 1" % b, "ins 0 4 2", "ins 0 9 4", "ins 0 2 5", "resize 0 8 1 1", op,
                            "find 0 3 n", "find 0 7 n"])
                out.append(["resize 0 4 %d 1" % b, "ins 0 4 2", "ins 0 9 4", "ins 0 2 5", op, "find 0 3 n"])
    # functions that are in range for the size they were installed with and out of range for another:
    # table filled while the function behaves, then a resize that KEEPS the function ('-'), then
    # every kind of operation (the offending result is produced for a node being moved)
    fill2 = ["ins 0 %d %d" % (k, e) for e, k in enumerate((1, 2, 3, 5, 6, 7, 9, 11, 13, 4, 12), 1)]
    for b, n0, targets in ((10, 8, (4, 2, 16, 3)), (11, 4, (2, 3, 1, 8)), (12, 4, (8, 5, 16, 2)), (12, 2, (6,))):
        for n in targets:
            for op in keyed + others + ["find 0 1 n", "find 0 2 n", "find 0 5 n", "find 0 6 n", "erase 0 4", "ins 0 8 20"]:
                out.append(["resize 0 %d %d 1" % (n0, b)] + fill2 + ["resize 0 %d - 1" % n, op, "find 0 4 n", "rehash 0"])
                out.append(["resize 0 %d %d 1" % (n0, b)] + fill2 + ["resize 0 %d - 1" % n, "find 0 4 n", op, "rehash 0"])
    if rng is not None:
        for sc in random_scripts(rng, nrandom, 60, nkeys=12, maxn=8, nelem=40,
                                 fns=GOOD_FNS + ALWAYS_BAD + KEY_BAD + KEY_BAD + SIZE_BAD + SIZE_BAD, bad=True):
            out.append(sc)
    return [truncate_to_domain(sc, True) for sc in out]


def truncate_to_domain(script, allow_bad=False):
    """longest prefix inside the documented domain (e.g. no lookup in a cleared table)"""
    ref = Ref()
    for i, op in enumerate(script):
        if not ref.enabled(op, allow_bad):
            return script[:i]
        ref.apply(op)
    return script


# ---------------------------------------------------------------------------
# flows shared by tools/props/C03.py, C04.py, C19.py and (part b) C17.py


def _neighbourhood(small):
    near = []
    for tail in (["find 0 1 -1", "find 0 2 -1", "find 0 5 -1", "find 0 6 -1"], ["fconst 0 -1"], ["foreach 0 -1 0"],
                 ["clear 0 1", "resize 0 4 1 1", "ins 0 1 200", "find 0 1 n"], ["rehash 0", "find 0 1 -1", "find 0 2 -1"],
                 ["resize 0 2 - 1", "find 0 1 -1"], ["find 0 1 n", "find 0 1 n", "find 0 1 n", "find 0 1 n", "find 0 1 n"]):
        near.append(small + tail)
    return near


def run_prop(chk, leanchecker=True):
    """common flow of C03 / C04 / C19: corpus, closure, boundaries, random"""
    import sys
    area = sys.modules[__name__]
    prop = chk.prop
    c_exe, m_exe = vlib.prepare_area(chk, area, leanchecker=leanchecker)
    if not c_exe:
        return chk.finish()
    orc = oracle
    vlib.run_scripts(chk, area, c_exe, m_exe, corpus(), orc)
    vlib.run_scripts(chk, area, c_exe, m_exe, boundary_scripts(), orc)
    if chk.tier == "quick":
        rnd = random_scripts(chk.rng, 24, 400) + random_scripts(chk.rng, 30, 120, nkeys=6, maxn=6, nelem=24)
        scopes = [scope("quick")]
    else:
        rnd = random_scripts(chk.rng, 300, 800) + random_scripts(chk.rng, 400, 150, nkeys=6, maxn=6, nelem=24)
        scopes = [scope("thorough", 0), scope("thorough", 1)]
    notes = []
    for k, (elems, counts, fns, max_states) in enumerate(scopes):
        states0 = chk.stats["states"]
        closed = vlib.closure(chk, NAME, c_exe, m_exe, closure_init(elems), make_alphabet(elems, counts, fns, prop),
                              200, max_states, orc)
        nstates = chk.stats["states"] - states0
        closed = bool(closed) and nstates <= max_states     # states beyond the cap were seen but not expanded
        if k == 0:
            chk.exhaustive = closed
        notes.append("elements->keys %s, bucket counts %s, hash ids %s: %d states, closed=%s"
                     % (elems, list(counts), list(fns), nstates, closed))
    chk.extra["scope"] = ("closure over canonical model states, every operation of the alphabet from every state "
                          "(resize to every count with every function and NULL, also during a pending resize; "
                          "insert, find with no / rejecting / accepting visit function, erase present and absent, "
                          "rehash, shrink, foreach with erasing callbacks and early stop, foreach_const, clear): "
                          + "; ".join(notes) + "; 'exhaustive' refers to the first scope; random: %d histories over "
                          "2 tables with swap, up to 64 buckets, 64 keys; boundary bucket counts around 2^36, 2^60, "
                          "SIZE_MAX" % len(rnd))
    vlib.run_scripts(chk, area, c_exe, m_exe, rnd, orc)
    if chk.mismatches and not chk.oracle_failures:
        m = chk.mismatches[0]
        small = vlib.minimise(area, c_exe, m_exe, m["script"], in_domain)
        m["minimised"] = small
        vlib.run_scripts(chk, area, c_exe, m_exe, [s for s in _neighbourhood(small) if in_domain(s)], orc)
    return chk.finish()


def replay_prop(prop, path):
    import json
    import sys
    area = sys.modules[__name__]
    r = json.load(open(path))
    chk = vlib.Check(prop, "quick", 0)
    c_exe, m_exe = vlib.prepare_area(chk, area, theorems=[])
    ops = r.get("ops") or r.get("detail", {}).get("minimised") or r.get("detail", {}).get("script")
    c, m = vlib.run_pair(c_exe, m_exe, [ops], jobs=1)
    n = len(ops)
    for op, a, b in zip(ops, c[0] + ["<missing>"] * n, m[0] + ["<missing>"] * n):
        print("%-24s impl : %s\n%-24s model: %s" % (op, a, "", b))
    w = oracle(prop, ops, c[0])
    print("oracle:", w or "property holds on this input")
    return 1 if w else 0


def c17b_run(chk):
    """part b of C17 (table-level fail-stop); called by tools/props/C17.py, which
    calls chk.finish() itself"""
    import sys
    area = sys.modules[__name__]
    c_exe, m_exe = vlib.prepare_area(chk, area, theorems=THEOREMS["C17"], leanchecker=True)
    if not c_exe:
        return
    nr = 60 if chk.tier == "quick" else 600
    scripts = c17b_scripts(chk.rng, nr)
    vlib.run_scripts(chk, area, c_exe, m_exe, scripts, lambda prop, sc, c: oracle("C17", sc, c))
    chk.extra["c17b_scope"] = ("%d scripts: every keyed entry point and every entry point that can trigger "
                               "cleaning, with hash results m, m+1, SIZE_MAX (always / for some keys) as current "
                               "and as pending function; SIGABRT required, ASan report or SIGSEGV is a failure"
                               % len(scripts))


def c17b_replay(path):
    return replay_prop("C17", path)


# ---------------------------------------------------------------------------
# C16 (allocation failure): templates for tools/props/C16.py


def c16_templates(tier):
    """fault-enumeration templates: (format, nbits) ops take the plan string of the
    allocation requests they make; the first resize of each script is given a
    table to work with (a failed first resize followed by use is outside the
    hash table's documented domain), except in the retry template."""
    R = lambda n, f: ("resize 0 %d %s {}" % (n, f), 1)
    S = ("shrink 0 {}", 1)
    finds = ["find 0 %d n" % k for k in (1, 2, 3, 4, 9)]
    t1 = (["resize 0 2 1 1"] + ["ins 0 %d %d" % (k, k) for k in (1, 2, 3, 4)]
          + [R(8, "-")] + finds[:2] + [R(16, "2")] + finds + [S] + finds[:3]
          + ["erase 0 2", R(32, "1"), "find 0 1 n", S, "rehash 0"] + finds + ["fconst 0 -1", "clear 0 1",
             "resize 0 4 1 1", "ins 0 1 1", "find 0 1 n", "clear 0 1"])
    t2 = (["resize 0 2 1 0", "resize 0 2 1 1"] + ["ins 0 %d %d" % (k, k) for k in (1, 2, 3)]
          + [R(4, "-"), S, R(3, "2"), R(64, "-"), S] + finds + ["foreach 0 -1 0", "clear 0 1"])
    t3 = (["resize 0 1 1 1"] + ["ins 0 %d %d" % (k, k) for k in (5, 6)]
          + [R(2, "-"), "ins 0 7 7", R(4, "-"), "find 0 5 n", R(2, "-"), S, "find 0 6 n", "find 0 7 n", "clear 0 1"])
    thms = ["Cstl.Hash.resize_exact", "Cstl.Hash.shrink_exact", "Cstl.Hash.run_exact"]
    return [t1, t2, t3], (lambda sc: "C03"), thms
