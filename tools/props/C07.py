"""C07 — the heap always yields a maximum element (and the tree stays complete)"""
import vlib
from areas import heap


def explore(chk, c_exe, m_exe):
    quick = chk.tier == "quick"
    vlib.run_scripts(chk, heap, c_exe, m_exe, heap.corpus(), heap.oracle)
    # closure: every heap of up to 7 elements over 3 priorities reachable by any
    # interleaving of push/pop (+ get/size/clear), states up to renaming of ids
    max_n, nprio = 7, 3
    closed = vlib.closure(chk, heap.NAME, c_exe, m_exe, [], heap.closure_alphabet(max_n, nprio),
                          max_depth=40, max_states=20000, oracle=heap.oracle,
                          state_of=heap.closure_state)
    chk.exhaustive = closed
    chk.extra["scope"] = ("closure: every state reachable with at most %d elements over %d priorities "
                          "(states up to renaming of element addresses), every operation from every "
                          "state; closed=%s" % (max_n, nprio, closed))
    # cstl_fls on boundary values and random 64-bit inputs
    vlib.run_scripts(chk, heap, c_exe, m_exe, heap.fls_scripts(chk.rng, 2000 if quick else 40000), heap.oracle)
    # random histories
    if quick:
        rnd = heap.random_scripts(chk.rng, 10, 3000, 150)
        rnd += heap.random_scripts(chk.rng, 3, 8000, 1000, nprios=(0, 5, 40))
    else:
        rnd = heap.random_scripts(chk.rng, 30, 3000, 150)
        rnd += heap.random_scripts(chk.rng, 8, 14000, 1000, nprios=(0, 5, 40))
    live = 0
    for sc in rnd:
        n = mx = 0
        for op in sc:
            if op.startswith("push"):
                n += 1
            elif op == "pop":
                n = max(0, n - 1)
            elif op == "clear":
                n = 0
            mx = max(mx, n)
        live = max(live, mx)
    chk.extra["random_max_live"] = live
    vlib.run_scripts(chk, heap, c_exe, m_exe, rnd, heap.oracle)
    vlib.run_scripts(chk, heap, c_exe, m_exe, heap.clear_scripts(chk.rng, 9 if quick else 33), heap.oracle)


def search_near(chk, c_exe, m_exe):
    """only the correspondence broke: minimise, then look for a failing input
    of the property itself around the difference (drain the heap; push one of
    each priority and drain)"""
    m = chk.mismatches[0]
    small = vlib.minimise(heap, c_exe, m_exe, m["script"], heap.in_domain)
    m["minimised"] = small
    n = sum(1 for op in small if op.startswith("push"))
    drain = ["pop"] * (n + 2)
    near = [small + drain, small + ["get", "size"] + drain]
    for k in (0, 1, 2, 3):
        near.append(small + ["push %d 3990" % k] + drain)
        near.append(small + ["push %d 3990" % k, "push %d 3991" % (2 - k if k < 3 else 0)] + drain)
    base = m["script"]
    near.append(base + ["pop"] * (sum(1 for op in base if op.startswith("push")) + 2))
    vlib.run_scripts(chk, heap, c_exe, m_exe, [s for s in near if heap.in_domain(s)], heap.oracle)


def run(chk):
    c_exe, m_exe = vlib.prepare_area(chk, heap, leanchecker=True)
    if c_exe:
        explore(chk, c_exe, m_exe)
        if chk.mismatches and not chk.oracle_failures:
            search_near(chk, c_exe, m_exe)
    return chk.finish(assumptions=[
        "unsigned-int truncation of slot numbers in cstl_heap_find is not modelled (heaps below 2^31 elements)",
        "cstl_heap_promote_child is modelled as exchanging the positions of two elements; its six-neighbour "
        "relinking is covered by the link-checked level-order dump of the harness, not by a theorem",
    ])


def replay(path):
    import json
    r = json.load(open(path))
    chk = vlib.Check("C07", "quick", 0)
    c_exe, m_exe = vlib.prepare_area(chk, heap, theorems=[])
    ops = r.get("ops") or r.get("detail", {}).get("minimised") or r.get("detail", {}).get("script")
    c, m = vlib.run_pair(c_exe, m_exe, [ops], jobs=1)
    for op, a, b in zip(ops, c[0] + ["<missing>"] * len(ops), m[0] + ["<missing>"] * len(ops)):
        print("%-20s impl: %s\n%-20s model: %s" % (op, a[:300], "", b[:300]))
    w = heap.oracle("C07", ops, c[0])
    print("oracle:", w or "property holds on this input")
    return 1 if w else 0
