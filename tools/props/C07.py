"""C07 — the heap always yields a maximum element (and the tree stays complete)"""
import vlib
from areas import heap, treel, heapl


def explore(chk, c_exe, m_exe):
    quick = chk.tier == "quick"
    vlib.run_scripts(chk, heap, c_exe, m_exe, heap.corpus(), heap.oracle)
    # closure: every heap of up to 7 elements over 3 priorities reachable by any
    # interleaving of push/pop (+ get/size/clear), states up to renaming of ids
    max_n, nprio = (7, 3) if quick else (9, 3)
    transitions = []

    def recording_oracle(prop, script, c_lines):
        transitions.append(script)
        return heap.oracle(prop, script, c_lines)

    closed = vlib.closure(chk, heap.NAME, c_exe, m_exe, [], heap.closure_alphabet(max_n, nprio),
                          max_depth=40, max_states=20000, oracle=recording_oracle,
                          state_of=heap.closure_state)
    # every transition of the closure once more, followed by a drain, so that the
    # oracle sees the consequences of the last operation (the closure itself
    # continues from one representative history per state)
    vlib.run_scripts(chk, heap, c_exe, m_exe,
                     [heap.drained(sc) for sc in transitions if sc[-1].split()[0] in ("push", "pop", "clear")],
                     heap.oracle)
    # every push/pop history of a fixed length over 3 priorities, drained
    hist_len = 6 if quick else 8
    vlib.run_scripts(chk, heap, c_exe, m_exe, heap.all_histories(hist_len, 3), heap.oracle)
    chk.extra["all_histories"] = "every sequence of %d operations from {push 0, push 1, push 2, pop}, then drained" % hist_len
    chk.exhaustive = closed
    chk.extra["scope"] = ("closure: every state reachable with at most %d elements over %d priorities "
                          "(states up to renaming of element addresses), every operation from every "
                          "state; closed=%s" % (max_n, nprio, closed))
    # cstl_fls on boundary values and random 64-bit inputs
    vlib.run_scripts(chk, heap, c_exe, m_exe, heap.fls_scripts(chk.rng, 2000 if quick else 40000), heap.oracle)
    # random histories
    if quick:
        rnd = heap.random_scripts(chk.rng, 10, 3000, 150)
        rnd += heap.random_scripts(chk.rng, 3, 8000, 1000, nprios=(0, 5, 40))
    else:
        rnd = heap.random_scripts(chk.rng, 30, 3000, 150)
        rnd += heap.random_scripts(chk.rng, 12, 20000, 1000, nprios=(0, 5, 40))
    live = 0
    for sc in rnd:
        n = mx = 0
        for op in sc:
            if op.startswith("push"):
                n += 1
            elif op == "pop":
                n = max(0, n - 1)
            elif op == "clear":
                n = 0
            mx = max(mx, n)
        live = max(live, mx)
    chk.extra["random_max_live"] = live
    vlib.run_scripts(chk, heap, c_exe, m_exe, rnd, heap.oracle)
    vlib.run_scripts(chk, heap, c_exe, m_exe, heap.clear_scripts(chk.rng, 9 if quick else 33), heap.oracle)
    # large heaps (depth >= 17): every step checked inside the harness, pop order compared with the model
    bulk = heap.bulk_scripts(chk.rng, quick)
    chk.extra["bulk"] = [sc[0] for sc in bulk]
    vlib.run_scripts(chk, heap, c_exe, m_exe, bulk, heap.oracle)


def search_near(chk, c_exe, m_exe):
    """only the correspondence broke: minimise, then look for a failing input
    of the property itself around the difference (drain the heap; push one of
    each priority and drain)"""
    m = chk.mismatches[0]
    small = vlib.minimise(heap, c_exe, m_exe, m["script"], heap.in_domain)
    m["minimised"] = small
    n = sum(1 for op in small if op.startswith("push"))
    drain = ["pop"] * (n + 2)
    near = [small + drain, small + ["get", "size"] + drain]
    for k in (0, 1, 2, 3):
        near.append(small + ["push %d 3990" % k] + drain)
        near.append(small + ["push %d 3990" % k, "push %d 3991" % (2 - k if k < 3 else 0)] + drain)
    base = m["script"]
    near.append(base + ["pop"] * (sum(1 for op in base if op.startswith("push")) + 2))
    vlib.run_scripts(chk, heap, c_exe, m_exe, [s for s in near if heap.in_domain(s)], heap.oracle)


def shortest_first(chk):
    """report the shortest failing inputs, cut after the operation that fails"""
    import re
    for f in chk.oracle_failures:
        m = re.match(r"op (\d+) ", f["what"])
        if m:
            k = int(m.group(1)) + 1
            f["script"] = f["script"][:k]
            if f.get("impl_output"):
                f["impl_output"] = f["impl_output"][:k]
    chk.oracle_failures.sort(key=lambda f: len(f["script"]))


def run(chk):
    # the long random histories stay far below the runtime's per-script wall-clock
    # limit (0.3 s against 4 s), but the machine may be loaded; real hangs are cut
    # by the harness's own CPU-time watchdog (2 s per operation)
    vlib.HARNESS_ENV["H_SCRIPT_TIMEOUT"] = "30"
    treel.promote_child_run(chk)
    c_exe, m_exe = vlib.prepare_area(chk, heap, leanchecker=True)
    if c_exe:
        explore(chk, c_exe, m_exe)
        # pointer level: heap.c with l/r/p links refines the functional model
        heapl.link_level_run(chk, c_exe)
        if chk.mismatches and not chk.oracle_failures:
            search_near(chk, c_exe, m_exe)
        shortest_first(chk)
    heapl.tie_run(chk)
    return chk.finish(assumptions=[
        "unsigned-int truncation of slot numbers in cstl_heap_find is not modelled (heaps below 2^31 elements)",
    ])


def replay(path):
    import json
    r = json.load(open(path))
    chk = vlib.Check("C07", "quick", 0)
    c_exe, m_exe = vlib.prepare_area(chk, heap, theorems=[])
    ops = r.get("ops") or r.get("detail", {}).get("minimised") or r.get("detail", {}).get("script")
    c, m = vlib.run_pair(c_exe, m_exe, [ops], jobs=1)
    for op, a, b in zip(ops, c[0] + ["<missing>"] * len(ops), m[0] + ["<missing>"] * len(ops)):
        print("%-20s impl: %s\n%-20s model: %s" % (op, a[:300], "", b[:300]))
    w = heap.oracle("C07", ops, c[0])
    print("oracle:", w or "property holds on this input")
    return 1 if w else 0
