"""C02 — Red-black trees satisfy the red-black rules after every insert and erase"""
from areas import tree


def run(chk):
    return tree.run_check(chk, "C02")


def replay(path):
    return tree.replay("C02", path)
