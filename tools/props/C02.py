"""C02 — Red-black trees satisfy the red-black rules after every insert and erase

Two layers: the functional model (areas/tree.py: colour rules, height bound)
and the link-level model (areas/treel.py: the fix-up loops navigating through
parent links refine the functional model; every child's parent link proved)."""
from areas import tree, treel, treel_tie


def run(chk):
    treel.link_level_run(chk)
    treel_tie.tie2_run(chk)
    return tree.run_check(chk, "C02")


def replay(path):
    return tree.replay("C02", path)
