"""C16 — allocation failure never corrupts a container.

Fault enumeration over the allocating operations of every area whose model
takes the allocator's answers as a parameter (map, vector, string, hash table,
smart pointers, array views): per script, every single allocation failing,
every suffix failing, every pair failing (all triples for short scripts),
followed by continued use and the leak audit of the area's ledger oracle.  The
theorems are the allocation-failure theorems of those areas (they quantify
over ALL oracle answers)."""
import itertools

import vlib


def masks(nbits):
    """failure patterns over `nbits` allocation requests: '1' = succeeds"""
    out = [[1] * nbits]
    for i in range(nbits):                       # every single failure
        m = [1] * nbits
        m[i] = 0
        out.append(m)
    for i in range(nbits):                       # every suffix
        out.append([1] * i + [0] * (nbits - i))
    for i, j in itertools.combinations(range(nbits), 2):     # every pair
        m = [1] * nbits
        m[i] = m[j] = 0
        out.append(m)
    if nbits <= 6:
        for c in itertools.combinations(range(nbits), 3):    # every triple for short scripts
            m = [1] * nbits
            for i in c:
                m[i] = 0
            out.append(m)
    seen, uniq = set(), []
    for m in out:
        t = tuple(m)
        if t not in seen:
            seen.add(t)
            uniq.append(m)
    return uniq


def expand(template):
    """template: list of ops; an op is a string, or (format, nbits) whose `{}` takes the
    plan string for its `nbits` allocation requests.  Returns every faulted script."""
    nbits = sum(n for t in template if isinstance(t, tuple) for n in [t[1]])
    out = []
    for m in masks(nbits):
        pos = 0
        sc = []
        for t in template:
            if isinstance(t, tuple):
                fmt, n = t
                sc.append(fmt.format("".join(str(b) for b in m[pos:pos + n])))
                pos += n
            else:
                sc.append(t)
        out.append(sc)
    return out, nbits


def part(chk, area, prop_for_oracle, templates, theorems):
    """run the fault enumeration of one area"""
    c_exe, m_exe = vlib.prepare_area(chk, area, theorems=theorems, leanchecker=True)
    if not c_exe:
        return
    orc = (lambda prop, sc, out: area.oracle(prop_for_oracle(sc), sc, out))
    total = 0
    for tpl in templates:
        scripts, nbits = expand(tpl)
        total += len(scripts)
        vlib.run_scripts(chk, area, c_exe, m_exe, scripts, orc)
    chk.extra.setdefault("fault_scripts", {})[area.NAME] = total
    if chk.oracle_failures:
        vlib.shrink_failures(chk, area, c_exe, orc, None, limit=2)


def run(chk):
    from areas import tree
    parts = []
    # --- map: one malloc per insert of a new key
    ins = lambda ko, v: ("map ins %d %d {}" % (ko, v), 1)
    map_templates = [
        [ins(0, 1), ins(2, 2), ins(4, 3), "map find 1", ins(2, 7), ins(6, 4), "map erase 0", ins(0, 5), "map eraseit 2",
         ins(8, 6), "map find 0", "map find 4", "map clear", ins(1, 1), "map find 0", "map clear"],
        [ins(k, k % 8) for k in (10, 6, 14, 4, 8, 12, 16)] + ["map erase 3", "map erase 7"] + [ins(k, 0) for k in (6, 14)]
        + ["map find %d" % k for k in range(9)] + ["map clear0", "map clear"],
    ]
    part(chk, tree, lambda sc: "C08", map_templates,
         ["Cstl.Tree.mapInsert_fail", "Cstl.Tree.mapInsert_new", "Cstl.Tree.mapInsert_existing",
          "Cstl.Tree.run_refines", "Cstl.Tree.rep_live_iff"])
    for name in ("vec", "hash", "mem"):
        try:
            mod = __import__("areas." + name, fromlist=[name])
        except ImportError:
            chk.notes.append("area %s not present" % name)
            continue
        if hasattr(mod, "c16_templates"):
            tpls, prop_of, thms = mod.c16_templates(chk.tier)
            part(chk, mod, prop_of, tpls, thms)
        else:
            chk.notes.append("area %s does not export c16_templates" % name)
    chk.exhaustive = True
    chk.extra["scope"] = ("per script: all allocations succeed; every single allocation fails; every suffix fails; every "
                          "pair fails; every triple for scripts with <= 6 allocations; continued use afterwards; "
                          "ledger audit (every block freed exactly once, nothing leaked) by the area's oracle")
    return chk.finish(level="proof")


def replay(path):
    import json
    r = json.load(open(path))
    name = r.get("area") or (r.get("detail") or {}).get("area")
    mod = __import__("areas." + name, fromlist=[name])
    chk = vlib.Check("C16", "quick", 0)
    c_exe, m_exe = vlib.prepare_area(chk, mod, theorems=[])
    d = r.get("detail") or {}
    ops = r.get("ops") or d.get("minimised") or d.get("script")
    c, m = vlib.run_pair(c_exe, m_exe, [ops], jobs=1)
    for op, a, b in zip(ops, c[0] + ["<missing>"] * len(ops), m[0] + ["<missing>"] * len(ops)):
        print("%-28s impl: %s\n%-28s model: %s" % (op, a, "", b))
    return 0
