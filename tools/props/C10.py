"""C10 — strings equal a reference string after every edit and stay NUL-terminated"""
import json

import vlib
from areas import vec
from areas import vec_tie

PROP = "C10"


def neighbourhood(script):
    tails = []
    for wd in ("s", "w"):
        a, b = wd + "0", wd + "1"
        tails += [["str %s" % a], ["str %s" % b], ["appch %s 1 122" % a, "str %s" % a], ["erase %s 0 M" % a, "str %s" % a],
                  ["substr %s 0 M %s" % (a, b), "str %s" % b], ["cmp %s %s" % (a, b)], ["sresize %s 2" % a, "str %s" % a]]
    return [script + t for t in tails] + [script[:k] for k in range(1, len(script))]


def run(chk):
    c_exe, m_exe = vlib.prepare_area(chk, vec, leanchecker=True)
    vec_tie.tie_run(chk, vec_tie.TIE_BY_PROP["C10"])
    from areas import swap_tie
    swap_tie.tie_run(chk, "vec2", swap_tie.TIE_BY_PROP["C10"])
    if c_exe:
        quick = chk.tier == "quick"
        vlib.run_scripts(chk, vec, c_exe, m_exe, vec.corpus(PROP), vec.oracle)
        vlib.run_scripts(chk, vec, c_exe, m_exe, vec.fault_scripts(), vec.oracle)
        vlib.run_scripts(chk, vec, c_exe, m_exe, vec.string_boundaries(chk.tier), vec.oracle)
        # closure to a fixed point per width (the state cap is never the reason the search ends)
        # (width, max length, with observers)
        runs = [("s", 2, True), ("w", 2, True)] if quick else [("s", 3, True), ("w", 2, True)]
        scopes = {"s": 2 if quick else 3, "w": 2}
        allclosed = True
        before = chk.stats["states"]
        for wd, ml, obs in runs:
            closed = vlib.closure(chk, vec.NAME, c_exe, m_exe, [], vec.string_alphabet(wd, ml, observers=obs),
                                  max_depth=60, max_states=10 ** 6,
                                  oracle=vec.oracle, state_of=vec.canon_state)
            allclosed = allclosed and bool(closed)
        chk.exhaustive = allclosed
        chk.extra["scope"] = ("closure per width (fixed point reached=%s, %d canonical states): two string objects, "
                              "strings of length <= %d (narrow) / <= %d (wide) over {a,b} plus NUL (through resize), "
                              "every edit/observer incl. out-of-range positions and the all-ones count from every "
                              "reachable (contents, capacity) state; boundaries: positions x counts from the DESIGN 3.4 "
                              "set for every edit in 5 states, both widths"
                              % (allclosed, chk.stats["states"] - before, scopes["s"], scopes["w"]))
        rnd = (vec.random_scripts(chk.rng, 100 if quick else 2000, 60 if quick else 150, "s")
               + vec.random_scripts(chk.rng, 100 if quick else 2000, 60 if quick else 150, "w"))
        vlib.run_scripts(chk, vec, c_exe, m_exe, rnd, vec.oracle)
        if chk.mismatches and not chk.oracle_failures:
            m = chk.mismatches[0]
            small = vlib.minimise(vec, c_exe, m_exe, m["script"], vec.in_domain)
            m["minimised"] = small
            vlib.run_scripts(chk, vec, c_exe, m_exe, neighbourhood(small), vec.oracle)
    return chk.finish(assumptions=[
        "allocator: the model's realloc is a parameter; the driver and the harness fail every request above 65536 bytes",
        "the C library's strchr/strstr/strcmp (wcs*) are modelled on the NUL-terminated view (unsigned char / signed "
        "32-bit wchar_t order); the harness prints the C library's own answer on a copy of the characters beside the "
        "string object's answer",
        "source and destination strings are distinct objects; insert_str_n is given at least n readable characters"])


def replay(path):
    r = json.load(open(path))
    chk = vlib.Check(PROP, "quick", 0)
    c_exe, m_exe = vlib.prepare_area(chk, vec, theorems=[])
    ops = r.get("ops") or r.get("detail", {}).get("minimised") or r.get("detail", {}).get("script")
    c, m = vlib.run_pair(c_exe, m_exe, [ops], jobs=1)
    n = max(len(ops), len(c[0]), len(m[0]))
    for op, a, b in zip(ops + [""] * n, c[0] + ["<missing>"] * n, m[0] + ["<missing>"] * n):
        if op == "" and a == "<missing>" and b == "<missing>":
            break
        print("%-28s impl:  %s\n%-28s model: %s" % (op, a, "", b))
    w = vec.oracle(PROP, ops, c[0])
    print("oracle:", w or "property holds on this input")
    return 1 if w else 0
