"""C20 — bitwise-copied smart pointers are caught before they can double-free"""
import vlib
from areas import mem
from props import C05 as base

PROP = "C20"


def run(chk):
    c_exe, m_exe = vlib.prepare_area(chk, mem, leanchecker=True)
    if c_exe:
        vlib.run_scripts(chk, mem, c_exe, m_exe, mem.corpus(), mem.oracle)
        quick = chk.tier == "quick"
        table = mem.c20_table()
        bad = [sc for sc in table if not mem.in_domain(sc)]
        if bad:
            chk.notes.append("table rows outside the documented domain (skipped by the oracle): %d" % len(bad))
        vlib.run_scripts(chk, mem, c_exe, m_exe, table, mem.oracle)
        chk.stats["transitions"] += len(table)
        aborted = sum(1 for sc in table if mem.expected_abort(sc))
        chk.extra["table"] = {"rows": len(table), "rows_expected_to_abort": aborted,
                              "rows_overwrite_only_or_not_reading": len(table) - aborted}
        chk.exhaustive = True
        chk.extra["scope"] = ("the property's table: %d public functions/argument shapes x argument position x object state "
                              "(empty, owning, shared, weak-only, dead) x copy by assignment / memcpy x co-argument "
                              "(empty, owning), the original exercised before and after; plus the original as co-argument "
                              "of its own copy; conversely no abort in histories of properly moved objects with stray "
                              "copies lying around untouched" % len(mem.CALLS))
        # conversely: long histories in which stray copies exist but are only ever overwritten (init) or left alone
        if quick:
            rnd = mem.random_scripts(chk.rng, 600, 150, "all", stray=0.04)
        else:
            rnd = mem.random_scripts(chk.rng, 4000, 250, "all", stray=0.04, na=6, ng=4)
        vlib.run_scripts(chk, mem, c_exe, m_exe, rnd, mem.oracle)
        base.search_near(chk, c_exe, m_exe)
    from areas import mem_tie
    mem_tie.tie_run(chk)
    return chk.finish()


def replay(path):
    return base.replay(path, PROP)
