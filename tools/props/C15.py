"""C15 — clear hands over each element exactly once and never touches it again
(binary tree, red-black tree, map, heap, both lists)"""
import vlib
from areas import slist, dlist, tree, heap


def _list_clear_scripts(area, quick):
    """every reference state of one list (<= 5 elements) and of two lists
    (<= 4 elements): clear there with the poisoning callback, then a fresh fill
    and use of the cleared list"""
    out = []
    for nelem, nlists, depth in ((5, 1, 12), (4 if quick else 5, 2, 12)):
        scripts, _, _ = area.exhaustive_scripts(nelem=nelem, nlists=nlists, depth=depth, rich=False) \
            if area is dlist else area.exhaustive_scripts(nelem=nelem, nlists=nlists, depth=depth)
        for sc in scripts:
            last = sc[-1].split()
            if last[0] != "clear":
                continue
            l = last[1]
            refill = ["pushb %s 30" % l, "pushf %s 31" % l, "pushb %s 32" % l, "rev %s" % l, "popf %s" % l,
                      "back %s" % l, "front %s" % l, "clear %s" % l, "pushb %s 33" % l, "back %s" % l]
            out.append(sc + refill)
    return out


def run(chk):
    quick = chk.tier == "quick"
    closed = True
    # --- lists
    for area in (slist, dlist):
        c_exe, m_exe = vlib.prepare_area(chk, area, leanchecker=True)
        if not c_exe:
            continue
        vlib.run_scripts(chk, area, c_exe, m_exe, area.corpus(), area.oracle)
        vlib.run_scripts(chk, area, c_exe, m_exe, _list_clear_scripts(area, quick), area.oracle)
        rnd = area.random_scripts(chk.rng, 20 if quick else 200, 200, 14)
        vlib.run_scripts(chk, area, c_exe, m_exe, rnd, area.oracle)
        if chk.oracle_failures:
            vlib.shrink_failures(chk, area, c_exe, area.oracle, None)
    # --- binary tree, red-black tree, map: clear is in the closure alphabet of every state
    c_exe, m_exe = vlib.prepare_area(chk, tree, leanchecker=True)
    if c_exe:
        cleared_in = []     # closure transitions whose last operation is a clear

        def tree_oracle(prop, script, c_lines):
            if script and script[-1].split()[-1] in ("clear", "clear0"):
                cleared_in.append(script)
            return tree.oracle(prop, script, c_lines)
        vlib.run_scripts(chk, tree, c_exe, m_exe, tree.corpus(), tree.oracle)
        strip = lambda l: tree.strip_ids(l.split("|", 1)[1]) if "|" in l else l
        for cont, nmax, keys in ([("bt", 6, (0, 1, 2)), ("rb", 6, (0, 1, 2))] if quick
                                 else [("bt", 7, (0, 1, 2)), ("rb", 8, (0, 1, 2))]):
            closed = vlib.closure(chk, tree.NAME, c_exe, m_exe, [], tree.tree_alphabet(cont, keys, nmax),
                                  20 if quick else 30, 100000 if quick else 400000, tree_oracle, state_of=strip) and closed
        closed = vlib.closure(chk, tree.NAME, c_exe, m_exe, [], tree.map_alphabet(4 if quick else 5), 14, 100000,
                              tree_oracle, state_of=lambda l: tree.strip_payload(l.split("|", 1)[1]) if "|" in l else l) and closed
        # states that distinguish the stored key / value pointers (one key object is the NULL pointer)
        closed = vlib.closure(chk, tree.NAME, c_exe, m_exe, [], tree.map_alphabet(3 if quick else 4), 14, 400000,
                              tree.oracle, state_of=lambda l: tree.strip_ids(l.split("|", 1)[1]) if "|" in l else l) and closed
        # "usable exactly like a freshly initialised one": after every clear reached in the closures (the
        # model's state is the initial one again, whatever the history left behind in the real object),
        # a fresh fill, use, erase, second clear and refill
        refill = {"map": ["map ins 0 1 1", "map ins 2 2 1", "map find 0", "map eraseit 1", "map clear", "map ins 4 1 1",
                          "map ins 6 2 1", "map erase 2", "map clear0", "map ins 0 1 1", "map clear"]}
        for c in ("bt", "rb"):
            refill[c] = [c + " ins 1 5", c + " ins 2 3", c + " ins 3 8", c + " find 5", c + " erase 3", c + " fe fwd -1",
                         c + " clear", c + " ins 1 1", c + " clear"]
        again = [sc + refill[sc[-1].split()[0]] for sc in cleared_in]
        chk.extra["clear_then_reuse_scripts"] = len(again)
        vlib.run_scripts(chk, tree, c_exe, m_exe, again, tree.oracle)
        if chk.oracle_failures:
            vlib.shrink_failures(chk, tree, c_exe, tree.oracle, None)
    # --- heap
    c_exe, m_exe = vlib.prepare_area(chk, heap, leanchecker=True)
    if c_exe:
        closed = vlib.closure(chk, heap.NAME, c_exe, m_exe, [], heap.closure_alphabet(7 if quick else 9, 3),
                              max_depth=40, max_states=20000, oracle=heap.oracle, state_of=heap.closure_state) and closed
        vlib.run_scripts(chk, heap, c_exe, m_exe, heap.clear_scripts(chk.rng, 9 if quick else 33), heap.oracle)
    from areas import hashtree_tie
    hashtree_tie.tie_run(chk, "tree3")
    chk.exhaustive = closed
    chk.extra["scope"] = ("clear (callback frees/poisons the element) applied in every container state of the small-scope "
                          "closures of slist, dlist (<= 5 elements, 1-2 lists), bintree, rbtree (<= 6-8 elements / 3 keys), "
                          "map (4-5 keys), heap (<= 7-9 elements), each followed by a fresh fill and use; closed=%s" % closed)
    return chk.finish()


def replay(path):
    import json
    r = json.load(open(path))
    area = {"slist": slist, "dlist": dlist, "tree": tree, "heap": heap}[r.get("area") or (r.get("detail") or {}).get("area")]
    chk = vlib.Check("C15", "quick", 0)
    c_exe, m_exe = vlib.prepare_area(chk, area, theorems=[])
    d = r.get("detail") or {}
    ops = r.get("ops") or d.get("minimised") or d.get("script")
    c, m = vlib.run_pair(c_exe, m_exe, [ops], jobs=1)
    for op, a, b in zip(ops, c[0] + ["<missing>"] * len(ops), m[0] + ["<missing>"] * len(ops)):
        print("%-20s impl: %s\n%-20s model: %s" % (op, a, "", b))
    w = area.oracle("C15", ops, c[0])
    print("oracle:", w or "property holds on this input")
    return 1 if w else 0
