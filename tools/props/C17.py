"""C17 — bucket selection is fail-stop: built-in hashes stay in range, bad ones abort

(a) numeric half (area hashfn, this file): cstl_hash_div / cstl_hash_mul return a
    value in [0, m) — theorems over all naturals + compiled code vs the binary32
    model on the float boundary grid;
(b) table half (area hash): a caller hash returning >= m aborts — delegated to
    areas/hash.py (`c17b_run`, `THEOREMS["C17"]`) when that area is present.
"""
import importlib
import json
import os

import vlib
from areas import hashfn


def load_hash_area():
    """the table-level half lives in areas/hash.py (another area); use it when
    it is there and exports what this check needs"""
    if not os.path.exists(os.path.join(os.path.dirname(hashfn.__file__), "hash.py")):
        return None, "tools/areas/hash.py not present: only the numeric half (C17a) was checked"
    H = importlib.import_module("areas.hash")
    if not hasattr(H, "c17b_run") or "C17" not in getattr(H, "THEOREMS", {}):
        return None, "tools/areas/hash.py does not export c17b_run / THEOREMS['C17']: only C17a was checked"
    return H, None


def run_on(chk, exes, m_exe, ops, tag):
    """run a list of ops (in batches) on every build of the implementation"""
    scripts = hashfn.batches(ops)
    for name, c_exe in exes:
        vlib.run_scripts(chk, hashfn, c_exe, m_exe, scripts, hashfn.oracle)
    chk.extra.setdefault("generators", {})[tag] = len(ops)


def run_a(chk):
    c_exe, m_exe = vlib.prepare_area(chk, hashfn, leanchecker=True)
    if not c_exe:
        return
    exes = [("asan -O1 gnu99", c_exe)]
    try:
        rel = vlib.build_harness(hashfn.NAME, hashfn.HARNESS_SRCS, hashfn.REPO_SRCS,
                                 cflags=hashfn.RELEASE_CFLAGS, wrap_alloc=False, sanitize=False,
                                 out_name="hashfn_rel")
        exes.append(("project release flags -O2 c99", rel))
    except vlib.BuildError as e:
        chk.build_problems.append(("hashfn harness with the project's release flags", str(e)[-1500:]))
    chk.extra["implementation_builds"] = [n for n, _ in exes]

    # the harness refuses to compute when FLT_EVAL_METHOD != 0 (prints STOP bad-float-environment)
    run_on(chk, exes, m_exe, hashfn.corpus()[0], "corpus")
    grid, info = hashfn.grid_ops(chk.rng, chk.tier)
    chk.extra["grid"] = info
    run_on(chk, exes, m_exe, grid, "boundary_grid")
    nrand = 200000 if chk.tier == "quick" else 1200000
    run_on(chk, exes, m_exe, hashfn.random_ops(chk.rng, nrand), "random_pairs")
    if chk.tier == "thorough":
        ms = hashfn.float_grid(chk.rng, 8, lo=1)
        run_on(chk, exes[-1:], m_exe, hashfn.all_live_keys_ops(chk.rng, ms), "every_key_with_live_fraction")
    chk.exhaustive = False
    chk.extra["scope"] = ("every binary32 exponent 0..63 (and 2^64) for (float)m and (float)k x {min, max, "
                          "neighbouring, random} significands with the integers at both rounding boundaries "
                          "of each float; keys with extreme fractions per product exponent; powers of two +-1; "
                          "SIZE_MAX neighbours; seeded random pairs"
                          + ("; every key 0..5299999 (all keys whose product has fractional bits)"
                             if chk.tier == "thorough" else ""))

    if chk.mismatches and not chk.oracle_failures:
        # stateless area: the differing op alone is the minimised input
        m = chk.mismatches[0]
        op = m["script"][m["index"]] if m["index"] < len(m["script"]) else m["script"][-1]
        m["minimised"] = [op]
        m["script"] = [op]
        m["index"] = 0
        near = hashfn.neighbourhood_ops(chk.rng, op)
        scripts = hashfn.batches(near)
        before = len(chk.mismatches)
        for name, c_exe in exes:
            vlib.run_scripts(chk, hashfn, c_exe, m_exe, scripts, hashfn.oracle)
        chk.extra["neighbourhood_search_ops"] = len(near)
        del chk.mismatches[max(before, 1):]
        if not chk.oracle_failures:
            # still nothing: brute-force scan on the implementation alone (release
            # build, no model): every key below 2^28 for a few table sizes
            import os as _os
            ms = [16, 3, 1000003, (1 << 24) + 1]
            chunk = 1 << 24
            scans = [["scan %d %d %d" % (mm, lo, lo + chunk)] for mm in ms for lo in range(0, 1 << 28, chunk)]
            outs, _ = vlib.run_exe(exes[-1][1], scans, env=dict(vlib.HARNESS_ENV, H_SCRIPT_TIMEOUT="120"))
            found = []
            for sc, o in zip(scans, outs):
                if o and o[0].startswith("bad "):
                    found.append("mul %s %s" % (o[0].split()[1], sc[0].split()[1]))
            chk.extra["directed_scan"] = {"table_sizes": ms, "keys_per_size": 1 << 28, "found": found[:5]}
            if found:
                for name, c_exe in exes:
                    vlib.run_scripts(chk, hashfn, c_exe, m_exe, [[f] for f in found[:5]], hashfn.oracle)
                del chk.mismatches[max(before, 1):]
        # keep failing inputs small: one op
    for f in chk.oracle_failures:
        if f.get("area") == hashfn.NAME and len(f["script"]) > 1:
            w = f["what"]
            try:
                i = int(w.split()[1].rstrip(":"))
                f["impl_output"] = [f["impl_output"][i]] if i < len(f.get("impl_output") or []) else None
                f["script"] = [f["script"][i]]
                f["what"] = w.replace("op %d" % i, "op 0", 1)
            except (ValueError, IndexError):
                pass
    seen, uniq = set(), []
    for f in chk.oracle_failures:
        key = (f.get("area"), tuple(f["script"]))
        if key not in seen:
            seen.add(key)
            uniq.append(f)
    chk.oracle_failures[:] = uniq


def run(chk):
    run_a(chk)
    H, note = load_hash_area()
    if H is None:
        chk.notes.append(note)
    else:
        H.c17b_run(chk)
        try:
            from areas import hashl
            hashl.link_level_run(chk)
        except ImportError:
            pass
        missing = [t for t in H.THEOREMS["C17"] if t not in chk.theorems]
        if missing:
            chk.theorems.update(vlib.audit(missing, H.IMPORTS))
    return chk.finish(assumptions=[
        "the FPU/compiler implement IEEE-754 binary32 round-to-nearest-even with FLT_EVAL_METHOD == 0 "
        "(asserted by harness/hashfn.c; validated by the model-vs-code comparison)"])


def replay(path):
    r = json.load(open(path))
    area = r.get("area") or (r.get("detail") or {}).get("area")
    if area and area != hashfn.NAME:
        H, note = load_hash_area()
        if H is not None and hasattr(H, "c17b_replay"):
            return H.c17b_replay(path)
        print(note or "no replay function for area %s" % area)
        return 2
    chk = vlib.Check("C17", "quick", 0)
    c_exe, m_exe = vlib.prepare_area(chk, hashfn, theorems=[])
    if not c_exe:
        print("could not build:", chk.build_problems)
        return 2
    d = r.get("detail") or {}
    ops = r.get("ops") or (d.get("minimised") if isinstance(d, dict) else None) or \
        (d.get("script") if isinstance(d, dict) else None)
    if not ops:
        print("nothing to replay (theorem/build problem): %s" % r.get("no_longer_checks"))
        return 1
    c, m = vlib.run_pair(c_exe, m_exe, [ops], jobs=1)
    for op, a, b in zip(ops, c[0] + ["<missing>"] * len(ops), m[0] + ["<missing>"] * len(ops)):
        print("%-44s impl: %s\n%-44s model: %s" % (op, a, "", b))
    w = hashfn.oracle("C17", ops, c[0])
    print("oracle:", w or "property holds on this input")
    return 1 if w else 0
