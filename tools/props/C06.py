"""C06 — reference counting is correct under every thread interleaving"""
import json
import os

import vlib
from areas import conc


def _scripts_for(chk, scn, rng, mode, nrandom=0, all_limit=0):
    """explore one scenario; returns scripts.  mode: 'cover' | 'random'"""
    scripts = []
    if mode == "cover":
        g = conc.Graph(scn)
        chk.stats["states"] += g.nstates
        chk.stats["transitions"] += g.ntrans
        if not g.complete:
            chk.exhaustive = False
        for what, s in g.problems[:3]:
            chk.notes.append("generator-side model reports '%s' in scenario %s (schedule %s)"
                             % (what, scn, g.path_to(s)))
        scheds = None
        if all_limit:
            scheds = g.all_schedules(all_limit)
            if scheds is not None:
                chk.extra["all_maximal_schedules"] = chk.extra.get("all_maximal_schedules", 0) + len(scheds)
        cov = g.covering_schedules()
        scheds = cov + (scheds or [])
        for _ in range(nrandom):
            scheds.append(g.random_schedule(rng))
        scripts = [conc.script_of(scn, p) for p in scheds]
    else:
        g = conc.Graph(scn, max_states=1)   # no closure: random walks only
        for _ in range(nrandom):
            scripts.append(conc.script_of(scn, g.random_schedule(rng)))
    return scripts


def _blind_schedules(rng, scn, count, length):
    """schedules that do not depend on any model: uniformly random thread ids with bursts,
    followed by a long round-robin tail"""
    out = []
    n = len(scn)
    for _ in range(count):
        p = []
        while len(p) < length:
            t = rng.randrange(n)
            p += [t] * rng.choice([1, 1, 1, 2, 2, 3, 4])
        out.append(conc.script_of(scn, p[:length], tail_rounds=10))
    return out


def directed_search(chk, c_exe):
    """after a correspondence difference: look for a concrete failing schedule on the real code
    alone (independent oracle, no model)"""
    scripts = []
    for _, scn in conc.selected_scenarios() + conc.four_thread_scenarios():
        scripts += _blind_schedules(chk.rng, scn, 1500, 14)
    for scn in conc.two_thread_scenarios()[::7]:
        scripts += _blind_schedules(chk.rng, scn, 20, 12)
    outs, _ = vlib.run_exe(c_exe, scripts, env=vlib.HARNESS_ENV)
    found = 0
    for sc, c in zip(scripts, outs):
        w = conc.oracle(chk.prop, sc, c)
        if w:
            found += 1
            if len(chk.oracle_failures) < 50:
                chk.oracle_failures.append({"area": conc.NAME, "script": sc, "what": w, "impl_output": c})
    chk.extra["directed_search"] = {"schedules_on_real_code": len(scripts), "oracle_failures": found}


def run(chk):
    c_exe, m_exe = vlib.prepare_area(chk, conc, leanchecker=True)
    if c_exe:
        rng = chk.rng
        quick = chk.tier == "quick"
        chk.exhaustive = True
        scripts = list(conc.corpus())
        # every two-thread combination of operation x initial configuration
        two = conc.two_thread_scenarios()
        for scn in two:
            scripts += _scripts_for(chk, scn, rng, "cover", nrandom=0 if quick else 3)
        # selected three-thread scenarios: cover every transition (+ all maximal schedules when few)
        for _, scn in conc.selected_scenarios():
            scripts += _scripts_for(chk, scn, rng, "cover", nrandom=40 if quick else 400,
                                    all_limit=0 if quick else 40000)
        for _, scn in conc.four_thread_scenarios():
            if quick:
                scripts += _scripts_for(chk, scn, rng, "random", nrandom=150)
            else:
                scripts += _scripts_for(chk, scn, rng, "cover", nrandom=400)
        # larger scenarios, random programs and schedules
        for _ in range(60 if quick else 600):
            scn = conc.large_scenario(rng, rng.choice([3, 4, 5, 6]))
            scripts += _scripts_for(chk, scn, rng, "random", nrandom=5)
        chk.extra["scope"] = (
            "%d two-thread scenarios (every pair of {share, share-into-owner, self-share, reset, weak-from, lock, "
            "lock-into-owner, weak-reset, use} x 5 initial configurations, each followed by use + cleanup) and %d "
            "three-thread scenarios: every reachable state of the micro-step system (visited-state pruning), one "
            "maximal schedule through every transition incl. spins on the flag; four-thread scenarios: %s; "
            "random programs on 3-6 threads with random schedules"
            % (len(two), len(conc.selected_scenarios()),
               "random schedules" if quick else "every transition covered"))
        vlib.run_scripts(chk, conc, c_exe, m_exe, scripts, conc.oracle)
        # the clear callback re-entering the library (implementation only, judged by an independent oracle)
        reent = conc.reent_scripts(rng, 6 if quick else 60)
        chk.extra["reentrant_callback_scripts_on_the_implementation_only"] = len(reent)
        vlib.run_impl_only(chk, conc, c_exe, reent, conc.reent_judge)
        if chk.mismatches and not chk.oracle_failures:
            directed_search(chk, c_exe)
        if not quick:
            try:
                conc.tsan_run(chk)
            except Exception as e:      # supporting evidence only
                chk.notes.append("real-thread run under -fsanitize=thread not performed: %r" % (e,))
    from areas import mem_tie
    mem_tie.tie_run(chk)
    broken = chk.mismatches or chk.build_problems or any(not ok for ok, _ in chk.theorems.values())
    if broken and not chk.oracle_failures:
        # the SC interleavings explored above show no failing schedule (or the harness could not
        # be built against this source): the difference may be one the SC model cannot exhibit (a
        # weakened memory order).  Search on real threads under ThreadSanitizer.
        try:
            conc.tsan_search(chk)
        except Exception as e:
            chk.notes.append("real-thread directed search not performed: %r" % (e,))
    return chk.finish(assumptions=[
        "C11 DRF-SC: the theorems are about sequentially consistent interleavings of the atomic steps; "
        "all atomics in memory.c are seq_cst and the model is proved race-free, so real executions are SC (trusted)",
        "harness/shadow/{stdatomic,sched,stdlib}.h and the ucontext scheduler of harness/conc.c: every atomic "
        "operation, clear callback, free and use of memory.c is a scheduling point; single OS thread, so the plain "
        "accesses of the shadow operations are the SC semantics"])


def replay(path):
    r = json.load(open(path))
    if r.get("area") == "conc_tsan":
        exe, err = conc.tsan_build()
        if exe is None:
            print("TSan build failed:", err)
            return 2
        lines, report, _ = conc.tsan_exec(exe, r["ops"])
        print("\n".join(lines))
        print(report[:3000])
        w = conc.tsan_judge(r["ops"], lines, report)
        print("oracle:", w or "property holds on this input (races are schedule dependent: repeat the run)")
        return 1 if w else 0
    chk = vlib.Check("C06", "quick", 0)
    c_exe, m_exe = vlib.prepare_area(chk, conc, theorems=[])
    ops = r.get("ops") or r.get("detail", {}).get("minimised") or r.get("detail", {}).get("script")
    if "cbreent" in ops:
        # implementation-only script (the clear callback re-enters the library)
        outs, _ = vlib.run_exe(c_exe, [ops], env=vlib.HARNESS_ENV)
        for op, a in zip(ops, outs[0] + ["<missing>"] * len(ops)):
            print("%-44s impl : %s" % (op, a))
        w = conc.reent_judge("C06", ops, outs[0])
        print("oracle:", w or "property holds on this input")
        return 1 if w else 0
    c, m = vlib.run_pair(c_exe, m_exe, [ops], jobs=1)
    for op, a, b in zip(ops, c[0] + ["<missing>"] * len(ops), m[0] + ["<missing>"] * len(ops)):
        print("%-44s impl : %s\n%-44s model: %s" % (op, a, "", b))
    w = conc.oracle("C06", ops, c[0])
    print("oracle:", w or "property holds on this input")
    return 1 if w else 0
