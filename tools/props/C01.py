"""C01 — Ordered trees hold exactly the inserted-minus-erased multiset, in order"""
from areas import tree


def run(chk):
    return tree.run_check(chk, "C01")


def replay(path):
    return tree.replay("C01", path)
