"""C01 — Ordered trees hold exactly the inserted-minus-erased multiset, in order

Two layers: the functional tree model (areas/tree.py: multiset / order /
traversal theorems) and the link-level model (areas/treel.py: the pointer code
with l/r/p links refines the functional model; parent links proved)."""
from areas import tree, treel, treel_tie


def run(chk):
    treel.link_level_run(chk)
    treel_tie.tie2_run(chk)
    from areas import hashtree_tie
    hashtree_tie.tie_run(chk, "tree3")
    return tree.run_check(chk, "C01")


def replay(path):
    return tree.replay("C01", path)
