"""C09 — a vector never reports size or capacity it has no storage for"""
import json

import vlib
from areas import vec
from areas import vec_tie

PROP = "C09"


def neighbourhood(script):
    """directed search around a differing script: continued use of both vectors"""
    tails = [["resize v0 2", "set v0 1 9", "at v0 1"], ["at v0 0"], ["shrink v0", "at v0 0"],
             ["reserve v0 M", "resize v0 1", "at v0 0"], ["clear v0", "resize v0 1", "at v0 0"],
             ["rev v0", "at v0 0"], ["swap v0 v1", "resize v1 3", "at v1 2"], ["resize v0 0", "clear v0"]]
    return [script + t for t in tails] + [script[:k] for k in range(1, len(script))]


def run(chk):
    c_exe, m_exe = vlib.prepare_area(chk, vec, leanchecker=True)
    vec_tie.tie_run(chk, vec_tie.TIE_BY_PROP["C09"])
    from areas import swap_tie
    swap_tie.tie_run(chk, "vec2", swap_tie.TIE_BY_PROP["C09"])
    if c_exe:
        quick = chk.tier == "quick"
        vlib.run_scripts(chk, vec, c_exe, m_exe, vec.corpus(PROP), vec.oracle)
        vlib.run_scripts(chk, vec, c_exe, m_exe, vec.fault_scripts(), vec.oracle)
        vlib.run_scripts(chk, vec, c_exe, m_exe, vec.vector_boundaries(chk.tier), vec.oracle)
        # closure to a fixed point (the state cap is never the reason the search ends)
        maxn, maxn2 = (2, 2) if quick else (3, 2)
        before = chk.stats["states"]
        closed = vlib.closure(chk, vec.NAME, c_exe, m_exe, ["init v0 4 3"], vec.vector_alphabet(maxn, maxn2),
                              max_depth=40, max_states=10 ** 6,
                              oracle=vec.oracle, state_of=vec.canon_state)
        chk.exhaustive = bool(closed)
        chk.extra["scope"] = ("closure (fixed point reached=%s, %d canonical states): two vectors (v0 with constructor/"
                              "destructor, sizes <= %d; v1 without, sizes <= %d), 4-byte elements, every operation "
                              "(resize/reserve/shrink/clear/rev/sort/at/set/swap, indices up to size) from every reachable "
                              "(size, capacity, block bytes, contents, xtor flags) state; boundaries: element sizes %s x "
                              "with/without xtors x 4 states x {reserve,resize,at,set} x the DESIGN 3.4 value set"
                              % (closed, chk.stats["states"] - before, maxn, maxn2, vec.ESIZES))
        rnd = vec.random_scripts(chk.rng, 150 if quick else 3000, 60 if quick else 120, "vec")
        vlib.run_scripts(chk, vec, c_exe, m_exe, rnd, vec.oracle)
        if chk.mismatches and not chk.oracle_failures:
            m = chk.mismatches[0]
            small = vlib.minimise(vec, c_exe, m_exe, m["script"], vec.in_domain)
            m["minimised"] = small
            vlib.run_scripts(chk, vec, c_exe, m_exe, neighbourhood(small), vec.oracle)
    return chk.finish(assumptions=[
        "allocator: realloc(p,0) frees p and returns NULL, realloc(NULL,0) returns a block (glibc); the model's "
        "realloc is a parameter, the driver and the harness fail every request above 65536 bytes",
        "element size > 0 (a zero-sized element type cannot be declared in C)",
        "sort/search/reverse are modelled as permutations through the scratch slot (the algorithms are C11's)"])


def replay(path):
    r = json.load(open(path))
    chk = vlib.Check(PROP, "quick", 0)
    c_exe, m_exe = vlib.prepare_area(chk, vec, theorems=[])
    ops = r.get("ops") or r.get("detail", {}).get("minimised") or r.get("detail", {}).get("script")
    c, m = vlib.run_pair(c_exe, m_exe, [ops], jobs=1)
    n = max(len(ops), len(c[0]), len(m[0]))
    for op, a, b in zip(ops + [""] * n, c[0] + ["<missing>"] * n, m[0] + ["<missing>"] * n):
        if op == "" and a == "<missing>" and b == "<missing>":
            break
        print("%-28s impl:  %s\n%-28s model: %s" % (op, a, "", b))
    w = vec.oracle(PROP, ops, c[0])
    print("oracle:", w or "property holds on this input")
    return 1 if w else 0
