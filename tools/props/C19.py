"""C19 — rehash is incremental, finishes in bounded operations, lands where requested
(area hash: model lean/Cstl/Hash, harness harness/hash.c, generators and oracle tools/areas/hash.py)"""
from areas import hash as H


def run(chk):
    return H.run_prop(chk)


def replay(path):
    return H.replay_prop("C19", path)
