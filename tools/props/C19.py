"""C19 — rehash is incremental, finishes in bounded operations, lands where requested
(area hash: model lean/Cstl/Hash, harness harness/hash.c, generators and oracle tools/areas/hash.py)"""
from areas import hash as H
from areas import hashl


def run(chk):
    # pointer level: chains as links through the elements' node fields refine the list-level model
    hashl.link_level_run(chk)
    from areas import hashtree_tie
    hashtree_tie.tie_run(chk, "hash2")
    return H.run_prop(chk)


def replay(path):
    return H.replay_prop("C19", path)
