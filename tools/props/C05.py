"""C05 — shared memory is destroyed exactly once, exactly when its last owner lets go"""
import vlib
from areas import mem

PROP = "C05"


def _closure(chk, c_exe, m_exe, alphabet, max_depth, max_states):
    """vlib.closure, but a run that was cut off by the state cap does not count as closed"""
    before = chk.stats["states"]
    closed = vlib.closure(chk, mem.NAME, c_exe, m_exe, [], alphabet, max_depth=max_depth,
                          max_states=max_states, oracle=mem.oracle, state_of=mem.canon_state)
    return bool(closed) and chk.stats["states"] - before <= max_states


def run(chk):
    c_exe, m_exe = vlib.prepare_area(chk, mem, leanchecker=True)
    if c_exe:
        vlib.run_scripts(chk, mem, c_exe, m_exe, mem.corpus(PROP), mem.oracle)
        quick = chk.tier == "quick"
        # closure 1: shared + weak objects, two allocations
        closed1 = _closure(chk, c_exe, m_exe, mem.c05_alphabet(3, 2, 0, 2, rich=True), 12 if quick else 16, 200000)
        # closure 2: unique pointers
        closed2 = _closure(chk, c_exe, m_exe, mem.c05_alphabet(0, 0, 2, 0, rich=True), 10, 100000)
        closed3 = True
        if not quick:
            # closure 3: everything together (3 shared + 2 weak + 2 unique, 2 allocations)
            closed3 = _closure(chk, c_exe, m_exe, mem.c05_alphabet(3, 2, 2, 2, rich=False), 14, 60000)
        chk.exhaustive = bool(closed1 and closed2 and closed3)
        chk.extra["scope"] = ("closure over canonical states (block ids renamed): 3 shared + 2 weak objects with at most "
                              "2 live allocations (alloc ok / bookkeeping malloc fails / memory malloc fails / size 0, "
                              "share, swap, reset, get, unique, weak from/lock/swap/reset, all argument tuples incl. "
                              "self-share); 2 unique objects (alloc, release, swap, reset, get)%s; closed=%s"
                              % ("" if quick else "; the product of both", chk.exhaustive))
        if quick:
            rnd = mem.random_scripts(chk.rng, 150, 200, "ptr")
        else:
            rnd = mem.random_scripts(chk.rng, 1000, 300, "ptr")
        vlib.run_scripts(chk, mem, c_exe, m_exe, rnd, mem.oracle)
        search_near(chk, c_exe, m_exe)
    from areas import mem_tie
    mem_tie.tie_run(chk)
    return chk.finish()


def search_near(chk, c_exe, m_exe):
    """model and implementation differ but the oracle accepted everything so far:
    minimise and look around the difference with the independent oracle"""
    if chk.mismatches and not chk.oracle_failures:
        m = chk.mismatches[0]
        small = vlib.minimise(mem, c_exe, m_exe, m["script"], mem.in_domain)
        m["minimised"] = small
        objs = sorted(set(w for op in small for w in op.split()[1:] if w[:1] in "suwag" and w[1:].isdigit()))
        tails = []
        for x in objs:
            k = x[0]
            tails += {"s": [["sget " + x], ["sunique " + x], ["sreset " + x], ["wfrom w5 " + x, "sreset " + x, "wlock w5 s9"]],
                      "w": [["wlock %s s9" % x, "sget s9", "sreset s9"], ["wreset " + x]],
                      "u": [["uget " + x], ["ureset " + x], ["urelease " + x]],
                      "a": [["asize " + x], ["adata " + x], ["aat %s 0" % x], ["areset " + x], ["aunslice %s a5" % x, "aat a5 0"]],
                      "g": [["gget " + x]]}[k]
        near = [small + t for t in tails] + [small + t + u for t in tails for u in tails[:6]]
        # finally let go of everything: nothing may stay allocated
        allreset = ["sreset s%d" % i for i in range(10)] + ["wreset w%d" % i for i in range(6)] + \
                   ["ureset u%d" % i for i in range(6)] + ["areset a%d" % i for i in range(6)]
        near.append(small + allreset)
        vlib.run_scripts(chk, mem, c_exe, m_exe, [s for s in near if mem.in_domain(s)], mem.oracle)


def replay(path, prop=PROP):
    import json
    r = json.load(open(path))
    chk = vlib.Check(prop, "quick", 0)
    c_exe, m_exe = vlib.prepare_area(chk, mem, theorems=[])
    ops = r.get("ops") or r.get("detail", {}).get("minimised") or r.get("detail", {}).get("script")
    c, m = vlib.run_pair(c_exe, m_exe, [ops], jobs=1)
    for op, a, b in zip(ops, c[0] + ["<missing>"] * len(ops), m[0] + ["<missing>"] * len(ops)):
        print("%-28s impl:  %s\n%-28s model: %s" % (op, a, "", b))
    w = mem.oracle(prop, ops, c[0])
    print("oracle:", w or "property holds on this input")
    return 1 if w else 0
