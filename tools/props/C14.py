"""C14 — array views never reach outside their buffer, which lives as long as any view"""
import vlib
from areas import mem
from props import C05 as base

PROP = "C14"


def _closure(chk, c_exe, m_exe, alphabet, max_depth, max_states, state_of=mem.canon_state):
    """vlib.closure, but a run that was cut off by the state cap does not count as closed"""
    before = chk.stats["states"]
    closed = vlib.closure(chk, mem.NAME, c_exe, m_exe, [], alphabet, max_depth=max_depth,
                          max_states=max_states, oracle=mem.oracle, state_of=state_of)
    return bool(closed) and chk.stats["states"] - before <= max_states


def run(chk):
    c_exe, m_exe = vlib.prepare_area(chk, mem, leanchecker=True)
    if c_exe:
        vlib.run_scripts(chk, mem, c_exe, m_exe, mem.corpus(PROP), mem.oracle)
        vlib.run_scripts(chk, mem, c_exe, m_exe, mem.c14_boundary_scripts(), mem.oracle)
        quick = chk.tier == "quick"
        closed = _closure(chk, c_exe, m_exe, mem.c14_alphabet(2 if quick else 3, 3, rich=quick), 10 if quick else 14,
                          20000 if quick else 8000,
                          state_of=mem.canon_state if quick else mem.canon_state_sym(["a0", "a1", "a2"]))
        closed2 = True
        if not quick:
            closed2 = _closure(chk, c_exe, m_exe, mem.c14_alphabet(2, 4, rich=True), 12, 20000)
        chk.exhaustive = bool(closed and closed2)
        chk.extra["scope"] = ("closure over canonical states: %s array objects, one allocated and one external buffer of 3 "
                              "elements (alloc ok / either malloc failing / 0 elements / element size 0 / nine "
                              "unrepresentable or unsatisfiable nm*sz products, set, every in-range slice incl. in place, "
                              "rejected slices at the boundary set incl. the SIZE_MAX neighbours that wrap off+end, "
                              "unslice, reset, release, data, size, at with boundary indices)%s; closed=%s"
                              % ("2" if quick else "3 (states up to renaming of the objects)", "" if quick else "; 2 objects with 4 elements",
                                 chk.exhaustive))
        if quick:
            rnd = mem.random_scripts(chk.rng, 200, 150, "arr")
        else:
            rnd = mem.random_scripts(chk.rng, 2000, 250, "arr", na=6)
        vlib.run_scripts(chk, mem, c_exe, m_exe, rnd, mem.oracle)
        base.search_near(chk, c_exe, m_exe)
    from areas import mem_tie
    mem_tie.tie_run(chk)
    return chk.finish()


def replay(path):
    return base.replay(path, PROP)
