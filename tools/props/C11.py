"""C11 — every sort algorithm returns a sorted permutation and searches agree with it"""
import json

import vlib
from areas import sort


def in_domain(script):
    return bool(script) and script[0].split()[0] in ("arr", "gen")


def shrink_failures(chk, c_exe, m_exe):
    """cut every concrete failing script down to the array set-up and the
    operations after it up to the failing one (operations before the last
    `arr`/`gen` cannot matter), keeping it only if the oracle still rejects"""
    import re
    for f in chk.oracle_failures[:5]:
        m = re.match(r"op (\d+) ", f["what"])
        if not m:
            continue
        k = int(m.group(1))
        sc = f["script"]
        start = max([i for i in range(k + 1) if sc[i].split()[0] in ("arr", "gen")] or [0])
        cand = sc[start:k + 1]
        c, _ = vlib.run_pair(c_exe, m_exe, [cand], jobs=1)
        w = sort.oracle(chk.prop, cand, c[0])
        if not w:
            continue
        best = (cand, w, c[0])
        # drop operations between the set-up and the failing one while the oracle still rejects
        i = 1
        while i < len(best[0]) - 1 and len(best[0]) <= 40:
            cand = best[0][:i] + best[0][i + 1:]
            c, _ = vlib.run_pair(c_exe, m_exe, [cand], jobs=1)
            w = sort.oracle(chk.prop, cand, c[0])
            if w:
                best = (cand, w, c[0])
            else:
                i += 1
        f["script"], f["what"], f["impl_output"] = best


def run(chk):
    c_exe, m_exe = vlib.prepare_area(chk, sort, leanchecker=True)
    from areas import sortmap_tie
    sortmap_tie.tie_run(chk, "sort")
    from areas import swap_tie
    swap_tie.tie_run(chk, "swap")
    swap_tie.tie_run(chk, "vec2", [t for t in swap_tie.TIE_BY_PROP["C11"] if t.startswith("Cstl.Vec.Tie2.")])
    chk.theorems.update(vlib.audit(swap_tie.THEOREMS["C11"], ["Cstl.Swap.Props"]))
    if c_exe:
        vlib.run_scripts(chk, sort, c_exe, m_exe, sort.corpus(), sort.oracle)
        if chk.tier == "quick":
            ex, narr = sort.exhaustive_scripts(maxlen=7, draw_len=2)
            adv = sort.adversarial_scripts([300, 1500], [4000])
            rnd = sort.random_scripts(chk.rng, 400) + sort.random_medium_scripts(chk.rng, 40)
            scope = ("every array of length <= 7 over 3 key values x selectors {0,1,2,3,4,99} x element sizes "
                     "{1,2,4,8,3,16} (raw) + vector wrapper; random pivot: every draw list of length <= 2 "
                     "over all indices, then 0")
        else:
            ex, narr = sort.exhaustive_scripts(maxlen=7, draw_len=3)
            adv = sort.adversarial_scripts([300, 1500, 5000], [4000, 20000])
            rnd = sort.random_scripts(chk.rng, 4000) + sort.random_medium_scripts(chk.rng, 400, 65, 2500)
            scope = ("every array of length <= 7 over 3 key values x selectors {0,1,2,3,4,99} x element sizes "
                     "{1,2,4,8,3,16} (raw) + vector wrapper; random pivot: every draw list of length <= 3 "
                     "over all indices, then 0")
        chk.stats["states"] += narr
        chk.exhaustive = True
        chk.extra["scope"] = scope
        chk.extra["adversarial"] = ("sorted / reversed / constant / two-valued / organ-pipe / saw / random inputs up to "
                                    "%d elements (quadratic cases) and %d elements (n log n cases); recursion depth "
                                    "stays below 1/20 of what the 8 MiB stack allows"
                                    % ((1500, 4000) if chk.tier == "quick" else (5000, 20000)))
        for part in (ex, adv, rnd):
            chk.stats["transitions"] += sum(len(s) for s in part)
            vlib.run_scripts(chk, sort, c_exe, m_exe, part, sort.oracle, batch=4000)
        shrink_failures(chk, c_exe, m_exe)
        if chk.mismatches and not chk.oracle_failures:
            m = chk.mismatches[0]
            small = vlib.minimise(sort, c_exe, m_exe, m["script"], in_domain)
            m["minimised"] = small
            # directed search around the difference with the independent oracle
            near = sort.neighbourhood(small, len(small) - 1)
            vlib.run_scripts(chk, sort, c_exe, m_exe, near, sort.oracle)
            if not chk.oracle_failures:
                # a difference that depends on the LENGTH of the array (a pivot rule, a threshold): every
                # length up to 4500 of an ascending array (and some descending ones), on the implementation only
                sweep = []
                for n in range(2, 4501):
                    sweep.append(["gen 8 sorted %d 0 0" % n, sort.sort_op("raw", 1)])
                    if n % 16 == 0:
                        sweep.append(["gen 8 rev %d 0 0" % n, sort.sort_op("raw", 0 if n % 32 else 3)])
                # interleave the lengths over the parallel chunks (long arrays are the slow ones)
                sweep = [sweep[i] for k in range(16) for i in range(k, len(sweep), 16)]
                vlib.HARNESS_ENV["H_SCRIPT_TIMEOUT"] = "10"
                vlib.run_impl_only(chk, sort, c_exe, sweep, sort.oracle)
                chk.notes.append("directed search: ascending/descending arrays of every length 2..4500 on the implementation")
                shrink_failures(chk, c_exe, m_exe)
    return chk.finish(assumptions=[
        "byte-level cstl_swap is modelled as an exchange of elements through the scratch cell; every width "
        "(1,2,4,8 fast paths; 3,16 memcpy path) is validated by the correspondence check under ASan",
        "C stack depth of the recursive quicksort is not modelled (DESIGN 7.3)",
        "search computes (i + j) / 2 in C int: beyond 2^30 elements that is signed-overflow undefined behaviour, and counts above INT_MAX are narrowed in search/reverse — outside the property's quantifier (theorems carry count <= 2^30 / 2^31)",
    ])


def replay(path):
    r = json.load(open(path))
    chk = vlib.Check("C11", "quick", 0)
    c_exe, m_exe = vlib.prepare_area(chk, sort, theorems=[])
    ops = r.get("ops") or r.get("detail", {}).get("minimised") or r.get("detail", {}).get("script")
    c, m = vlib.run_pair(c_exe, m_exe, [ops], jobs=1)
    pad = ["<missing>"] * len(ops)
    for op, a, b in zip(ops, c[0] + pad, m[0] + pad):
        print("%-24s impl:  %s\n%-24s model: %s" % (op[:24], a[:400], "", b[:400]))
    w = sort.oracle("C11", ops, c[0])
    print("oracle:", w or "property holds on this input")
    return 1 if w else 0
