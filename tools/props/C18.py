"""C18 — public headers are usable by client programs that link the library

Translator-based (no C harness, no model driver):

 1. tools/linktab.py rebuilds libcstl.a / libcstl.so from a scratch copy of the
    working tree with the project's Makefile and regenerates the symbol /
    declaration tables -> lean/Cstl/Gen/LinkTab.lean;
 2. `lake build Cstl.Link.Props` re-checks `tables_ok : TablesOK Cstl.Gen.tab`
    (kernel evaluation); with the general theorem `link_ok` this gives: every
    program over the public headers links (in the link model);
 3. compile-level enumeration on the real toolchain (decided by running the
    compiler, not proved): every header alone (and included twice), every
    ordered pair, all together; each in one and in two translation units;
    against libcstl.a and libcstl.so; the project's own warning flags; every
    client takes the address of every function / object its headers declare;
    each configuration must compile, link and run.  The object files' symbol
    tables are compared with what the link model predicts.

A failing configuration (or the model's smallest witness when `tables_ok`
fails, confirmed on the real linker) is an oracle failure: the replay lists
the translation units, their headers and the diagnostics.
"""
import json
import os
import random
import subprocess
import sys
from concurrent.futures import ThreadPoolExecutor

import vlib

sys.path.insert(0, os.path.dirname(os.path.dirname(os.path.abspath(__file__))))
import linktab  # noqa: E402

AREA = "link"
LEAN_TARGETS = ["Cstl.Link.Props"]
IMPORTS = ["Cstl.Link.Props"]
THEOREMS = [
    "Cstl.Link.link_ok",
    "Cstl.Link.tablesOK_of_links",
    "Cstl.Link.checkTab_iff",
    "Cstl.Link.tables_ok",
    "Cstl.Link.c18_links",
]
JOBS = int(os.environ.get("VERIF_JOBS", "0")) or min(16, os.cpu_count() or 4)


def sh(cmd, **kw):
    return subprocess.run(cmd, stdout=subprocess.PIPE, stderr=subprocess.STDOUT,
                          universal_newlines=True, **kw)


# ---------------------------------------------------------------------------
# programs


class Program:
    """one client program: translation units (ordered header lists), library kind"""

    def __init__(self, tus, lib, opt="-O0", cc="gcc"):
        self.tus = [list(t) for t in tus]
        self.lib = lib          # "a" | "so"
        self.opt = opt
        self.cc = cc

    def lines(self):
        out = ["cc %s" % self.cc, "opt %s" % self.opt]
        for i, t in enumerate(self.tus):
            out.append("tu %d: %s" % (i, " ".join(t)))
        out.append("link libcstl.%s" % self.lib)
        return out

    @staticmethod
    def parse(lines):
        tus, lib, opt, cc = [], "a", "-O0", "gcc"
        for ln in lines:
            w = ln.split()
            if not w:
                continue
            if w[0] == "tu":
                tus.append(w[2:])
            elif w[0] == "link":
                lib = "so" if w[1].endswith(".so") else "a"
            elif w[0] == "opt":
                opt = w[1]
            elif w[0] == "cc":
                cc = w[1]
        return Program(tus, lib, opt, cc)


def tu_source(tab, headers, index, ntus):
    """C99 source of one translation unit: the includes in the given order, the
    address of every function / object those headers declare, and main (TU 0)
    or c18_tu<index> (others)."""
    info = {h["name"]: h for h in tab["headers"]}
    fns, objs = [], []
    for h in headers:
        for s in info[h]["decls"]:
            if info[h]["is_fn"].get(s, True):
                if s not in fns:
                    fns.append(s)
            elif s not in objs:
                objs.append(s)
    out = []
    for h in headers:
        out.append('#include "cstl/%s"' % h)
    out.append("typedef void (*c18_fn)(void);")
    out.append("static c18_fn const c18_fns[] = {")
    for s in fns:
        out.append("    (c18_fn)%s," % s)
    out.append("    (c18_fn)0\n};")
    out.append("static const void * const c18_objs[] = {")
    for s in objs:
        out.append("    (const void *)&%s," % s)
    out.append("    (const void *)0\n};")
    out.append("static int c18_count(void)\n{")
    out.append("    volatile c18_fn f;\n    const void * volatile p;\n    int i, n = 0;")
    out.append("    for (i = 0; i < %d; i++) {\n        f = c18_fns[i];\n        if (f != (c18_fn)0) {\n            n++;\n        }\n    }" % len(fns))
    out.append("    for (i = 0; i < %d; i++) {\n        p = c18_objs[i];\n        if (p != (const void *)0) {\n            n++;\n        }\n    }" % len(objs))
    out.append("    return n;\n}")
    if index == 0:
        for j in range(1, ntus):
            out.append("int c18_tu%d(void);" % j)
        out.append("int main(void)\n{")
        out.append("    int bad = (c18_count() != %d);" % (len(fns) + len(objs)))
        for j in range(1, ntus):
            out.append("    bad += (c18_tu%d() != 0);" % j)
        out.append("    return bad;\n}")
    else:
        out.append("int c18_tu%d(void);" % index)
        out.append("int c18_tu%d(void)\n{\n    return c18_count() != %d;\n}" % (index, len(fns) + len(objs)))
    return "\n".join(out) + "\n", set(fns) | set(objs)


class Toolchain:
    def __init__(self, tab, workdir):
        self.tab = tab
        self.dir = workdir
        self.inc = os.path.join(tab["copy"], "include")
        # exactly the project's own flags (they contain -Werror=vla and
        # -Werror=declaration-after-statement): the property asks for "no compile
        # errors" under the project's warning flags, so a mere warning is not a violation
        self.cflags = list(tab["cflags"])
        self.n = 0
        self.obj_cache = {}

    def compile_tu(self, headers, index, ntus, opt, cc):
        """-> (object path or None, diagnostics, expected external definitions)"""
        key = (tuple(headers), index, ntus, opt, cc)
        if key in self.obj_cache:
            return self.obj_cache[key]
        src_txt, _ = tu_source(self.tab, headers, index, ntus)
        self.n += 1
        base = os.path.join(self.dir, "p%06d_%d" % (random.getrandbits(40), index))
        with open(base + ".c", "w") as fh:
            fh.write(src_txt)
        flags = self.cflags if cc == "gcc" else [f for f in self.cflags]
        r = sh([cc] + flags + [opt, "-I", self.inc, "-c", base + ".c", "-o", base + ".o"])
        res = (base + ".o" if r.returncode == 0 else None, r.stdout.replace(self.dir + "/", "").replace(
            self.tab["copy"] + "/", "")[-1500:], src_txt)
        self.obj_cache[key] = res
        return res

    def run_program(self, prog):
        """-> dict(ok, stage, diag, objs)"""
        objs = []
        for i, t in enumerate(prog.tus):
            o, diag, _ = self.compile_tu(t, i, len(prog.tus), prog.opt, prog.cc)
            if o is None:
                return {"ok": False, "stage": "compile (translation unit %d: %s)" % (i, " ".join(t)), "diag": diag}
            objs.append(o)
        exe = os.path.join(self.dir, "x%06d" % random.getrandbits(40))
        if prog.lib == "a":
            cmd = [prog.cc] + objs + ["-o", exe, self.tab["lib_a"], "-lm"]
        else:
            libdir = os.path.dirname(self.tab["lib_so"])
            cmd = [prog.cc] + objs + ["-o", exe, self.tab["lib_so"], "-lm", "-Wl,-rpath," + libdir]
        r = sh(cmd)
        if r.returncode != 0:
            return {"ok": False, "stage": "link against libcstl.%s" % prog.lib, "objs": objs,
                    "diag": r.stdout.replace(self.dir + "/", "").replace(self.tab["copy"] + "/", "")[-1500:]}
        try:
            rr = sh([exe], timeout=30)
            rc, outp = rr.returncode, rr.stdout
        except subprocess.TimeoutExpired:
            rc, outp = -1, "timeout"
        try:
            os.unlink(exe)
        except OSError:
            pass
        if rc != 0:
            return {"ok": False, "stage": "run", "diag": "exit status %d %s" % (rc, outp[-300:]), "objs": objs}
        return {"ok": True, "stage": "run", "diag": "", "objs": objs}


def predicted_defs(tab, headers, index):
    """what the link model says a TU with these headers defines (plus the
    client's own entry point)"""
    info = {h["name"]: h for h in tab["headers"]}
    s = set()
    for h in headers:
        s |= set(info[h]["defs"])
    s.add("main" if index == 0 else "c18_tu%d" % index)
    return s


# ---------------------------------------------------------------------------
# configuration list of the property


def configurations(tab, tier, rng):
    hs = [h["name"] for h in tab["headers"]]
    lists = []
    for h in hs:
        lists.append(("alone", [h]))
    for h in hs:
        lists.append(("twice", [h, h]))
    for a in hs:
        for b in hs:
            if a != b:
                lists.append(("pair", [a, b]))
    lists.append(("all", list(hs)))
    lists.append(("all-reversed", list(reversed(hs))))
    nperm = 3 if tier == "quick" else 40
    for _ in range(nperm):
        p = list(hs)
        rng.shuffle(p)
        lists.append(("all-permuted", p))
    progs = []
    for kind, l in lists:
        opts = ["-O0"]
        if tier == "thorough" or kind in ("alone", "all", "all-reversed"):
            opts.append("-O2")
        for opt in opts:
            for lib in ("a", "so"):
                progs.append((kind + "/1tu", Program([l], lib, opt)))
                progs.append((kind + "/2tu", Program([l, list(reversed(l))], lib, opt)))
    if tier == "thorough":
        # three translation units, mixed headers
        for _ in range(60):
            tus = [rng.sample(hs, rng.randint(1, len(hs))) for _ in range(3)]
            for lib in ("a", "so"):
                progs.append(("random/3tu", Program(tus, lib, "-O0")))
    return progs


def record_failure(chk, prog, res, why=None):
    if len(chk.oracle_failures) >= 50:
        return
    what = "%s failed: %s" % (res["stage"], (res["diag"] or "").strip()[-900:])
    if why:
        what = why + " — " + what
    chk.oracle_failures.append({"area": AREA, "script": prog.lines(), "what": what,
                                "impl_output": (res["diag"] or "").strip().split("\n")[-12:]})


def run_programs(chk, tc, progs):
    def one(kp):
        kind, p = kp
        try:
            return kind, p, tc.run_program(p)
        except Exception as e:      # noqa: BLE001  (toolchain trouble is a result, not a crash)
            return kind, p, {"ok": False, "stage": "toolchain", "diag": repr(e)}
    # compile each distinct TU once before the links fan out
    with ThreadPoolExecutor(max_workers=JOBS) as ex:
        seen = set()
        jobs = []
        for kind, p in progs:
            for i, t in enumerate(p.tus):
                key = (tuple(t), i, len(p.tus), p.opt, p.cc)
                if key not in seen:
                    seen.add(key)
                    jobs.append(key)
        list(ex.map(lambda k: tc.compile_tu(list(k[0]), k[1], k[2], k[3], k[4]), jobs))
        results = list(ex.map(one, progs))
    kinds = chk.extra.setdefault("configurations", {})
    for kind, p, res in results:
        chk.stats["evaluations"] += 1
        chk.stats["scripts"] += 1
        chk.stats["traces_validated_against_impl"] += 1
        kinds[kind] = kinds.get(kind, 0) + 1
        chk.dist["lib." + p.lib] = chk.dist.get("lib." + p.lib, 0) + 1
        chk.distinct.add("\n".join(p.lines()))
        if not res["ok"]:
            record_failure(chk, p, res)
        elif len(chk.samples) < 3 and len(p.tus) == 2:
            chk.samples.append({"area": AREA, "ops": p.lines(), "impl_output": ["compiled, linked, ran: exit 0"]})
    # model assumption: a TU's external definitions are the union of its headers' defs
    checked = 0
    items = [(k, v[0]) for k, v in list(tc.obj_cache.items()) if v[0] is not None]
    with ThreadPoolExecutor(max_workers=JOBS) as ex:
        syms = list(ex.map(lambda kv: linktab.nm_defs(kv[1]), items))
    for (key, obj), (strong, weak) in zip(items, syms):
        headers, index = list(key[0]), key[1]
        checked += 1
        pred = predicted_defs(tc.tab, headers, index)
        if set(strong) != pred and len(chk.mismatches) < 50:
            chk.mismatches.append({"area": AREA,
                                   "script": ["tu %d: %s" % (index, " ".join(headers)), "opt %s" % key[3]],
                                   "index": 0,
                                   "impl": "external definitions in the object: %s" % " ".join(sorted(strong)),
                                   "model": "union of the headers' defs + entry point: %s" % " ".join(sorted(pred))})
    chk.extra["objects_compared_with_model"] = chk.extra.get("objects_compared_with_model", 0) + checked


# ---------------------------------------------------------------------------


def run(chk):
    saved = None
    try:
        if os.path.exists(linktab.GEN_LEAN):
            saved = open(linktab.GEN_LEAN).read()
        return _run(chk)
    finally:
        # a run against another tree (VERIF_REPO) must not leave its table in the committed copy
        if vlib.REPO != "/repo" and saved is not None and open(linktab.GEN_LEAN).read() != saved:
            with open(linktab.GEN_LEAN, "w") as fh:
                fh.write(saved)


def _run(chk):
    assumptions = [
        "link model: a header contributes its external definitions once per translation unit (include guards), "
        "independently of what was included before it; a duplicate strong definition or an undefined referenced "
        "symbol is a link error (validated on every run by comparing each compiled object's symbol table with the "
        "model's prediction and by linking the enumerated configurations)",
        "tools/linktab.py (translator), nm, clang-14 JSON AST for the declaration tables",
        "that each configuration *compiles* is decided by running gcc over the property's finite configuration "
        "list, not by a theorem",
    ]
    try:
        tab = linktab.compute_tables()
    except linktab.TranslatorError as e:
        msg = str(e)
        # the library or a header-only TU does not even build: that is a concrete failing program
        chk.oracle_failures.append({"area": AREA, "script": ["translator: build of the libraries / header-only "
                                                            "translation units from the working tree"],
                                    "what": msg[-1500:], "impl_output": msg.split("\n")[-12:]})
        return chk.finish(level="proof", assumptions=assumptions)
    changed = linktab.write_lean(tab)
    chk.extra["table"] = {
        "headers": [h["name"] for h in tab["headers"]],
        "declared_symbols": sum(len(h["decls"]) for h in tab["headers"]),
        "header_external_definitions": {h["name"]: h["defs"] for h in tab["headers"] if h["defs"]},
        "libcstl.a_symbols": len(tab["libA"]), "libcstl.so_symbols": len(tab["libSo"]),
        "declarations_from": tab["decl_source"],
        "clang_vs_regex_declaration_differences": tab["decl_cross_check_differences"],
        "generated_file_changed": changed,
        "project_cflags": tab["cflags"],
    }
    for h, d in tab["decl_cross_check_differences"].items():
        chk.notes.append("declaration tables of %s: clang AST and preprocessor+regex readings differ on %s "
                         "(clang is used)" % (h, d))

    ok, out = vlib.lake_build(LEAN_TARGETS)
    for h in vlib.grep_forbidden(None):
        if h not in chk.forbidden:
            chk.forbidden.append(h)
    chk.theorems.update(vlib.audit(THEOREMS, IMPORTS, leanchecker=(chk.tier == "thorough" and ok)))

    work = vlib.mktmp("c18")
    tc = Toolchain(tab, work)
    witnesses = linktab.table_witnesses(tab)
    chk.extra["table_obligation"] = "TablesOK holds (kernel-checked)" if ok else "TablesOK not established"
    if not ok:
        errs = [l for l in out.split("\n") if "error" in l][:5]
        if not witnesses:
            chk.build_problems.append(("lake build Cstl.Link.Props", " | ".join(errs) or out[-800:]))
        # confirm the model's smallest witnesses on the real toolchain
        for desc, tus, sym, lib in witnesses[:6]:
            for lk in (("a", "so") if lib == "both" else (lib,)):
                p = Program(tus, lk)
                res = tc.run_program(p)
                chk.stats["evaluations"] += 1
                if not res["ok"]:
                    record_failure(chk, p, res, why=desc)
                else:
                    chk.mismatches.append({"area": AREA, "script": p.lines(), "index": 0,
                                           "impl": "the real toolchain compiled, linked and ran this program",
                                           "model": "does not link: " + desc})
    elif witnesses:
        # the python reading of the obligation disagrees with the kernel's: translator trouble
        chk.build_problems.append(("python reading of TablesOK disagrees with the kernel", witnesses[0][0]))

    progs = configurations(tab, chk.tier, chk.rng)
    run_programs(chk, tc, progs)
    chk.extra["programs"] = len(progs)
    chk.extra["translation_units_compiled"] = tc.n
    chk.exhaustive = True
    chk.extra["scope"] = ("every public header alone and included twice, every ordered pair, all together "
                          "(sorted, reversed, %s random orders); each as one TU and as two TUs (second TU in "
                          "reverse order); against libcstl.a and libcstl.so; the project's own CFLAGS; every client "
                          "takes the address of every function/object its headers declare; compile + link + run"
                          % ("3" if chk.tier == "quick" else "40"))
    chk.extra["rule_c18"] = ("one evaluation = one client program compiled, linked and run on the real toolchain; "
                             "distinct_nontrivial = distinct programs")
    seen, uniq = set(), []
    for f in chk.oracle_failures:
        k = tuple(f["script"])
        if k not in seen:
            seen.add(k)
            uniq.append(f)
    chk.oracle_failures[:] = uniq
    return chk.finish(level="proof", assumptions=assumptions,
                      checker_cmd="python3 tools/linktab.py && cd lean && lake build Cstl.Link.Props && "
                                  "lake env lean <Audit.lean with #print axioms per theorem>")


def replay(path):
    r = json.load(open(path))
    ops = r.get("ops") or (r.get("detail") or {}).get("script")
    if not ops or not any(l.startswith("tu ") for l in ops):
        print("nothing to replay on the toolchain: %s" % (r.get("no_longer_checks") or r.get("oracle")))
        return 1
    tab = linktab.compute_tables()
    tc = Toolchain(tab, vlib.mktmp("c18r"))
    p = Program.parse(ops)
    if len(p.tus) == 1 and not any(l.startswith("link") for l in ops):
        # object-level difference: show the symbol table
        o, diag, _ = tc.compile_tu(p.tus[0], 0, 1, p.opt, p.cc)
        print(diag or "compiles")
        if o:
            print("external definitions:", " ".join(linktab.nm_defs(o)[0]))
        return 1
    res = tc.run_program(p)
    for l in p.lines():
        print(l)
    if res["ok"]:
        print("compiled, linked and ran: exit 0 — property holds on this program")
        return 0
    print("%s failed:\n%s" % (res["stage"], res["diag"]))
    return 1
