"""C12 — a doubly-linked list equals a reference sequence in both directions"""
import vlib
from areas import dlist, lists_tie


def in_domain(script):
    ref = dlist.Ref()
    for op in script:
        if not ref.enabled(op):
            return False
        ref.apply(op)
    return True


def run(chk):
    c_exe, m_exe = vlib.prepare_area(chk, dlist, leanchecker=True)
    vlib.translator_tie(chk, "dlist", dlist.TIE_MODULE, dlist.TIE_THEOREMS)
    lists_tie.tie2_run(chk, "dlist")
    if c_exe:
        vlib.run_scripts(chk, dlist, c_exe, m_exe, dlist.corpus(), dlist.oracle)
        if chk.tier == "quick":
            scripts, nstates, closed = dlist.exhaustive_scripts(nelem=4, nlists=2, depth=12)
            # lists anchored at different hooks of the elements (list 3): small closure over all three lists
            s3, n3, c3 = dlist.exhaustive_scripts(nelem=2, nlists=3, depth=10, rich=False)
            scripts += s3
            nstates += n3
            closed = closed and c3
            rnd = dlist.random_scripts(chk.rng, 60, 200, 12)
        else:
            scripts, nstates, closed = dlist.exhaustive_scripts(nelem=5, nlists=3, depth=14)
            rnd = dlist.random_scripts(chk.rng, 600, 300, 24)
        chk.stats["states"] += nstates
        chk.stats["transitions"] += len(scripts)
        chk.exhaustive = closed
        chk.extra["scope"] = ("every in-domain operation from every reference state reachable with "
                              "%s; closed=%s" % ("4 elements / 2 lists, and 2 elements / 3 lists (list 3 is anchored at another hook of the elements)" if chk.tier == "quick" else "5 elements / 3 lists", closed))
        vlib.run_scripts(chk, dlist, c_exe, m_exe, scripts, dlist.oracle)
        vlib.run_scripts(chk, dlist, c_exe, m_exe, rnd, dlist.oracle)
        mv = dlist.moving_visitor_scripts()
        chk.extra["moving_visitor_scripts_on_the_implementation_only"] = len(mv)
        vlib.run_impl_only(chk, dlist, c_exe, mv, dlist.oracle)
        vlib.run_scripts(chk, dlist, c_exe, m_exe, dlist.sort_pattern_scripts(), dlist.oracle)
        big = dlist.bigsort_scripts(chk.rng, chk.tier == "quick")
        chk.extra["long_list_sorts"] = [sc[0] for sc in big]
        vlib.run_scripts(chk, dlist, c_exe, m_exe, big, dlist.oracle)
        if chk.mismatches and not chk.oracle_failures:
            m = chk.mismatches[0]
            small = vlib.minimise(dlist, c_exe, m_exe, m["script"], in_domain)
            m["minimised"] = small
            # directed search around the difference with the independent oracle
            near = [small + [op] for op in ("pushb 1 40", "pushb 2 40", "pushb 3 40", "back 1", "back 2", "rev 1", "rev 2",
                                            "foreach 1 f -1 0", "foreach 1 r -1 0", "popf 1", "popb 1", "popb 2")]
            vlib.run_scripts(chk, dlist, c_exe, m_exe, [s for s in near if in_domain(s)], dlist.oracle)
    if c_exe and chk.oracle_failures:
        vlib.shrink_failures(chk, dlist, c_exe, dlist.oracle, in_domain)
    return chk.finish()


def replay(path):
    import json
    r = json.load(open(path))
    chk = vlib.Check("C12", "quick", 0)
    c_exe, m_exe = vlib.prepare_area(chk, dlist, theorems=[])
    ops = r.get("ops") or r.get("detail", {}).get("minimised") or r.get("detail", {}).get("script")
    c, m = vlib.run_pair(c_exe, m_exe, [ops], jobs=1)
    for op, a, b in zip(ops, c[0] + ["<missing>"] * len(ops), m[0] + ["<missing>"] * len(ops)):
        print("%-20s impl: %s\n%-20s model: %s" % (op, a, "", b))
    w = dlist.oracle("C12", ops, c[0])
    print("oracle:", w or "property holds on this input")
    return 1 if w else 0
