"""C08 — The map keeps exactly one entry per key and never replaces or loses one silently"""
from areas import tree


def run(chk):
    from areas import sortmap_tie
    sortmap_tie.tie_run(chk, "map")
    return tree.run_check(chk, "C08")


def replay(path):
    return tree.replay("C08", path)
