"""C13 — a singly-linked list equals a reference sequence and its tail is the true last"""
import vlib
from areas import slist, lists_tie


def in_domain(script):
    ref = slist.Ref()
    for op in script:
        if not ref.enabled(op):
            return False
        ref.apply(op)
    return True


def run(chk):
    c_exe, m_exe = vlib.prepare_area(chk, slist, leanchecker=True)
    vlib.translator_tie(chk, "slist", slist.TIE_MODULE, slist.TIE_THEOREMS)
    lists_tie.tie2_run(chk, "slist")
    if c_exe:
        vlib.run_scripts(chk, slist, c_exe, m_exe, slist.corpus(), slist.oracle)
        if chk.tier == "quick":
            scripts, nstates, closed = slist.exhaustive_scripts(nelem=4, nlists=2, depth=12)
            # lists anchored at different hooks of the elements (list 3): small closure over all three lists
            s3, n3, c3 = slist.exhaustive_scripts(nelem=2, nlists=3, depth=10)
            scripts += s3
            nstates += n3
            closed = closed and c3
            rnd = slist.random_scripts(chk.rng, 60, 200, 12)
        else:
            scripts, nstates, closed = slist.exhaustive_scripts(nelem=5, nlists=3, depth=14)
            rnd = slist.random_scripts(chk.rng, 600, 300, 24)
        chk.stats["states"] += nstates
        chk.stats["transitions"] += len(scripts)
        chk.exhaustive = closed
        chk.extra["scope"] = ("every in-domain operation from every reference state reachable with "
                              "%s; closed=%s" % ("4 elements / 2 lists, and 2 elements / 3 lists (list 3 is anchored at another hook of the elements)" if chk.tier == "quick" else "5 elements / 3 lists", closed))
        vlib.run_scripts(chk, slist, c_exe, m_exe, scripts, slist.oracle)
        vlib.run_scripts(chk, slist, c_exe, m_exe, rnd, slist.oracle)
        mv = slist.moving_visitor_scripts()
        chk.extra["moving_visitor_scripts_on_the_implementation_only"] = len(mv)
        vlib.run_impl_only(chk, slist, c_exe, mv, slist.oracle)
        vlib.run_scripts(chk, slist, c_exe, m_exe, slist.sort_pattern_scripts(), slist.oracle)
        big = slist.bigsort_scripts(chk.rng, chk.tier == "quick")
        chk.extra["long_list_sorts"] = [sc[0] for sc in big]
        vlib.run_scripts(chk, slist, c_exe, m_exe, big, slist.oracle)
        if chk.mismatches and not chk.oracle_failures:
            m = chk.mismatches[0]
            small = vlib.minimise(slist, c_exe, m_exe, m["script"], in_domain)
            m["minimised"] = small
            # directed search around the difference with the independent oracle
            near = [small + [op] for op in ("pushb 1 40", "pushb 2 40", "pushb 3 40", "back 1", "back 2",
                                            "foreach 1 -1", "foreach 2 -1", "popf 1", "popf 2")]
            vlib.run_scripts(chk, slist, c_exe, m_exe, [s for s in near if in_domain(s)], slist.oracle)
    if c_exe and chk.oracle_failures:
        vlib.shrink_failures(chk, slist, c_exe, slist.oracle, in_domain)
    return chk.finish()


def replay(path):
    import json
    r = json.load(open(path))
    chk = vlib.Check("C13", "quick", 0)
    c_exe, m_exe = vlib.prepare_area(chk, slist, theorems=[])
    ops = r.get("ops") or r.get("detail", {}).get("minimised") or r.get("detail", {}).get("script")
    c, m = vlib.run_pair(c_exe, m_exe, [ops], jobs=1)
    for op, a, b in zip(ops, c[0] + ["<missing>"] * len(ops), m[0] + ["<missing>"] * len(ops)):
        print("%-20s impl: %s\n%-20s model: %s" % (op, a, "", b))
    w = slist.oracle("C13", ops, c[0])
    print("oracle:", w or "property holds on this input")
    return 1 if w else 0
