#!/usr/bin/env python3
"""
Translator for the functions of src/heap.c that contain loops and for `cstl_fls`
(src/common.c)  ->  Lean 4, in the vocabulary of lean/Cstl/TreeL/Model.lean
(`TM` memories with `setP`/`setLf`/`setRt`, header `Hd`).  Extends tools/c2lean.py
(which is imported, not edited): `cstl_heap_promote_child` is rendered by c2lean.TreeFn,
everything else by `ImpFn` below.

  python3 tools/c2lean_heap.py [repo]      prints the generated module Cstl.Gen.HeapC

lean/Cstl/HeapL/Tie.lean (hand-written, fixed) states `translation = model` for every function
and the kernel re-checks these equalities against the regenerated module on every check run
(tools/areas/heapl.py, tie_run).

What ImpFn does.  The function body is translated statement by statement into one Lean term in
state-passing style; the state is the memory `m`, the header (named as in C) and the local
variables, every assignment shadows the variable it assigns:

  a->p = v / a->l = v / a->r = v        let m := setP m a v   (setLf / setRt)
  h->bt.root = v, h->bt.size++ / --      let h := { h with root := v } / size := h.size + 1
  *a = *b   (struct cstl_bintree_node)   let m := setRt (setLf (setP m a (m.pr b)) a (m.lf b)) a (m.rt b)
  if without return / loop inside        let <assigned vars> := if c then (… <vars>) else (… <vars>)
  if with a return or a loop inside      if c then <then; rest of the function> else <else; rest>
  while / for / do-while                 an auxiliary recursive definition over a fuel argument whose
                                         state is the tuple of variables the loop assigns (`none` =
                                         fuel exhausted); loop number k of the module runs on `fu k`
  call of a translated function          its Lean name; a callee that can return `none` (it contains a
                                         loop) is bound by `match … with | none => none | some r => …`
                                         before the statement that uses its value
  __cstl_bintree_cmp(&h->bt, a, b)       cmpKey m a b   (the comparison function of the harness)
  (uintptr_t)p ± h->bt.off               p   (one element type: node address = element address)

Integers.  `unsigned` variables are `Nat`, `int` variables are `Int`.  `+ - * / % >> &` on unsigned
operands are the `Nat` operations (no wrap-around: sizes, slot numbers and masks stay far below the
width of their types, DESIGN 7); `<<` and `~` on an unsigned operand are reduced modulo 2^width,
because there the bits shifted out ARE the semantics (the mask of cstl_fls); a constant expression
converted to an unsigned type is folded to its value modulo 2^width (`~0` as unsigned long =
2^64 - 1); a non-constant `int` converted to unsigned is `Int.toNat`, unsigned to `int` is
`Int.ofNat`; `int << int` and `int >> int` are computed on the `toNat`s.
Everything else raises c2lean.Unsupported and the function is reported as not translated.
"""
import os
import re
import sys

sys.path.insert(0, os.path.dirname(os.path.abspath(__file__)))
import c2lean  # noqa: E402
from c2lean import Unsupported, clang_ast  # noqa: E402

NODE_FIELDS = {"p": ("pr", "setP"), "l": ("lf", "setLf"), "r": ("rt", "setRt")}
HDR_FIELDS = ("root", "size")
RESERVED = {"m", "fu", "fuel"} | c2lean.KEYWORDS


def qtype(n):
    t = n.get("type", {})
    return (t.get("desugaredQualType") or t.get("qualType") or "").replace("const ", "").replace(" const", "").strip()


def is_signed(t):
    return t in ("int", "long", "short", "char", "signed char", "long long")


def width(t):
    return {"unsigned int": 32, "unsigned long": 64, "unsigned long long": 64, "unsigned short": 16,
            "unsigned char": 8, "int": 32, "long": 64, "short": 16, "char": 8}.get(t)


def is_int_type(t):
    return width(t) is not None


class Sig:
    """interface of a translated function as seen by its callers"""

    def __init__(self, lean, has_mem, writes, partial, params, ret):
        self.lean, self.has_mem, self.writes, self.partial, self.params, self.ret = lean, has_mem, writes, partial, params, ret


class ImpFn:
    def __init__(self, decl, known, loop_base):
        self.decl = decl
        self.name = decl["name"]
        self.known = known              # C name -> Sig
        self.loop_base = loop_base      # number of the first loop of this function in the module
        self.nloops = 0
        self.prelude = []
        self.tmp = 0
        self.params = [p for p in decl["inner"] if p["kind"] == "ParmVarDecl"]
        self.body = [c for c in decl["inner"] if c["kind"] == "CompoundStmt"][0]
        self.hdr = None
        self.vals = []                  # (lean name, lean type)
        self.names = {}                 # C name -> lean name
        self.types = {}                 # lean name -> 'Nat' | 'Int'
        for p in self.params:
            t = qtype(p)
            if "struct cstl_heap *" in t:
                self.hdr = p["name"]
            else:
                ln = self.bind(p["name"], True)
                self.types[ln] = "Int" if is_signed(t) else "Nat"
                self.vals.append(ln)
        self.has_mem = self.hdr is not None
        rt = decl["type"]["qualType"].split("(")[0].strip().replace("const ", "")
        self.ret = None if rt == "void" else ("Int" if is_signed(rt) else "Nat")
        self.partial = self.contains_loop(self.body) or self.calls_partial(self.body)
        self.writes = self.has_mem and bool(self.assigned(self.body) & {"@mem", self.hdr})

    # ---- names
    def bind(self, cname, param=False):
        ln = cname
        if ln in RESERVED and (self.has_mem_hint() or ln != "m"):
            ln = ln + "_"
        self.names[cname] = ln
        return ln

    def has_mem_hint(self):
        return any("struct cstl_heap *" in qtype(p) for p in self.params)

    def lean_name(self):
        return "c_" + ("priv_" + self.name[2:] if self.name.startswith("__") else self.name)

    # ---- AST helpers
    def strip(self, e):
        while e["kind"] in ("ImplicitCastExpr", "ParenExpr", "CStyleCastExpr", "ConstantExpr"):
            if e["kind"] in ("ImplicitCastExpr", "CStyleCastExpr") and e.get("castKind") == "NullToPointer":
                return {"kind": "NULL"}
            if e.get("castKind") == "IntegralCast":
                return e
            e = e["inner"][0]
        return e

    def callee(self, e):
        f = e["inner"][0]
        while f["kind"] in ("ImplicitCastExpr", "ParenExpr"):
            f = f["inner"][0]
        return f.get("referencedDecl", {}).get("name")

    def walk(self, n):
        if isinstance(n, dict):
            yield n
            for c in n.get("inner", []):
                for x in self.walk(c):
                    yield x

    def contains_loop(self, n):
        return any(x.get("kind") in ("WhileStmt", "ForStmt", "DoStmt") for x in self.walk(n))

    def contains_return(self, n):
        return any(x.get("kind") == "ReturnStmt" for x in self.walk(n))

    def calls_partial(self, n):
        for x in self.walk(n):
            if x.get("kind") == "CallExpr":
                s = self.known.get(self.callee(x))
                if s is not None and s.partial:
                    return True
        return False

    def hdr_field(self, e):
        """`h->bt.root` / `h->bt.size` / `h->bt.off`: the field name or None"""
        if e["kind"] != "MemberExpr" or e.get("isArrow"):
            return None
        b = e["inner"][0]
        while b["kind"] in ("ImplicitCastExpr", "ParenExpr"):
            b = b["inner"][0]
        if b["kind"] == "MemberExpr" and b["name"] == "bt" and b.get("isArrow"):
            b2 = b["inner"][0]
            while b2["kind"] in ("ImplicitCastExpr", "ParenExpr"):
                b2 = b2["inner"][0]
            if b2["kind"] == "DeclRefExpr" and b2["referencedDecl"]["name"] == self.hdr:
                return e["name"]
        return None

    def target(self, lhs):
        """which state variable an lvalue belongs to"""
        while lhs["kind"] in ("ParenExpr", "ImplicitCastExpr"):
            lhs = lhs["inner"][0]
        if lhs["kind"] == "DeclRefExpr":
            return lhs["referencedDecl"]["name"]
        if lhs["kind"] == "MemberExpr":
            if self.hdr_field(lhs):
                return self.hdr
            if lhs.get("isArrow") and lhs["name"] in NODE_FIELDS:
                return "@mem"
        if lhs["kind"] == "UnaryOperator" and lhs["opcode"] == "*":
            return "@mem"
        raise Unsupported("assignment target %s" % lhs["kind"])

    def assigned(self, n):
        """C-level names of the state variables a statement may assign (`@mem` = the memory)"""
        out = set()
        for x in self.walk(n):
            k = x.get("kind")
            if k in ("BinaryOperator", "CompoundAssignOperator") and (x.get("opcode") == "=" or k == "CompoundAssignOperator"):
                out.add(self.target(x["inner"][0]))
            elif k == "UnaryOperator" and x.get("opcode") in ("++", "--"):
                out.add(self.target(x["inner"][0]))
            elif k == "CallExpr":
                s = self.known.get(self.callee(x))
                if s is not None and s.writes:
                    out |= {"@mem", self.hdr}
        return out

    # ---- expressions
    def fresh(self, base):
        self.tmp += 1
        return "%s%d" % (base, self.tmp)

    @staticmethod
    def atom(s):
        return s if re.match(r"^[A-Za-z_][A-Za-z0-9_.']*$", s) or s.isdigit() or (s.startswith("(") and s.endswith(")")) else "(%s)" % s

    def const_value(self, e):
        """value of an integer constant expression (as a Python int) or None"""
        e0 = e
        while e0["kind"] in ("ParenExpr", "ImplicitCastExpr", "CStyleCastExpr", "ConstantExpr"):
            if e0.get("castKind") not in (None, "IntegralCast", "NoOp"):
                return None
            inner = self.const_value(e0["inner"][0])
            if inner is None:
                return None
            if e0.get("castKind") == "IntegralCast":
                t = qtype(e0)
                if not is_signed(t) and width(t):
                    return inner % (2 ** width(t))
            return inner
        if e0["kind"] == "IntegerLiteral":
            return int(e0["value"])
        if e0["kind"] == "UnaryExprOrTypeTraitExpr" and e0.get("name") == "sizeof":
            t = e0.get("argType", {}).get("qualType")
            if t is None and e0.get("inner"):
                t = qtype(e0["inner"][0])
            t = (t or "").replace("const ", "").strip()
            if "*" in t:
                return 8
            w = width(t)
            return None if w is None else w // 8
        if e0["kind"] == "UnaryOperator" and e0["opcode"] in ("-", "~"):
            v = self.const_value(e0["inner"][0])
            if v is None:
                return None
            return -v if e0["opcode"] == "-" else -v - 1
        return None

    def expr(self, e, pend):
        """Lean text of a C expression; calls of partial functions are appended to `pend` as
        (fresh name, call text) and replaced by the fresh name"""
        if e["kind"] in ("ImplicitCastExpr", "CStyleCastExpr") and e.get("castKind") == "IntegralCast":
            tgt, src = qtype(e), qtype(e["inner"][0])
            cv = self.const_value(e)
            if cv is not None:
                return str(cv) if cv >= 0 else "(%d)" % cv
            inner = self.expr(e["inner"][0], pend)
            if is_signed(src) and not is_signed(tgt):
                return "(Int.toNat %s)" % self.atom(inner)
            if not is_signed(src) and is_signed(tgt):
                return "(Int.ofNat %s)" % self.atom(inner)
            return inner
        e = self.strip(e)
        k = e["kind"]
        if e.get("castKind") == "IntegralCast":
            return self.expr(e, pend)
        if k == "NULL":
            return "0"
        if k == "IntegerLiteral":
            return e["value"]
        cv = self.const_value(e) if k in ("UnaryOperator", "UnaryExprOrTypeTraitExpr") else None
        if cv is not None:
            return str(cv) if cv >= 0 else "(%d)" % cv
        if k == "DeclRefExpr":
            n = e["referencedDecl"]["name"]
            if n not in self.names:
                raise Unsupported("reference to %s" % n)
            return self.names[n]
        if k == "MemberExpr":
            f = self.hdr_field(e)
            if f in HDR_FIELDS:
                return "%s.%s" % (self.hdr, f)
            if f == "off":
                return "0"
            if e.get("isArrow") and e["name"] in NODE_FIELDS:
                return "(m.%s %s)" % (NODE_FIELDS[e["name"]][0], self.atom(self.expr(e["inner"][0], pend)))
            raise Unsupported("member access %s" % e.get("name"))
        if k == "CallExpr":
            fn = self.callee(e)
            args = e["inner"][1:]
            if fn == "__cstl_bintree_cmp":
                return "(cmpKey m %s %s)" % (self.atom(self.expr(args[1], pend)), self.atom(self.expr(args[2], pend)))
            s = self.known.get(fn)
            if s is None:
                raise Unsupported("call to untranslated function %s" % fn)
            if s.writes:
                raise Unsupported("call of a writing function in expression position: %s" % fn)
            call = self.call_text(s, args, pend)
            if s.partial:
                r = self.fresh("r")
                pend.append((r, call))
                return r
            return "(%s)" % call
        if k == "BinaryOperator":
            op = e["opcode"]
            a, b = e["inner"]
            t = qtype(e)
            if op in ("+", "-") and self.hdr_field(self.strip(b)) == "off":
                return self.expr(a, pend)            # element address = node address
            ta = self.expr(a, pend)
            tb = self.expr(b, pend)
            if op in ("==", "!=", "<", ">", "<=", ">="):
                return "(%s %s %s)" % (ta, {"==": "=", "!=": "≠", "<=": "≤", ">=": "≥"}.get(op, op), tb)
            if op == "&&":
                return "(%s ∧ %s)" % (ta, tb)
            if op == "||":
                return "(%s ∨ %s)" % (ta, tb)
            if op in ("+", "-", "*", "/", "%"):
                return "(%s %s %s)" % (ta, op, tb)
            if op == "&":
                return "(%s &&& %s)" % (ta, tb)
            if op == "|":
                return "(%s ||| %s)" % (ta, tb)
            if op in ("<<", ">>"):
                lop = "<<<" if op == "<<" else ">>>"
                if is_signed(t):
                    return "(Int.ofNat (%s %s %s))" % (self.as_nat(a, ta), lop, self.as_nat(b, tb))
                sh = "(%s %s %s)" % (ta, lop, self.shift_amount(b, tb))
                return "(%s %% 2 ^ %d)" % (sh, width(t)) if op == "<<" else sh
            raise Unsupported("binary operator %s" % op)
        if k == "UnaryOperator" and e["opcode"] == "~" and not is_signed(qtype(e)):
            return "(2 ^ %d - 1 - %s)" % (width(qtype(e)), self.atom(self.expr(e["inner"][0], pend)))
        raise Unsupported("expression kind %s" % k)

    def shift_amount(self, b, tb):
        return self.as_nat(b, tb)

    def as_nat(self, e, txt):
        """a (non-negative) integer operand as a `Nat` term"""
        cv = self.const_value(e)
        if cv is not None and cv >= 0:
            return str(cv)
        return "(Int.toNat %s)" % self.atom(txt) if is_signed(qtype(e)) else self.atom(txt)

    def call_text(self, s, args, pend):
        out = [s.lean]
        if s.partial:
            out.append("fu")
        ai = 0
        vals = []
        for (pname, kind) in s.params:
            a = args[ai]
            ai += 1
            if kind == "hdr":
                continue
            vals.append(self.atom(self.expr(a, pend)))
        if s.has_mem:
            out += ["m", self.hdr]
        return " ".join(out + vals)

    # ---- statements (continuation style): gen(list, scope) -> list of lines of ONE Lean term
    def result(self, scope, value):
        parts = (["m", self.hdr] if self.writes else []) + ([value] if self.ret is not None else [])
        if not parts:
            parts = ["()"]
        r = "(" + ", ".join(parts) + ")" if len(parts) > 1 else parts[0]
        return "some %s" % self.atom(r) if self.partial else r

    def with_pending(self, pend, lines, ind):
        """bind the partial calls collected in `pend` around `lines` (already indented deeper)"""
        pad = "  " * ind
        out = []
        for r, call in pend:
            out += [pad + "match %s with" % call, pad + "| none => none", pad + "| some %s =>" % r]
        return out

    def state_tuple(self, vs):
        return "(" + ", ".join(vs) + ")" if len(vs) > 1 else vs[0]

    def lean_of_cvar(self, c):
        return "m" if c == "@mem" else (self.hdr if c == self.hdr else self.names[c])

    def var_type(self, v):
        return "TM" if v == "m" else ("Hd" if v == self.hdr else self.types[v])

    def simple(self, s, scope, ind):
        """lines for a statement that does not end the function and contains no loop / return;
        returns (lines, scope)"""
        pad = "  " * ind
        k = s["kind"]
        pend = []
        if k in ("NullStmt",) or (k == "ParenExpr") or (k == "CStyleCastExpr" and "void" in qtype(s)):
            return [], scope
        if k == "CompoundStmt":
            out = []
            for c in s.get("inner", []):
                l, scope = self.simple(c, scope, ind)
                out += l
            return out, scope
        if k == "DeclStmt":
            out = []
            for v in s["inner"]:
                if v["kind"] != "VarDecl":
                    raise Unsupported("declaration")
                t = qtype(v)
                ln = self.bind(v["name"])
                self.types[ln] = "Int" if is_signed(t) else "Nat"
                if "inner" in v:
                    txt = self.expr(v["inner"][0], pend)
                else:
                    txt = "0"                       # uninitialised
                ind2 = ind + len(pend)
                out += self.with_pending(pend, None, ind)
                out.append("  " * ind2 + "let %s : %s := %s" % (ln, self.types[ln], txt))
                if pend:
                    raise Unsupported("partial call in a declaration that is followed by more code")
                scope = scope + [ln]
            return out, scope
        if k == "BinaryOperator" and s["opcode"] == ",":
            l1, scope = self.simple(s["inner"][0], scope, ind)
            l2, scope = self.simple(s["inner"][1], scope, ind)
            return l1 + l2, scope
        if k == "BinaryOperator" and s["opcode"] == "=":
            lhs, rhs = s["inner"]
            if "struct cstl_bintree_node" in qtype(s) and "*" not in qtype(s):
                dst, src = self.strip(lhs), self.strip(rhs)
                if not (dst["kind"] == "UnaryOperator" and dst["opcode"] == "*" and src["kind"] == "UnaryOperator" and src["opcode"] == "*"):
                    raise Unsupported("structure assignment")
                d_ = self.atom(self.expr(dst["inner"][0], pend))
                a = self.atom(self.expr(src["inner"][0], pend))
                if pend:
                    raise Unsupported("partial call in a structure assignment")
                return [pad + "let m := setRt (setLf (setP m %s (m.pr %s)) %s (m.lf %s)) %s (m.rt %s)" % (d_, a, d_, a, d_, a)], scope
            txt = self.expr(rhs, pend)
            if pend:
                raise Unsupported("partial call on the right of an assignment handled by gen()")
            return [pad + self.store(lhs, txt, pend)], scope
        if k == "CompoundAssignOperator":
            lhs, rhs = s["inner"]
            cur = self.expr(lhs, pend)
            tr = self.expr(rhs, pend)
            op = s["opcode"][:-1]
            t = qtype(s)
            if op in ("+", "-", "*", "/", "%"):
                txt = "%s %s %s" % (cur, op, self.atom(tr))
            elif op == ">>":
                txt = "%s >>> %s" % (cur, self.shift_amount(rhs, tr))
            elif op == "<<":
                txt = "(%s <<< %s) %% 2 ^ %d" % (cur, self.shift_amount(rhs, tr), width(t))
            elif op == "&":
                txt = "%s &&& %s" % (cur, self.atom(tr))
            else:
                raise Unsupported("compound assignment %s" % s["opcode"])
            return [pad + self.store(lhs, txt, pend)], scope
        if k == "UnaryOperator" and s["opcode"] in ("++", "--"):
            cur = self.expr(s["inner"][0], pend)
            return [pad + self.store(s["inner"][0], "%s %s 1" % (cur, "+" if s["opcode"] == "++" else "-"), pend)], scope
        if k == "CallExpr":
            fn = self.callee(s)
            sg = self.known.get(fn)
            if sg is None:
                raise Unsupported("call to untranslated function %s" % fn)
            if sg.partial:
                raise Unsupported("statement call of a partial function")
            call = self.call_text(sg, s["inner"][1:], pend)
            if not sg.writes:
                return [], scope
            r = self.fresh("pc")
            return [pad + "let %s := %s" % (r, call), pad + "let m := %s.1" % r, pad + "let %s := %s.2" % (self.hdr, r)], scope
        if k == "IfStmt":
            cond = self.expr(s["inner"][0], pend)
            if pend:
                raise Unsupported("partial call in a condition")
            then = s["inner"][1]
            els = s["inner"][2] if len(s["inner"]) > 2 else None
            asg = self.assigned(then) | (self.assigned(els) if els else set())
            vs = [v for v in scope if v in [self.lean_of_cvar(c) for c in asg if c == "@mem" or c == self.hdr or c in self.names]]
            if not vs:
                return [], scope
            st = self.state_tuple(vs)
            saved = dict(self.names)
            lt, _ = self.simple(then, scope, ind + 2)
            self.names = dict(saved)
            le, _ = (self.simple(els, scope, ind + 2) if els else ([], scope))
            self.names = saved
            out = [pad + "let %s := if %s then (" % (st, cond)] + lt + [pad + "    %s)" % st, pad + "  else ("] + le + [pad + "    %s)" % st]
            return out, scope
        raise Unsupported("statement kind %s" % k)

    def store(self, lhs, txt, pend):
        lhs0 = lhs
        while lhs0["kind"] in ("ParenExpr", "ImplicitCastExpr"):
            lhs0 = lhs0["inner"][0]
        if lhs0["kind"] == "DeclRefExpr":
            ln = self.names[lhs0["referencedDecl"]["name"]]
            return "let %s : %s := %s" % (ln, self.types[ln], txt)
        if lhs0["kind"] == "MemberExpr":
            f = self.hdr_field(lhs0)
            if f in HDR_FIELDS:
                return "let %s := { %s with %s := %s }" % (self.hdr, self.hdr, f, txt)
            if lhs0.get("isArrow") and lhs0["name"] in NODE_FIELDS:
                return "let m := %s m %s %s" % (NODE_FIELDS[lhs0["name"]][1], self.atom(self.expr(lhs0["inner"][0], pend)), self.atom(txt))
        raise Unsupported("assignment target")

    def is_simple(self, s):
        return not self.contains_loop(s) and not self.contains_return(s) and not self.calls_partial(s)

    def gen(self, lst, scope, ind):
        """the rest of the function from the statement list `lst` on, as lines of one Lean term"""
        pad = "  " * ind
        if not lst:
            return [pad + self.result(scope, "0")]
        s, rest = lst[0], lst[1:]
        k = s["kind"]
        if k == "CompoundStmt":
            # block-local declarations stay visible to the rest: harmless, names are unique in these functions
            return self.gen(list(s.get("inner", [])) + rest, scope, ind)
        if self.is_simple(s):
            lines, scope = self.simple(s, scope, ind)
            return lines + self.gen(rest, scope, ind)
        if k == "ReturnStmt":
            pend = []
            v = self.expr(s["inner"][0], pend) if s.get("inner") else None
            out = self.with_pending(pend, None, ind)
            return out + ["  " * (ind + len(pend)) + self.result(scope, v)]
        if k == "IfStmt":
            pend = []
            cond = self.expr(s["inner"][0], pend)
            if pend:
                raise Unsupported("partial call in a condition")
            then = s["inner"][1]
            els = s["inner"][2] if len(s["inner"]) > 2 else None
            saved = dict(self.names)
            out = [pad + "if %s then" % cond]
            out += self.gen([then] + rest, scope, ind + 1)
            self.names = dict(saved)
            out.append(pad + "else")
            out += self.gen(([els] if els else []) + rest, scope, ind + 1)
            self.names = saved
            return out
        if k in ("DeclStmt", "BinaryOperator"):
            # `T v = partial_call(…);` / `lhs = partial_call(…);`: bind the call, then the statement
            pend = []
            if k == "DeclStmt":
                if len(s["inner"]) != 1 or "inner" not in s["inner"][0]:
                    raise Unsupported("declaration with a partial call")
                v = s["inner"][0]
                txt = self.expr(v["inner"][0], pend)
                ln = self.bind(v["name"])
                self.types[ln] = "Int" if is_signed(qtype(v)) else "Nat"
                line = "let %s : %s := %s" % (ln, self.types[ln], txt)
                scope = scope + [ln]
            elif s["opcode"] == "=":
                txt = self.expr(s["inner"][1], pend)
                line = self.store(s["inner"][0], txt, pend)
            else:
                raise Unsupported("operator %s with a partial call" % s["opcode"])
            out = self.with_pending(pend, None, ind)
            ind2 = ind + len(pend)
            return out + ["  " * ind2 + line] + self.gen(rest, scope, ind2)
        if k in ("WhileStmt", "ForStmt", "DoStmt"):
            return self.loop(s, rest, scope, ind)
        raise Unsupported("statement kind %s (with a loop, a return or a partial call inside)" % k)

    def loop(self, s, rest, scope, ind):
        pad = "  " * ind
        k = s["kind"]
        pre = []
        if k == "ForStmt":
            init, _, cond, incr, body = s["inner"]
            if init and init.get("kind"):
                # the initialiser may call a partial function (`b = (1 << cstl_fls(loc)) >> 1`)
                return self.gen([init, {"kind": "ForStmt", "inner": [{}, {}, cond, incr, body]}] + rest, scope, ind)
        elif k == "WhileStmt":
            cond, body = s["inner"]
            incr = None
        else:
            body, cond = s["inner"]
            incr = None
        number = self.loop_base + self.nloops
        self.nloops += 1
        lname = "%s_loop%d" % (self.lean_name(), self.nloops)
        asg = self.assigned(body) | (self.assigned(incr) if incr and incr.get("kind") else set())
        asg_lean = set(self.lean_of_cvar(c) for c in asg if c == "@mem" or c == self.hdr or c in self.names)
        svars = [v for v in scope if v in asg_lean]
        if not svars:
            raise Unsupported("loop without state")
        saved = dict(self.names)
        pend = []
        ctxt = self.expr(cond, pend)
        if pend:
            raise Unsupported("partial call in a loop condition")
        blines, _ = self.simple(body, scope, 3)
        if incr and incr.get("kind"):
            il, _ = self.simple(incr, scope, 3)
            blines += il
        self.names = saved
        text = "\n".join(blines) + "\n" + ctxt
        consts = [v for v in scope if v not in svars and re.search(r"(?<![A-Za-z0-9_.'])%s(?![A-Za-z0-9_'])" % re.escape(v), text)]
        tup = self.state_tuple(svars)
        tys = [self.var_type(v) for v in svars]
        cpar = "".join(" (%s : %s)" % (c, self.var_type(c)) for c in consts)
        hdr = "def %s%s : Nat → %s → Option (%s)" % (lname, cpar, " → ".join(tys), " × ".join(tys))
        call = "%s %s" % (lname, " ".join(consts)) if consts else lname
        if k == "DoStmt":
            d = [hdr, "  | 0, %s => none" % ", ".join("_" for _ in svars), "  | fuel + 1, %s =>" % ", ".join(svars)]
            d += [l[2:] for l in blines]
            d += ["    if %s then %s fuel %s" % (ctxt, call, " ".join(svars)), "    else some %s" % tup]
        else:
            d = [hdr, "  | 0, %s => if %s then none else some %s" % (", ".join(svars), ctxt, tup),
                 "  | fuel + 1, %s =>" % ", ".join(svars), "    if %s then" % ctxt]
            d += blines
            d += ["      %s fuel %s" % (call, " ".join(svars)), "    else some %s" % tup]
        self.prelude.append("/-- loop %d of the module (runs on `fu %d`): the %s of `%s` -/\n" % (number, number, {"WhileStmt": "while", "ForStmt": "for", "DoStmt": "do/while"}[k], self.name) + "\n".join(d) + "\n")
        out = [pad + "match %s (fu %d) %s with" % (call, number, " ".join(svars)), pad + "| none => none", pad + "| some %s =>" % tup]
        return out + self.gen(rest, scope, ind + 1)

    def render(self):
        scope = (["m", self.hdr] if self.has_mem else []) + list(self.vals)
        body = self.gen(self.body.get("inner", []), scope, 1)
        par = ""
        if self.partial:
            par += " (fu : Nat → Nat)"
        if self.has_mem:
            par += " (m : TM) (%s : Hd)" % self.hdr
        for v in self.vals:
            par += " (%s : %s)" % (v, self.types[v])
        parts = (["TM", "Hd"] if self.writes else []) + ([self.ret] if self.ret is not None else [])
        rty = " × ".join(parts) if parts else "Unit"
        if self.partial:
            rty = "Option (%s)" % rty if " " in rty else "Option %s" % rty
        return "".join(p + "\n" for p in self.prelude) + "def %s%s : %s :=\n%s\n" % (self.lean_name(), par, rty, "\n".join(body))

    def sig(self):
        ps = []
        for p in self.params:
            ps.append((p["name"], "hdr" if "struct cstl_heap *" in qtype(p) else "val"))
        return Sig(self.lean_name(), self.has_mem, self.writes, self.partial, ps, self.ret)


# the functions of the generated module, in dependency order
ORDER = [("common.c", "cstl_fls"), ("heap.c", "cstl_heap_find"), ("heap.c", "cstl_heap_promote_child"),
         ("heap.c", "cstl_heap_push"), ("heap.c", "cstl_heap_get"), ("heap.c", "cstl_heap_pop")]
MODULE = "HeapC"
HEADER = "import Cstl.HeapL.Model\n"
OPENS = "open Cstl.TreeL\nopen Cstl.HeapL (cmpKey)\n"


def translate(repo):
    """-> (text of lean/Cstl/Gen/HeapC.lean, report {function: status})"""
    decls = {}
    for src in sorted(set(s for s, _ in ORDER)):
        decls.update(clang_ast(repo, src, set(n for s, n in ORDER if s == src)))
    known, chunks, report = {}, [], {}
    nloops = 0
    for src, name in ORDER:
        if name not in decls:
            report[name] = "not found in source"
            continue
        try:
            if name == "cstl_heap_promote_child":
                f = c2lean.TreeFn(decls[name])
                chunks.append(f.render())
                known[name] = Sig(f.lean_name(), True, True, False, [("h", "hdr"), ("c", "val")], None)
                report[name] = "translated (c2lean.TreeFn)"
                continue
            f = ImpFn(decls[name], known, nloops)
            txt = f.render()
            known[name] = f.sig()
            nloops += f.nloops
            chunks.append(txt)
            report[name] = "translated" + (" (%d loop%s)" % (f.nloops, "" if f.nloops == 1 else "s") if f.nloops else "")
        except Unsupported as e:
            report[name] = "not translated: %s" % e
    out = ("-- GENERATED by tools/c2lean_heap.py from /repo's src/heap.c and src/common.c on every check run; do not edit.\n"
           + HEADER + "set_option linter.unusedVariables false\n" + "namespace Cstl.Gen.%s\n" % MODULE + OPENS + "\n"
           + "\n".join(chunks) + "\nend Cstl.Gen.%s\n" % MODULE)
    return out, report


if __name__ == "__main__":
    repo = sys.argv[1] if len(sys.argv) > 1 else os.environ.get("VERIF_REPO", "/repo")
    txt, rep = translate(repo)
    sys.stdout.write(txt)
    for k, v in rep.items():
        sys.stderr.write("%s: %s\n" % (k, v))
