#!/usr/bin/env python3
"""
Translator for src/map.c  ->  Lean 4, in the vocabulary of the map layer of
lean/Cstl/Tree/Model.lean (+ lean/Cstl/Tree/MapSem.lean).  Uses the AST reader of tools/c2lean.py
(imported, not edited).

  python3 tools/c2lean_map.py [repo]      prints the generated module Cstl.Gen.MapC

lean/Cstl/Tree/TieMap.lean (hand-written, fixed) ties the model's `mapInsert`, `mapFind`,
`mapErase`, `mapEraseNode`, `mapClear` (property C08) to these translations; the kernel re-checks the
ties against the regenerated module on every check run (tools/areas/sortmap_tie.py, tie_run(chk, "map")).

Translated: cstl_map_iterator_init, cstl_map_node_alloc, cstl_map_node_free, __cstl_map_find,
cstl_map_find, cstl_map_erase_iterator, cstl_map_erase, cstl_map_insert and __cstl_map_node_clear
(the callback-then-free step cstl_map_clear hands to cstl_rbtree_clear).  Statement by statement:

  cstl_map_t * map                       the state `c : CSt` (model `MapSt` + event log); a function that
                                         changes it returns the new one first
  struct cstl_map_node * x               `x : Option Elem` (NULL = `none`); `x->key = key` = `setKey x key`,
                                         `x->val = v` = `setVal x v`; reading `x->key` / `x->val` = `nodeKp x` /
                                         `nodeVal x`; a local `struct cstl_map_node` is an `Elem`, `&node` its
                                         address
  const void * key (parameter)           `key : KeyP` (address + the value the comparison function reads)
  cstl_map_iterator_t i / *i             `i : CIt`, fields `node` (`_`), `key`, `val`; an iterator pointer
                                         parameter the function compares with NULL is `Option CIt`
                                         (`*_i = i` = `some i`); a pointer parameter written through is an
                                         extra result; `*cstl_map_iterator_end(m)` = `CIt.end_` (the static
                                         object is CHECKED to be all-NULL)
  struct cstl_map_node ** p              the node stored through it is an extra result of the function
                                         (discarded by a caller that passes NULL)
  cstl_rbtree_find(&map->t, &node, p)    `rbtFindP c node` = the model's `find` (found, last node passed)
  cstl_rbtree_insert(&map->t, node, p)   `rbtInsertP c node p` = the model's `rbInsert` / `rbInsertAt p.id`
  __cstl_rbtree_erase(&map->t, &n->n)    `rbtEraseP c n` = the model's `rbErase` at the node's key
                                         (both `none` where the model reports a NULL dereference)
  malloc(sizeof(*n))                     `mallocP c ok` — `ok` is the oracle's answer, an extra first
                                         parameter of every function that can reach malloc
  free(n)                                `freeP c n` (log event)
  cmc->clr != NULL, cmc->clr(&i, priv)   `withCb = true`, `cbP c i` (log event)
  if                                     `let (assigned variables) := if c then (…) else (…)`; in a function
                                         that can stop (`Option`), `let … ← (if c then do … else …)`
  int                                    `Int`

Everything else raises c2lean.Unsupported and the function is reported as not translated.
"""
import json
import os
import re
import subprocess
import sys

sys.path.insert(0, os.path.dirname(os.path.abspath(__file__)))
import c2lean  # noqa: E402
from c2lean import Unsupported  # noqa: E402

MODULE = "MapC"
HEADER = "import Cstl.Tree.MapSem\n"
OPENS = "open Cstl.Tree Cstl.Tree.MapSem\n"
ORDER = ["cstl_map_iterator_init", "cstl_map_node_alloc", "cstl_map_node_free", "__cstl_map_find",
         "cstl_map_find", "cstl_map_erase_iterator", "cstl_map_erase", "cstl_map_insert", "__cstl_map_node_clear"]
RESERVED = {"c", "ok", "withCb", "some", "none", "pure", "if", "then", "else", "let", "do", "match", "with", "fun"} | c2lean.KEYWORDS
LEAN_TY = {"node": "Option Elem", "nodes": "Elem", "iter": "CIt", "iterp": "CIt", "iterp?": "Option CIt",
           "key": "KeyP", "val": "Nat", "int": "Int", "nodepp": "Option Elem", "st": "CSt"}
UNINIT = {"node": "none", "nodes": "nodeUninit", "iter": "itUninit", "int": "0", "val": "0"}


def ctype(n):
    t = n.get("type", {})
    t = t.get("desugaredQualType") or t.get("qualType") or ""
    return re.sub(r"\s+", " ", re.sub(r"\bconst\b", "", t)).replace("* ", "*").strip()


def rawtype(n):
    return n.get("type", {}).get("qualType", "")


def kind_of_type(t):
    return {"struct cstl_map_node *": "node", "struct cstl_map_node": "nodes", "struct cstl_map_node **": "nodepp",
            "cstl_map_iterator_t": "iter", "cstl_map_iterator_t *": "iterp", "int": "int",
            "cstl_map_t *": "map", "struct cmc_priv *": "cmc"}.get(t)


def parse_tu(repo, src):
    cmd = ["clang-14", "-std=c99", "-DNDEBUG", "-D_POSIX_C_SOURCE=199309L",
           "-I", os.path.join(repo, "include"), "-fsyntax-only",
           "-Xclang", "-ast-dump=json", os.path.join(repo, "src", src)]
    r = subprocess.run(cmd, stdout=subprocess.PIPE, stderr=subprocess.PIPE, universal_newlines=True)
    if r.returncode != 0:
        raise Unsupported("clang failed on %s: %s" % (src, r.stderr[-500:]))
    tu = json.loads(r.stdout)
    return {d["name"]: d for d in tu.get("inner", [])
            if d.get("kind") == "FunctionDecl" and any(c.get("kind") == "CompoundStmt" for c in d.get("inner", []))}


def lname(n):
    return "«%s»" % n if n in c2lean.KEYWORDS else (n + "_" if n in RESERVED else n)


def atom(s):
    s = str(s)
    if re.match(r"^[A-Za-z_«][A-Za-z0-9_.»«']*$", s) or s.isdigit():
        return s
    if s.startswith("(") and s.endswith(")"):
        d = 0
        for i, ch in enumerate(s):
            d += ch == "("
            d -= ch == ")"
            if d == 0 and i != len(s) - 1:
                break
        else:
            return s
    return "(%s)" % s


def strip(e):
    while e.get("kind") in ("ImplicitCastExpr", "ParenExpr", "CStyleCastExpr") and e.get("castKind") != "NullToPointer":
        e = e["inner"][0]
    return e


def is_null(e):
    while e.get("kind") in ("ImplicitCastExpr", "ParenExpr", "CStyleCastExpr"):
        if e.get("castKind") == "NullToPointer":
            return True
        e = e["inner"][0]
    return False


def walk(n):
    if isinstance(n, dict):
        yield n
        for c in n.get("inner", []):
            for x in walk(c):
                yield x


def check_end(decl):
    """cstl_map_iterator_end must return the address of a static object whose fields are all NULL"""
    body = [c for c in decl["inner"] if c["kind"] == "CompoundStmt"][0]
    var = None
    for x in walk(body):
        if x.get("kind") == "VarDecl" and x.get("storageClass") == "static":
            inits = [y for y in x.get("inner", []) if y.get("kind") == "InitListExpr"]
            if len(inits) != 1 or len(inits[0].get("inner", [])) != 3 or not all(is_null(y) for y in inits[0]["inner"]):
                raise Unsupported("cstl_map_iterator_end: the end object is not {NULL, NULL, NULL}")
            var = x["name"]
    rets = [x for x in walk(body) if x.get("kind") == "ReturnStmt"]
    if var is None or len(rets) != 1:
        raise Unsupported("cstl_map_iterator_end: unexpected shape")
    r = strip(rets[0]["inner"][0])
    if not (r.get("kind") == "UnaryOperator" and r.get("opcode") == "&" and strip(r["inner"][0]).get("referencedDecl", {}).get("name") == var):
        raise Unsupported("cstl_map_iterator_end: does not return the static end object")


class Sig:
    def __init__(self, lean, params, takes_c, writes_c, outs, ret, partial, needs_ok, needs_cb):
        self.lean, self.params, self.takes_c, self.writes_c = lean, params, takes_c, writes_c
        self.outs, self.ret, self.partial, self.needs_ok, self.needs_cb = outs, ret, partial, needs_ok, needs_cb


class MFn:
    def __init__(self, decl, known):
        self.decl = decl
        self.name = decl["name"]
        self.known = known
        self.lean = "c_" + ("priv_" + self.name[2:] if self.name.startswith("__") else self.name)
        self.params = [p for p in decl["inner"] if p["kind"] == "ParmVarDecl"]
        self.body = [c for c in decl["inner"] if c["kind"] == "CompoundStmt"][0]
        self.scope = {}         # lean name -> kind
        self.cname = {}         # C name -> lean name
        self.alias = {}         # C name of a local that is a cast of a parameter -> that parameter's C name
        self.assigned = set()
        self.tmp = 0
        self.pre = []
        rt = ctype({"type": {"qualType": decl["type"]["qualType"].split("(")[0]}})
        self.ret = None if rt == "void" else kind_of_type(rt)
        if rt != "void" and self.ret not in ("node", "int"):
            raise Unsupported("return type %s" % rt)
        calls = [self.callee(x) for x in walk(self.body) if x.get("kind") == "CallExpr"]
        self.partial = any(f in ("cstl_rbtree_insert", "__cstl_rbtree_erase") or (f in known and known[f].partial) for f in calls)
        self.needs_ok = any(f == "malloc" or (f in known and known[f].needs_ok) for f in calls)
        self.pkinds = []
        self.classify()

    def callee(self, e):
        f = e["inner"][0]
        while f["kind"] in ("ImplicitCastExpr", "ParenExpr"):
            f = f["inner"][0]
        if f.get("kind") == "MemberExpr":
            return "->" + f["name"]
        return f.get("referencedDecl", {}).get("name")

    def classify(self):
        """kind of every parameter; `void *` parameters take the type of the local they are cast to"""
        for p in self.params:
            t = ctype(p)
            n = p["name"]
            k = kind_of_type(t)
            if k is None and t == "void *":
                if "const void" in rawtype(p):
                    k = "key"
                else:
                    k = "val"
                    for x in walk(self.body):
                        if x.get("kind") == "CallExpr" and self.callee(x) == "free" and \
                                strip(x["inner"][1]).get("referencedDecl", {}).get("name") == n:
                            k = "node"          # what is handed to free() is a map node
                    for x in walk(self.body):
                        if x.get("kind") == "VarDecl" and x.get("inner"):
                            y = x["inner"][-1]
                            if strip(y).get("kind") == "DeclRefExpr" and strip(y)["referencedDecl"]["name"] == n:
                                k2 = kind_of_type(ctype(x))
                                if k2 in ("node", "cmc"):
                                    k = k2
            if k is None:
                raise Unsupported("parameter %s of type %s" % (n, t))
            if k == "iterp":
                for x in walk(self.body):
                    if x.get("kind") == "BinaryOperator" and x.get("opcode") in ("==", "!="):
                        a, b = x["inner"]
                        for u, v in ((a, b), (b, a)):
                            if strip(u).get("kind") == "DeclRefExpr" and strip(u)["referencedDecl"]["name"] == n and is_null(v):
                                k = "iterp?"
            self.pkinds.append(k)
        self.needs_cb = "cmc" in self.pkinds

    # ---- names
    def declare(self, cname, kind):
        ln = lname(cname)
        self.cname[cname] = ln
        self.scope[ln] = kind
        return ln

    def fresh(self, b):
        self.tmp += 1
        return "%s%d" % (b, self.tmp)

    def ref(self, e):
        """(lean name, kind) of a (cast of a) variable reference, or None"""
        e = strip(e)
        if e.get("kind") != "DeclRefExpr":
            return None
        n = e["referencedDecl"]["name"]
        n = self.alias.get(n, n)
        if n not in self.cname:
            raise Unsupported("reference to %s" % n)
        ln = self.cname[n]
        return ln, self.scope[ln]

    def is_map(self, e):
        e = strip(e)
        if e.get("kind") == "MemberExpr" and e.get("name") == "map":
            r = self.ref(e["inner"][0])
            return r is not None and r[1] == "cmc"
        r = self.ref(e) if e.get("kind") == "DeclRefExpr" else None
        return r is not None and r[1] == "map"

    def is_tree_of_map(self, e):
        """`&map->t`"""
        e = strip(e)
        if e.get("kind") == "UnaryOperator" and e.get("opcode") == "&":
            m = strip(e["inner"][0])
            return m.get("kind") == "MemberExpr" and m.get("name") == "t" and self.is_map(m["inner"][0])
        return False

    # ---- expressions -> (text, kind)
    def touch_c(self):
        self.assigned.add("c")

    def expr(self, e):
        if is_null(e):
            return "none", "null"
        e0 = e
        e = strip(e)
        k = e.get("kind")
        if k == "IntegerLiteral":
            return e["value"], "int"
        if k == "UnaryOperator" and e.get("opcode") == "-" and strip(e["inner"][0]).get("kind") == "IntegerLiteral":
            return "(-%s)" % strip(e["inner"][0])["value"], "int"
        if k == "DeclRefExpr":
            r = self.ref(e)
            if r[1] in ("map", "cmc"):
                raise Unsupported("use of `%s` as a value" % e["referencedDecl"]["name"])
            return r
        if k == "UnaryOperator" and e.get("opcode") == "&":
            x = strip(e["inner"][0])
            r = self.ref(x) if x.get("kind") == "DeclRefExpr" else None
            if r and r[1] == "nodes":
                return "(some %s)" % r[0], "node"
            if x.get("kind") == "MemberExpr" and x.get("name") == "n" and x.get("isArrow"):
                t, kd = self.expr(x["inner"][0])           # &n->n: the rbtree node inside the map node
                if kd == "node":
                    return t, "node"
            raise Unsupported("address-of")
        if k == "UnaryOperator" and e.get("opcode") == "*":
            x = strip(e["inner"][0])
            if x.get("kind") == "CallExpr" and self.callee(x) == "cstl_map_iterator_end":
                return "CIt.end_", "iter"
            r = self.ref(x) if x.get("kind") == "DeclRefExpr" else None
            if r and r[1] == "iterp":
                return r[0], "iter"
            if r and r[1] == "iterp?":
                return "(derefIt %s)" % r[0], "iter"
            raise Unsupported("dereference")
        if k == "MemberExpr":
            base = e["inner"][0]
            f = e["name"]
            bt, bk = self.expr(base) if strip(base).get("kind") != "DeclRefExpr" or self.ref(base)[1] != "cmc" else (None, "cmc")
            if bk == "cmc":
                raise Unsupported("field `%s` of the clear context used as a value" % f)
            if bk == "iterp?":
                bt, bk = "(derefIt %s)" % bt, "iter"
            if bk in ("iter", "iterp"):
                if f == "_":
                    return "%s.node" % atom(bt), "node"
                if f in ("key", "val"):
                    return "%s.%s" % (atom(bt), f), "val"
            if bk == "node":
                if f == "key":
                    return "(nodeKp %s)" % atom(bt), "val"
                if f == "val":
                    return "(nodeVal %s)" % atom(bt), "val"
            raise Unsupported("member %s of a %s" % (f, bk))
        if k == "BinaryOperator":
            op = e["opcode"]
            a, b = e["inner"]
            if op == "=":
                return self.assign(a, b)
            if op in ("==", "!="):
                sa = strip(a)
                if sa.get("kind") == "MemberExpr" and sa.get("name") == "clr" and is_null(b):
                    r = self.ref(sa["inner"][0])
                    if r and r[1] == "cmc":
                        return "(withCb = %s)" % ("true" if op == "!=" else "false"), "prop"
                ta, ka = self.expr(a)
                tb, kb = self.expr(b)
                if kb == "null" and ka in ("node", "iterp?"):
                    return "(%s %s none)" % (ta, "≠" if op == "!=" else "="), "prop"
                if ka == kb == "int":
                    return "(%s %s %s)" % (ta, "≠" if op == "!=" else "=", tb), "prop"
                raise Unsupported("comparison of %s with %s" % (ka, kb))
            raise Unsupported("binary operator %s" % op)
        if k == "CallExpr":
            return self.call(e)
        raise Unsupported("expression kind %s" % k)

    def cond(self, e):
        t, kd = self.expr(e)
        if kd == "prop":
            return t
        if kd == "node":
            return "(%s ≠ none)" % t
        if kd == "int":
            return "(%s ≠ 0)" % t
        raise Unsupported("condition of kind %s" % kd)

    def bind(self, ln, kind, txt):
        self.pre.append("let %s : %s := %s" % (ln, LEAN_TY[kind], txt))
        self.assigned.add(ln)

    def assign(self, lhs, rhs):
        l = strip(lhs)
        k = l.get("kind")
        if k == "DeclRefExpr":
            ln, kd = self.ref(l)
            txt, kr = self.expr(rhs)
            if kr == "null" and kd == "node":
                kr = "node"
            if kd != kr or kd not in ("node", "int", "iter"):
                raise Unsupported("assignment of a %s to a %s" % (kr, kd))
            self.bind(ln, kd, txt)
            return ln, kd
        if k == "UnaryOperator" and l.get("opcode") == "*":
            r = self.ref(l["inner"][0])
            txt, kr = self.expr(rhs)
            if r is None or kr != "iter":
                raise Unsupported("store through a pointer")
            if r[1] == "iterp":
                self.bind(r[0], "iterp", txt)
            elif r[1] == "iterp?":
                self.bind(r[0], "iterp?", "some %s" % atom(txt))
            else:
                raise Unsupported("store through a %s" % r[1])
            return r[0], "iter"
        if k == "MemberExpr":
            f = l["name"]
            r = self.ref(l["inner"][0])
            if r is None:
                raise Unsupported("assignment to a field of an expression")
            ln, kd = r
            txt, kr = self.expr(rhs)
            if kd in ("iter", "iterp", "iterp?"):
                if f == "_" and kr in ("node", "null"):
                    upd = "node := %s" % txt
                elif f in ("key", "val") and kr == "val":
                    upd = "%s := %s" % (f, txt)
                else:
                    raise Unsupported("iterator field %s := %s" % (f, kr))
                if kd == "iterp?":
                    self.bind(ln, kd, "%s.map fun it => { it with %s }" % (ln, upd))
                else:
                    self.bind(ln, kd, "{ %s with %s }" % (ln, upd))
                return txt, kr
            if kd == "node":
                if f == "key" and kr == "key":
                    self.bind(ln, kd, "setKey %s %s" % (ln, txt))
                elif f == "val" and kr == "val":
                    self.bind(ln, kd, "setVal %s %s" % (ln, txt))
                else:
                    raise Unsupported("node field %s := %s" % (f, kr))
                return txt, kr
            if kd == "nodes" and f == "key" and kr == "key":
                self.bind(ln, kd, "setKeyS %s %s" % (ln, txt))
                return txt, kr
            raise Unsupported("assignment to field %s of a %s" % (f, kd))
        raise Unsupported("assignment target %s" % k)

    def call(self, e):
        fn = self.callee(e)
        args = e["inner"][1:]
        if fn == "malloc":
            a = strip(args[0])
            if not (a.get("kind") == "UnaryExprOrTypeTraitExpr" and a.get("name") == "sizeof"):
                raise Unsupported("malloc of something else than sizeof")
            st = a.get("argType", {}).get("qualType") or ctype(a["inner"][0])
            if "struct cstl_map_node" not in st or "*" in st:
                raise Unsupported("malloc(sizeof(%s))" % st)
            r = self.fresh("r")
            self.pre.append("let (c, %s) := mallocP c ok" % r)
            self.touch_c()
            return r, "node"
        if fn == "free":
            t, kd = self.expr(args[0])
            if kd != "node":
                raise Unsupported("free of a %s" % kd)
            self.pre.append("let c := freeP c %s" % atom(t))
            self.touch_c()
            return None, None
        if fn == "cstl_rbtree_find":
            if not self.is_tree_of_map(args[0]):
                raise Unsupported("cstl_rbtree_find on something else than &map->t")
            t, kd = self.expr(args[1])
            m = re.match(r"^\(some (.*)\)$", t)
            if kd != "node" or not m:
                raise Unsupported("cstl_rbtree_find probe")
            out = self.ref(args[2]) if not is_null(args[2]) else None
            if out is None or out[1] != "nodepp":
                raise Unsupported("cstl_rbtree_find: third argument is not the function's own out-parameter")
            r = self.fresh("r")
            self.pre.append("let (%s, %s) := rbtFindP c %s" % (r, out[0], atom(m.group(1))))
            self.assigned.add(out[0])
            return r, "node"
        if fn == "cstl_rbtree_insert":
            if not self.is_tree_of_map(args[0]):
                raise Unsupported("cstl_rbtree_insert on something else than &map->t")
            t1, k1 = self.expr(args[1])
            t2, k2 = self.expr(args[2])
            if k1 != "node" or k2 != "node":
                raise Unsupported("cstl_rbtree_insert arguments")
            self.pre.append("let c ← rbtInsertP c %s %s" % (atom(t1), atom(t2)))
            self.touch_c()
            return None, None
        if fn == "__cstl_rbtree_erase":
            if not self.is_tree_of_map(args[0]):
                raise Unsupported("__cstl_rbtree_erase on something else than &map->t")
            t1, k1 = self.expr(args[1])
            if k1 != "node":
                raise Unsupported("__cstl_rbtree_erase argument")
            self.pre.append("let c ← rbtEraseP c %s" % atom(t1))
            self.touch_c()
            return None, None
        if fn == "->clr":
            f = strip(e["inner"][0])
            r = self.ref(f["inner"][0])
            if r is None or r[1] != "cmc":
                raise Unsupported("call through a field")
            a = strip(args[0])
            if not (a.get("kind") == "UnaryOperator" and a.get("opcode") == "&"):
                raise Unsupported("clear callback argument")
            it = self.ref(a["inner"][0])
            if it is None or it[1] != "iter":
                raise Unsupported("clear callback argument")
            self.pre.append("let c := cbP c %s" % it[0])
            self.touch_c()
            return None, None
        sig = self.known.get(fn)
        if sig is None:
            raise Unsupported("call to untranslated function %s" % fn)
        out = [sig.lean] + (["ok"] if sig.needs_ok else []) + (["withCb"] if sig.needs_cb else []) + (["c"] if sig.takes_c else [])
        pats = ["c"] if sig.writes_c else []
        post = []
        for a, (pn, pk) in zip(args, sig.params):
            if pk == "map":
                if not self.is_map(a):
                    raise Unsupported("map argument of %s" % fn)
            elif pk == "cmc":
                raise Unsupported("clear context handed on")
            elif pk in ("iterp", "iterp?"):
                x = strip(a)
                if x.get("kind") == "UnaryOperator" and x.get("opcode") == "&":
                    r = self.ref(x["inner"][0])
                    if r is None or r[1] != "iter":
                        raise Unsupported("iterator argument of %s" % fn)
                    out.append(r[0] if pk == "iterp" else "(some %s)" % r[0])
                    if pn in sig.outs:
                        if pk == "iterp":
                            pats.append(r[0])
                            self.assigned.add(r[0])
                        else:
                            t = self.fresh("o")
                            pats.append(t)
                            post.append("let %s : CIt := derefIt %s" % (r[0], t))
                            self.assigned.add(r[0])
                else:
                    r = self.ref(x) if x.get("kind") == "DeclRefExpr" else None
                    if r is None or r[1] not in ("iterp", "iterp?"):
                        raise Unsupported("iterator argument of %s" % fn)
                    if r[1] == pk:
                        out.append(r[0])
                        if pn in sig.outs:
                            pats.append(r[0])
                            self.assigned.add(r[0])
                    elif r[1] == "iterp?" and pk == "iterp":
                        out.append("(derefIt %s)" % r[0])
                        if pn in sig.outs:
                            t = self.fresh("o")
                            pats.append(t)
                            post.append("let %s : Option CIt := some %s" % (r[0], t))
                            self.assigned.add(r[0])
                    else:
                        raise Unsupported("iterator argument of %s" % fn)
            elif pk == "nodepp":
                if is_null(a):
                    pats.append("_")
                else:
                    x = strip(a)
                    if x.get("kind") == "UnaryOperator" and x.get("opcode") == "&":
                        r = self.ref(x["inner"][0])
                        if r is None or r[1] != "node":
                            raise Unsupported("out-parameter of %s" % fn)
                    else:
                        r = self.ref(x) if x.get("kind") == "DeclRefExpr" else None
                        if r is None or r[1] != "nodepp":
                            raise Unsupported("out-parameter of %s" % fn)
                    pats.append(r[0])
                    self.assigned.add(r[0])
            else:
                t, kd = self.expr(a)
                if kd == "null" and pk == "node":
                    kd = "node"
                if kd != pk:
                    raise Unsupported("argument of kind %s where %s takes %s" % (kd, fn, pk))
                out.append(atom(t))
        rv = None
        if sig.ret is not None:
            rv = self.fresh("r")
            pats.append(rv)
        if sig.writes_c:
            self.touch_c()
        calltxt = " ".join(out)
        if not pats:
            if sig.partial:
                self.pre.append("let _ ← %s" % calltxt)
            return None, None
        pat = pats[0] if len(pats) == 1 else "(%s)" % ", ".join(pats)
        self.pre.append("let %s %s %s" % (pat, "←" if sig.partial else ":=", calltxt))
        self.pre += post
        return rv, sig.ret

    # ---- statements
    def flush(self):
        p, self.pre = self.pre, []
        return p

    @staticmethod
    def ind(lines, n=1):
        return ["  " * n + l for l in lines]

    def flatten(self, stmts):
        out = []
        for s in stmts:
            if s.get("kind") == "CompoundStmt":
                out += self.flatten(s.get("inner", []))
            elif s.get("kind"):
                out.append(s)
        return out

    def block(self, stmts):
        lines = []
        for s in self.flatten(stmts):
            k = s["kind"]
            if k == "NullStmt" or (k == "CStyleCastExpr" and ctype(s) == "void"):
                continue
            if k == "DeclStmt":
                for v in s["inner"]:
                    if v["kind"] != "VarDecl":
                        raise Unsupported("declaration")
                    kd = kind_of_type(ctype(v))
                    init = v["inner"][-1] if v.get("inner") and v["inner"][-1].get("kind", "").endswith(("Expr", "Operator", "Literal")) else None
                    if kd == "cmc" or (init is not None and kd == "node" and strip(init).get("kind") == "DeclRefExpr"
                                       and self.ref(init) and self.ref(init)[1] == "node"
                                       and strip(init)["referencedDecl"].get("kind") == "ParmVarDecl"):
                        # `T * const x = p;` for a `void *` parameter p: x is p at its real type
                        src = strip(init)["referencedDecl"]["name"]
                        self.alias[v["name"]] = self.alias.get(src, src)
                        continue
                    if kd not in UNINIT:
                        raise Unsupported("variable %s of type %s" % (v["name"], ctype(v)))
                    if init is not None:
                        txt, ke = self.expr(init)
                        if ke != kd:
                            raise Unsupported("initialiser of kind %s for the %s `%s`" % (ke, kd, v["name"]))
                    else:
                        txt = UNINIT[kd]
                    lines += self.flush()
                    ln = self.declare(v["name"], kd)
                    lines.append("let %s : %s := %s" % (ln, LEAN_TY[kd], txt))
                continue
            if k == "IfStmt":
                lines += self.if_stmt(s)
                continue
            if k == "ReturnStmt":
                raise Unsupported("return that is not the last statement")
            if k in ("BinaryOperator", "CallExpr"):
                self.expr(s)
                lines += self.flush()
                continue
            raise Unsupported("statement kind %s" % k)
        return lines

    def if_stmt(self, s):
        parts = s["inner"]
        c = self.cond(parts[0])
        lines = self.flush()
        then = parts[1]
        els = parts[2] if len(parts) > 2 else None
        outer = list(self.scope)
        a0 = set(self.assigned)

        def branch(b):
            sn = (dict(self.scope), dict(self.cname), dict(self.alias))
            self.assigned = set()
            ls = self.block([b]) if b else []
            asg = set(self.assigned)
            self.scope, self.cname, self.alias = sn
            return ls, asg
        tmp0 = self.tmp
        lt, a1 = branch(then)
        le, a2 = branch(els)
        asg = [v for v in outer if v in (a1 | a2)]
        self.assigned = a0 | set(asg)
        if not asg:
            if lt or le:
                raise Unsupported("branch with effects on no variable")
            return lines
        tup = asg[0] if len(asg) == 1 else "(%s)" % ", ".join(asg)
        tys = " × ".join(LEAN_TY[self.scope[v]] for v in asg)
        if any("←" in l for l in lt + le):
            lines.append("let %s ← (if %s then do" % (tup, c))
            lines += self.ind(lt, 2) + ["    pure %s" % tup, "  else do"] + self.ind(le, 2) + ["    pure %s : Option (%s))" % (tup, tys)]
        else:
            lines.append("let %s : %s := if %s then (" % (tup, tys, c))
            lines += self.ind(lt, 2) + ["    %s)" % tup, "  else ("] + self.ind(le, 2) + ["    %s)" % tup]
        return lines

    # ---- whole function
    def render(self):
        self.scope = {"c": "st"}
        pars = []
        for p, k in zip(self.params, self.pkinds):
            if k in ("map",):
                self.cname[p["name"]] = "@map"
                self.scope["@map"] = "map"
            elif k == "cmc":
                self.cname[p["name"]] = "@cmc"
                self.scope["@cmc"] = "cmc"
            else:
                ln = self.declare(p["name"], k)
                if k != "nodepp":
                    pars.append((ln, LEAN_TY[k]))
        stmts = self.flatten(self.body.get("inner", []))
        retv = None
        if stmts and stmts[-1]["kind"] == "ReturnStmt":
            last = stmts.pop()
            lines = self.block(stmts)
            if last.get("inner"):
                retv, kr = self.expr(last["inner"][0])
                if kr != self.ret:
                    raise Unsupported("return of kind %s" % kr)
                lines += self.flush()
        else:
            lines = self.block(stmts)
        if self.ret is not None and retv is None:
            raise Unsupported("no return value")
        self.writes_c = "c" in self.assigned
        self.outs = [p["name"] for p, k in zip(self.params, self.pkinds)
                     if k in ("iterp", "iterp?", "nodepp") and self.cname[p["name"]] in self.assigned]
        for p, k in zip(self.params, self.pkinds):
            if k == "nodepp" and p["name"] not in self.outs:
                raise Unsupported("out-parameter `%s` never written" % p["name"])
        res = (["c"] if self.writes_c else []) + [self.cname[n] for n in self.outs] + ([retv] if retv is not None else [])
        rtys = (["CSt"] if self.writes_c else []) + [LEAN_TY[self.scope[self.cname[n]]] for n in self.outs] + \
            ([LEAN_TY[self.ret]] if self.ret is not None else [])
        text = "\n".join(lines + res)
        self.takes_c = bool(re.search(r"(?<![A-Za-z0-9_.'])c(?![A-Za-z0-9_'])", text))
        if not res:
            res, rtys = ["()"], ["Unit"]
        rt = rtys[0] if len(rtys) == 1 else " × ".join(rtys)
        rtxt = res[0] if len(res) == 1 else "(%s)" % ", ".join(res)
        hdr = "def %s%s%s%s%s : %s :=%s" % (
            self.lean, " (ok : Bool)" if self.needs_ok else "", " (withCb : Bool)" if self.needs_cb else "",
            " (c : CSt)" if self.takes_c else "", "".join(" (%s : %s)" % p for p in pars),
            "Option (%s)" % rt if self.partial else rt, " do" if self.partial else "")
        lines.append("pure %s" % rtxt if self.partial else rtxt)
        return "/-- `%s` -/\n" % self.name + hdr + "\n" + "\n".join(self.ind(lines)) + "\n"

    def sig(self):
        return Sig(self.lean, [(p["name"], k) for p, k in zip(self.params, self.pkinds)], self.takes_c, self.writes_c,
                   self.outs, self.ret, self.partial, self.needs_ok, self.needs_cb)


def translate(repo):
    """-> (text of lean/Cstl/Gen/MapC.lean, report {function: status})"""
    fns = parse_tu(repo, "map.c")
    report, chunks, known = {}, [], {}
    end_ok = True
    try:
        if "cstl_map_iterator_end" not in fns:
            raise Unsupported("cstl_map_iterator_end not found")
        check_end(fns["cstl_map_iterator_end"])
        report["cstl_map_iterator_end"] = "translated (checked: the address of a static all-NULL iterator = CIt.end_)"
    except Unsupported as e:
        report["cstl_map_iterator_end"] = "not translated: %s" % e
        end_ok = False
    for name in ORDER:
        if name not in fns:
            report[name] = "not found in source"
            continue
        try:
            if not end_ok and any(x.get("kind") == "CallExpr" and strip(x["inner"][0]).get("referencedDecl", {}).get("name") == "cstl_map_iterator_end"
                                  for x in walk(fns[name])):
                raise Unsupported("uses cstl_map_iterator_end, which was not recognised")
            f = MFn(fns[name], known)
            txt = f.render()
            known[name] = f.sig()
            chunks.append(txt)
            report[name] = "translated"
        except Unsupported as e:
            report[name] = "not translated: %s" % e
    for n in ("cstl_map_clear", "cstl_map_init"):
        report[n] = "not translated (hands the step function / comparison to cstl_rbtree_clear / cstl_rbtree_init: primitives)"
    out = ("-- GENERATED by tools/c2lean_map.py from /repo's src/map.c on every check run; do not edit.\n"
           + HEADER + "set_option linter.unusedVariables false\n" + "namespace Cstl.Gen.%s\n" % MODULE + OPENS + "\n"
           + "\n".join(chunks) + "\nend Cstl.Gen.%s\n" % MODULE)
    return out, report


c2lean.AREAS["mapc"] = dict(src="map.c", module=MODULE, custom=translate)


if __name__ == "__main__":
    repo = sys.argv[1] if len(sys.argv) > 1 else os.environ.get("VERIF_REPO", "/repo")
    txt, rep = translate(repo)
    sys.stdout.write(txt)
    for k, v in rep.items():
        sys.stderr.write("%s: %s\n" % (k, v))
