#!/usr/bin/env python3
"""Mutation sweep: how many small syntactic changes of the library that compile and keep the
52 unit tests green are reported by the property checks?

usage: tools/mutsweep.py <out.jsonl> [--per-file N] [--seed S] [--jobs J] [--files a.c,b.c]

For every sampled mutant (one token-level change in the non-test part of a source file or header):
  1. scratch copy of /repo (src, include, Makefile), mutation applied;
  2. `make test` there: the mutant is kept only if all 52 checks still pass ("survivor");
  3. the quick tier of every property mapped to the file is run with VERIF_REPO=<scratch copy>;
     verdicts: concrete (VIOLATION with a failing input), nofail (VIOLATION ...
     no-failing-input-found), ok (no alarm: an equivalent mutant, or a gap).
Nothing is applied to /repo.  One JSON line per mutant."""
import json
import os
import random
import re
import shutil
import subprocess
import sys
import tempfile
from concurrent.futures import ThreadPoolExecutor

HERE = os.path.dirname(os.path.abspath(__file__))
VERIF = os.path.dirname(HERE)

PROPS = {
    "src/bintree.c": ["C01", "C15"], "src/rbtree.c": ["C02", "C08"], "src/map.c": ["C08", "C15"],
    "src/heap.c": ["C07"], "src/hash.c": ["C03", "C04", "C19", "C17"], "src/dlist.c": ["C12"],
    "src/slist.c": ["C13"], "src/vector.c": ["C09", "C16"], "src/_string.c": ["C10"],
    "src/array.c": ["C11", "C14"], "src/memory.c": ["C05", "C06", "C20"], "src/common.c": ["C07"],
    "include/cstl/common.h": ["C11", "C01"], "include/cstl/memory.h": ["C05", "C20"],
    "include/cstl/hash.h": ["C19", "C03"], "include/cstl/vector.h": ["C09"], "include/cstl/array.h": ["C14"],
    "include/cstl/_string.h": ["C10"], "include/cstl/map.h": ["C08"], "include/cstl/heap.h": ["C07", "C15"],
    "include/cstl/rbtree.h": ["C02"], "include/cstl/bintree.h": ["C01"], "include/cstl/dlist.h": ["C12"],
    "include/cstl/slist.h": ["C13"],
}

REPL = [
    (r"<=", ["<"]), (r">=", [">"]), (r"(?<![<>=!-])<(?![<=])", ["<="]), (r"(?<![<>=!-])>(?![>=])", [">="]),
    (r"==", ["!="]), (r"!=", ["=="]), (r"&&", ["||"]), (r"\|\|", ["&&"]),
    (r"(?<![+\w)])\+ 1\b", ["+ 0", "+ 2"]), (r" \+ 1\b", ["", " + 2"]), (r" - 1\b", ["", " - 2"]),
    (r"(?<![+])\+(?![+=])", ["-"]), (r"(?<![->])-(?![->=])", ["+"]),
    (r"\b0\b", ["1"]), (r"\b1\b", ["0", "2"]), (r"\bNULL\b", ["(void *)1"]),
    (r"/ 2\b", ["/ 3"]), (r"\* 2\b", ["* 3"]), (r">>", ["<<"]), (r"<<", [">>"]),
    (r"\+\+", ["--"]), (r"--", ["++"]), (r"->l\b", ["->r"]), (r"->r\b", ["->l"]),
    (r"->n\b", ["->p"]), (r"->p\b", ["->n"]), (r"\bhard\b", ["soft"]), (r"\bsoft\b", ["hard"]),
    (r"!(?=[a-zA-Z_(])", [""]), (r"if \(", ["if (!"]),
]


def candidate_sites(path):
    """-> list of (line index, start, end, replacement, kind)"""
    lines = open(path).read().split("\n")
    sites = []
    in_comment = False
    depth_test = False
    for i, line in enumerate(lines):
        if "__cfg_test__" in line and line.lstrip().startswith("#ifdef"):
            depth_test = True
        if depth_test:
            break
        code = line
        # crude comment removal (block comments tracked across lines)
        if in_comment:
            if "*/" in code:
                code = " " * (code.index("*/") + 2) + code[code.index("*/") + 2:]
                in_comment = False
            else:
                continue
        while "/*" in code:
            a = code.index("/*")
            if "*/" in code[a:]:
                b = code.index("*/", a) + 2
                code = code[:a] + " " * (b - a) + code[b:]
            else:
                code = code[:a]
                in_comment = True
        if "//" in code:
            code = code[:code.index("//")]
        s = code.strip()
        if not s or s.startswith("#") or s.startswith("*") or "assert(" in s:
            continue
        for pat, reps in REPL:
            for m in re.finditer(pat, code):
                # skip inside string literals
                if code[:m.start()].count('"') % 2 == 1:
                    continue
                for rep in reps:
                    if pat == r"if \(":
                        # negate the whole condition: if (X) -> if (!(X)) needs the closing paren; handle one-line ifs
                        close = code.rfind(")")
                        if close <= m.end() or code.count("(") != code.count(")"):
                            continue
                        new = line[:m.end()] + "!(" + line[m.end():close] + ")" + line[close:]
                        sites.append((i, new, "negate-if"))
                    else:
                        new = line[:m.start()] + rep + line[m.end():]
                        sites.append((i, new, "%s->%s" % (m.group(0), rep)))
        # statement deletion: simple assignment / call statements
        if re.match(r"^\s+[^=;(){}]+(=[^=].*|\(.*\));\s*$", code) and not re.match(r"^\s*(return|break|continue|goto|const|struct|unsigned|int|size_t|void|char|bool)\b", code):
            sites.append((i, re.match(r"^\s*", line).group(0) + ";", "delete-stmt"))
    return lines, sites


def sh(cmd, **kw):
    return subprocess.run(cmd, stdout=subprocess.PIPE, stderr=subprocess.STDOUT, universal_newlines=True,
                          errors="replace", **kw)


def run_mutant(args):
    rel, lineno, new, kind, old, do_checks = args
    d = tempfile.mkdtemp(prefix="mutsweep_")
    rec = {"file": rel, "line": lineno + 1, "kind": kind, "old": old.strip(), "new": new.strip()}
    try:
        dst = os.path.join(d, "repo")
        shutil.copytree("/repo", dst, ignore=shutil.ignore_patterns(".git", "build"))
        for sub in ("build/test", "build/benches"):
            os.makedirs(os.path.join(dst, sub), exist_ok=True)
        p = os.path.join(dst, rel)
        lines = open(p).read().split("\n")
        lines[lineno] = new
        with open(p, "w") as fh:
            fh.write("\n".join(lines))
        try:
            r = sh(["make", "-C", dst, "test"], timeout=40)
            m = re.search(r"(\d+)%: Checks: (\d+), Failures: (\d+), Errors: (\d+)", r.stdout)
            rec["tests"] = "pass" if (m and m.group(1) == "100" and m.group(2) == "52") else ("fail" if m else "nobuild")
        except subprocess.TimeoutExpired:
            rec["tests"] = "timeout"
        shutil.rmtree(os.path.join(dst, "build"), ignore_errors=True)
        if rec["tests"] != "pass" or not do_checks:
            return rec
        env = dict(os.environ, VERIF_REPO=dst)
        rec["checks"] = {}
        for prop in PROPS.get(rel, []):
            try:
                r = subprocess.run([sys.executable, os.path.join(HERE, "check.py"), prop, "--tier", "quick"], env=env, cwd=VERIF,
                                   stdout=subprocess.PIPE, stderr=subprocess.DEVNULL, universal_newlines=True, errors="replace", timeout=1500)
                out = r.stdout
            except subprocess.TimeoutExpired:
                rec["checks"][prop] = "timeout"
                continue
            vs = [l for l in out.split("\n") if l.startswith("VIOLATION")]
            if any("no-failing-input-found" not in l for l in vs):
                v = "concrete"
                try:
                    rp = [l for l in vs if "no-failing-input-found" not in l][0].split("replay=")[1].split()[0]
                    rep = json.load(open(rp))
                    rec.setdefault("witness", {})[prop] = {"ops": rep.get("ops", [])[:12], "oracle": str(rep.get("oracle"))[:200]}
                except Exception:
                    pass
            elif vs:
                v = "nofail"
            elif "OK property" in out:
                v = "ok"
            else:
                v = "error"
            rec["checks"][prop] = v
            if v == "concrete":
                break       # settled
        return rec
    finally:
        shutil.rmtree(d, ignore_errors=True)


def main():
    out = sys.argv[1]
    per_file, seed, jobs, files = 12, 1, 4, None
    a = sys.argv[2:]
    while a:
        if a[0] == "--per-file":
            per_file = int(a[1])
        elif a[0] == "--seed":
            seed = int(a[1])
        elif a[0] == "--jobs":
            jobs = int(a[1])
        elif a[0] == "--files":
            files = a[1].split(",")
        a = a[2:]
    rng = random.Random(seed)
    work = []
    for rel in sorted(PROPS):
        if files and os.path.basename(rel) not in files and rel not in files:
            continue
        path = os.path.join("/repo", rel)
        if not os.path.exists(path):
            continue
        lines, sites = candidate_sites(path)
        rng.shuffle(sites)
        seen = set()
        n = 0
        for (i, new, kind) in sites:
            if (i, new) in seen or new == lines[i]:
                continue
            seen.add((i, new))
            work.append((rel, i, new, kind, lines[i]))
            n += 1
            if n >= per_file * 6:      # oversample: most mutants are killed by the unit tests
                break
    print("%d mutants to try" % len(work), flush=True)
    # phase 1: which mutants survive the unit tests
    survivors = {}
    killed = 0
    with ThreadPoolExecutor(max_workers=max(jobs, 8)) as ex:
        for w, rec in zip(work, ex.map(run_mutant, [w + (False,) for w in work])):
            if rec.get("tests") == "pass":
                survivors.setdefault(rec["file"], []).append(w)
            else:
                killed += 1
    print("killed by the unit tests / not compiling: %d; survivors per file: %s"
          % (killed, {k: len(v) for k, v in sorted(survivors.items())}), flush=True)
    # phase 2: the property checks on up to per_file survivors per file
    todo = []
    for rel, ws in sorted(survivors.items()):
        todo += [w + (True,) for w in ws[:per_file]]
    with open(out, "a") as fh, ThreadPoolExecutor(max_workers=jobs) as ex:
        for rec in ex.map(run_mutant, todo):
            fh.write(json.dumps(rec) + "\n")
            fh.flush()
            print(rec["file"], rec["line"], rec["kind"], rec.get("checks"), flush=True)


if __name__ == "__main__":
    main()
