#!/usr/bin/env python3
"""Behaviour-preserving rewrites (seeded/harmless-*): the property checks mapped to the rewritten file must
not report a concrete failing input (a `no-failing-input-found` verdict for a broken tie is the prescribed outcome).
usage: tools/harmless_check.py [ids...]"""
import json
import os
import shutil
import subprocess
import sys
import tempfile

HERE = os.path.dirname(os.path.abspath(__file__))
VERIF = os.path.dirname(HERE)
sys.path.insert(0, HERE)
from mutsweep import PROPS  # noqa: E402


def one(sid):
    sdir = os.path.join(VERIF, "seeded", sid)
    meta = json.load(open(os.path.join(sdir, "meta.json")))
    files = [l.split()[1][2:] for l in open(os.path.join(sdir, "patch.diff")) if l.startswith("+++ b/")]
    props = sorted(set(p for f in files for p in PROPS.get(f, [])))
    d = tempfile.mkdtemp(prefix="harmless_")
    res = {}
    try:
        dst = os.path.join(d, "repo")
        shutil.copytree("/repo", dst, ignore=shutil.ignore_patterns(".git", "build"))
        r = subprocess.run(["patch", "-p1", "-s", "-i", os.path.join(sdir, "patch.diff")], cwd=dst)
        if r.returncode != 0:
            return sid, {"patch": "FAILED"}
        for p in props:
            r = subprocess.run([sys.executable, os.path.join(HERE, "check.py"), p, "--tier", "quick"],
                               env=dict(os.environ, VERIF_REPO=dst), cwd=VERIF, stdout=subprocess.PIPE,
                               stderr=subprocess.DEVNULL, universal_newlines=True, errors="replace")
            vs = [l for l in r.stdout.split("\n") if l.startswith("VIOLATION")]
            res[p] = ("CONCRETE" if any("no-failing-input-found" not in l for l in vs) else
                      "nofail" if vs else "ok" if "OK property" in r.stdout else "error")
        meta["checked"] = res
        with open(os.path.join(sdir, "meta.json"), "w") as fh:
            json.dump(meta, fh, indent=1)
            fh.write("\n")
        return sid, res
    finally:
        shutil.rmtree(d, ignore_errors=True)


if __name__ == "__main__":
    ids = sys.argv[1:] or sorted(x for x in os.listdir(os.path.join(VERIF, "seeded")) if x.startswith("harmless"))
    bad = 0
    for sid in ids:
        s, res = one(sid)
        print(s, res, flush=True)
        bad += sum(1 for v in res.values() if v in ("CONCRETE", "error", "FAILED"))
    sys.exit(1 if bad else 0)
