#!/usr/bin/env python3
"""
Translator: integer / control skeleton of src/vector.c and of the string
template src/_string.c (as instantiated twice by src/string.c)  ->  Lean 4.

Reads the typed clang AST of /repo's *current* source (after preprocessing, so
the narrow `cstl_string_*` and the wide `cstl_wstring_*` instantiation are both
seen as ordinary functions) and emits, per C function, a Lean definition over
`Nat` in the vocabulary of lean/Cstl/Vec/Model.lean + lean/Cstl/Vec/CSem.lean:

  size_t  +  -  *            addW / subW / mulW   (the model's explicit `% 2^64`);
                             only for operands whose C type is a 64-bit unsigned type
  / % comparisons SIZE_MAX   literal
  sizeof(cstl_STRING_char_t) `cw` := `.esz` of the function's first string parameter
                             (string objects are created by cstl_STRING_init with
                             elem.size = sizeof(char_t); pointer arithmetic on
                             `char_t *` into object `o` is scaled by `o.esz`)
  abort()                    `.error .abort`          (function becomes `Except Stop _`)
  while / do-while           a fuelled recursive definition (`none` = out of fuel;
                             the function then takes `fuel` and returns `Option (Except Stop _)`)
  realloc / free             `reallocM ans newId` + `reallocEv` / `freeEv` events
  v->elem.base = e / NULL    `setBase` / `clearBase`;   v->count = n   `setCount`
  xtor(__cstl_vector_at(v,i), priv)      `callX xtor v i`  (callback on slot i)
  *p = x, memmove, memcpy    `storeOff` / `moveOff` / `readOff` + `writeOff` at the byte
                             offsets the translated pointer arithmetic produces
  pointers into an object    byte offset from `elem.base` (a pointer-returning function
                             returns that offset)
  size_t *out                value in, value out (returned in the result tuple)

The result of a translated function is the tuple (objects it writes, in
parameter order; the event list if it calls realloc/free/callbacks; out
parameters; the return value).

lean/Cstl/Vec/Tie.lean (hand-written, fixed) states `translation = model` for
each function; tools/areas/vec_tie.py regenerates this file from the current
source on every run and re-checks those equalities.  Everything outside the
supported subset raises Unsupported and is reported as "not translated".

tools/c2lean.py is not edited: this module registers itself as area "vec" in
c2lean.AREAS so that vlib.translator_tie can drive it.
"""
import json
import os
import re
import subprocess
import sys

sys.path.insert(0, os.path.dirname(os.path.abspath(__file__)))
import c2lean                                   # noqa: E402
from c2lean import Unsupported, lname           # noqa: E402


class NotSimple(Exception):
    """a statement that needs sequencing (may stop / loop / return) inside a let-form `if`"""


U64 = {"unsigned long", "size_t", "uintptr_t", "const size_t", "const unsigned long", "const uintptr_t"}
RE_VEC = re.compile(r"^(const )?struct cstl_(vector|string|wstring) \*( ?const)?$")
RE_CHAR = re.compile(r"^(const )?cstl_w?string_char_t$")
RE_CHARP = re.compile(r"^(const )?cstl_w?string_char_t \*( ?const)?$")
RE_OUT = re.compile(r"^size_t \*( ?const)?$")
RE_STRFN = re.compile(r"^cstl_w?string_str$")

LEAN_TY = {"nat": "Nat", "vec": "Vector", "rres": "RRes", "fnptr": "FnPtr", "chars": "List Nat",
           "out": "Nat", "ev": "List Ev", "ans": "Nat → Bool"}


def parse_tu(repo, src):
    cmd = ["clang-14", "-std=c99", "-DNDEBUG", "-D_POSIX_C_SOURCE=199309L",
           "-I", os.path.join(repo, "include"), "-fsyntax-only",
           "-Xclang", "-ast-dump=json", os.path.join(repo, "src", src)]
    r = subprocess.run(cmd, stdout=subprocess.PIPE, stderr=subprocess.PIPE, universal_newlines=True)
    if r.returncode != 0:
        raise Unsupported("clang failed on %s: %s" % (src, r.stderr[-500:]))
    tu = json.loads(r.stdout)
    fns, gvars = {}, {}
    for d in tu.get("inner", []):
        if d.get("kind") == "FunctionDecl" and any(c.get("kind") == "CompoundStmt" for c in d.get("inner", [])):
            fns[d["name"]] = d
        if d.get("kind") == "VarDecl" and d.get("inner"):
            gvars[d["name"]] = d
    return fns, gvars


class Val:
    def __init__(self, kind, txt=None, obj=None, raw=False):
        self.kind = kind        # nat prop vec ptr rres fnptr chars out null opaque
        self.txt = txt
        self.obj = obj          # ptr: the object pointed into; txt = byte offset from its base
        self.raw = raw          # ptr converted to an integer (uintptr_t): `+` is not scaled


def atom(s):
    s = str(s)
    if re.match(r"^[A-Za-z_«][A-Za-z0-9_.»«]*$", s) or s.isdigit() or (s.startswith("(") and s.endswith(")")) \
            or (s.startswith("[") and s.endswith("]")):
        return s
    return "(%s)" % s


def proj(r, i, n):
    """i-th component of an n-tuple value r (right-nested pairs)"""
    if n == 1:
        return r
    return r + ".2" * i + (".1" if i < n - 1 else "")


class VFn:
    def __init__(self, decl, known, gvars):
        self.decl = decl
        self.known = known
        self.gvars = gvars
        self.name = decl["name"]
        self.lean = "c_" + ("priv_" + self.name[2:] if self.name.startswith("__") else self.name)
        self.params = []            # (cname, kind)
        for p in decl["inner"]:
            if p["kind"] != "ParmVarDecl":
                continue
            q = p["type"]["qualType"]
            if RE_VEC.match(q):
                k = "vec"
            elif q in U64 or RE_CHAR.match(q):
                k = "nat"
            elif RE_OUT.match(q):
                k = "out"
            elif RE_CHARP.match(q):
                k = "chars"
            else:
                raise Unsupported("parameter %s of type %s" % (p.get("name"), q))
            self.params.append((p["name"], k))
        self.body = [c for c in decl["inner"] if c["kind"] == "CompoundStmt"][0]
        rt = decl["type"]["qualType"].split("(")[0].strip()
        if rt == "void":
            self.ret = None
        elif rt in U64:
            self.ret = "nat"
        elif rt.endswith("*") and ("void" in rt or "char_t" in rt):
            self.ret = "ptr"
        else:
            raise Unsupported("return type %s" % rt)
        self.final = None
        self.ret_obj = None
        self.loops_txt = []

    # ---- flags: discovered in a first run, used in the second
    def reset(self):
        self.found = {"stop": False, "fuel": False, "emits": False, "allocs": False, "cw": False}
        self.written = set()
        self.assigned = set()
        self.vars = dict(self.params)
        self.var_obj = {}           # rres local -> the object whose base was given to realloc
        self.skip = set()
        self.tmp = 0
        self.nloops = 0
        self.loops_txt = []
        self.pre = []
        self.in_loop = 0
        self.ind = 1

    def F(self, k):
        return self.final["flags"][k] if self.final else False

    def flag(self, *ks):
        for k in ks:
            self.found[k] = True
        if self.found["fuel"]:
            self.found["stop"] = True

    def kind(self):
        return "fuel" if self.F("fuel") else ("stop" if self.F("stop") else "pure")

    def layout(self):
        """[(what, name)] of the result tuple"""
        w = self.final["written"] if self.final else set()
        out = [("vec", n) for n, k in self.params if k == "vec" and n in w]
        if self.F("emits"):
            out.append(("ev", "ev"))
        out += [("out", n) for n, k in self.params if k == "out"]
        if self.ret is not None:
            out.append(("ret", None))
        return out

    def fresh(self, p):
        self.tmp += 1
        return "%s%d" % (p, self.tmp)

    def pad(self):
        return "  " * self.ind

    def emit(self, line):
        self.pre.append(self.pad() + line)

    def let(self, var, txt):
        self.assigned.add(var)
        if self.vars.get(var) == "vec":
            self.written.add(var)
        self.emit("let %s := %s" % (lname(var), txt))

    def first_vec(self):
        for n, k in self.params:
            if k == "vec":
                return n
        raise Unsupported("sizeof(char_t) without a string parameter")

    # ---- sequencing
    def bind(self, txt, ckind, closed):
        """bind the value of `txt` (a call of kind ckind) to a fresh name"""
        r = self.fresh("r")
        if ckind == "pure":
            self.emit("let %s := %s" % (r, txt))
            return r
        if closed:
            raise NotSimple()
        self.flag("stop")
        if ckind == "fuel":
            self.flag("fuel")
            self.emit("bindF (%s) fun %s =>" % (txt, r))
        elif self.kind() == "fuel":
            self.emit("bindF (some (%s)) fun %s =>" % (txt, r))
        else:
            self.emit("andThen (%s) fun %s =>" % (txt, r))
        return r

    def wrap_ok(self, tup):
        k = self.kind()
        if k == "pure":
            return tup
        if k == "stop":
            return ".ok %s" % atom(tup)
        return "some (.ok %s)" % atom(tup)

    def abort_txt(self):
        return ".error .abort" if self.kind() != "fuel" else "some (.error .abort)"

    def result(self, retv):
        comps = []
        for what, n in self.layout():
            comps.append(lname(n) if what in ("vec", "out") else ("ev" if what == "ev" else retv))
        if not comps:
            tup = "()"
        elif len(comps) == 1:
            tup = comps[0]
        else:
            tup = "(" + ", ".join(comps) + ")"
        return self.wrap_ok(tup)

    # ---- expressions
    def strip(self, e):
        """remove parentheses and value-preserving casts; returns (node, raw, null)"""
        raw = False
        while True:
            k = e["kind"]
            if k in ("ParenExpr", "ConstantExpr"):
                e = e["inner"][0]
                continue
            if k in ("ImplicitCastExpr", "CStyleCastExpr"):
                ck = e.get("castKind")
                if ck == "NullToPointer":
                    return {"kind": "NULL"}, False
                if ck in ("LValueToRValue", "NoOp", "BitCast", "FunctionToPointerDecay"):
                    e = e["inner"][0]
                    continue
                if ck in ("PointerToIntegral", "IntegralToPointer"):
                    raw = True
                    e = e["inner"][0]
                    continue
                if ck == "IntegralCast":
                    inner = e["inner"][0]
                    core = inner
                    while core["kind"] in ("ParenExpr", "ImplicitCastExpr") and core.get("castKind") in (None, "LValueToRValue", "NoOp"):
                        core = core["inner"][0]
                    st = core.get("type", {}).get("qualType", "")
                    dt = e.get("type", {}).get("qualType", "")
                    if core["kind"] in ("IntegerLiteral", "CharacterLiteral") or (st in U64 and dt in U64) \
                            or (RE_CHAR.match(st) and RE_CHAR.match(dt)):
                        e = inner
                        continue
                    raise Unsupported("integral conversion %s -> %s" % (st, dt))
                raise Unsupported("cast %s" % ck)
            return e, raw

    def member_path(self, e):
        """MemberExpr chain -> (object variable, 'elem.size')"""
        names = []
        while e["kind"] == "MemberExpr":
            names.append(e["name"])
            arrow = e.get("isArrow")
            e, _ = self.strip(e["inner"][0])
            if arrow:
                break
        else:
            raise Unsupported("member access on a non-pointer")
        base = self.val_node(e)
        if base.kind != "vec":
            raise Unsupported("member access on %s" % base.kind)
        names.reverse()
        return base.txt, ".".join(names)

    def val(self, e, closed=False):
        node, raw = self.strip(e)
        v = self.val_node(node, closed)
        if raw and v.kind == "ptr":
            v = Val("ptr", v.txt, v.obj, raw=True)
        return v

    def as_nat(self, v):
        if v.kind in ("nat", "out"):
            return v.txt
        raise Unsupported("integer expected, got %s" % v.kind)

    def as_prop(self, v):
        if v.kind == "prop":
            return v.txt
        if v.kind == "nat":
            return "(%s ≠ 0)" % v.txt
        raise Unsupported("condition of kind %s" % v.kind)

    def incdec(self, target, op, postfix):
        """++/-- on an lvalue; returns the value of the expression"""
        node, _ = self.strip(target)
        f = "addW" if op == "++" else "subW"
        if node["kind"] == "DeclRefExpr" and self.vars.get(node["referencedDecl"]["name"]) == "nat":
            n = node["referencedDecl"]["name"]
            self.check_u64(node)
            old = None
            if postfix:
                old = self.fresh("t")
                self.emit("let %s := %s" % (old, lname(n)))
            self.let(n, "%s %s 1" % (f, lname(n)))
            return Val("nat", old if postfix else lname(n))
        if node["kind"] == "MemberExpr":
            obj, path = self.member_path(node)
            if path in ("count", "cap"):
                self.check_u64(node)
                old = None
                if postfix:
                    old = self.fresh("t")
                    self.emit("let %s := %s.%s" % (old, lname(obj), path))
                new = "%s %s.%s 1" % (f, lname(obj), path)
                self.let(obj, "setCount %s (%s)" % (lname(obj), new) if path == "count"
                         else "{ %s with cap := %s }" % (lname(obj), new))
                return Val("nat", old if postfix else "%s.%s" % (lname(obj), path))
        raise Unsupported("++/-- target")

    def check_u64(self, node):
        t = node.get("type", {}).get("qualType", "")
        if t not in U64:
            raise Unsupported("arithmetic in type %s" % t)

    def val_node(self, e, closed=False):
        k = e["kind"]
        if k == "NULL":
            return Val("null")
        if k == "IntegerLiteral":
            return Val("nat", "SIZE_MAX" if e["value"] == "18446744073709551615" else e["value"])
        if k == "CharacterLiteral":
            return Val("nat", str(e["value"]))
        if k == "DeclRefExpr":
            rd = e["referencedDecl"]
            n = rd["name"]
            if rd["kind"] in ("ParmVarDecl", "VarDecl") and n in self.vars:
                kd = self.vars[n]
                if kd is None:
                    raise Unsupported("use of %s before assignment" % n)
                return Val(kd, lname(n), self.var_obj.get(n))
            if n in self.skip:
                return Val("opaque")
            if rd["kind"] == "VarDecl" and n in self.gvars:
                g = self.gvars[n]
                init, _ = self.strip(g["inner"][0])
                if RE_CHAR.match(g["type"]["qualType"]) and init["kind"] in ("CharacterLiteral", "IntegerLiteral"):
                    return Val("nat", str(init["value"]))
            raise Unsupported("reference to %s" % n)
        if k == "UnaryExprOrTypeTraitExpr" and e.get("name") == "sizeof":
            at = e.get("argType", {}).get("qualType", "")
            if RE_CHAR.match(at):
                self.flag("cw")
                return Val("nat", "cw")
            raise Unsupported("sizeof(%s)" % (at or "expression"))
        if k == "UnaryOperator":
            op = e["opcode"]
            if op == "&":
                inner, _ = self.strip(e["inner"][0])
                if inner["kind"] == "MemberExpr" and inner["name"] == "v" and inner.get("isArrow"):
                    b = self.val(inner["inner"][0])
                    if b.kind == "vec":
                        return Val("vec", b.txt)        # a string object is its vector
                if inner["kind"] == "DeclRefExpr" and self.vars.get(inner["referencedDecl"]["name"]) == "nat":
                    return Val("out", lname(inner["referencedDecl"]["name"]))
                raise Unsupported("address-of")
            if op == "*":
                p = self.val(e["inner"][0], closed)
                if p.kind == "out":
                    return Val("nat", p.txt)
                raise Unsupported("load through a pointer")
            if op in ("++", "--"):
                return self.incdec(e["inner"][0], op, e.get("isPostfix", False))
            if op == "!":
                return Val("prop", "(¬ %s)" % self.as_prop(self.val(e["inner"][0], closed)))
            raise Unsupported("unary %s" % op)
        if k == "MemberExpr":
            obj, path = self.member_path(e)
            o = lname(obj)
            if path in ("count", "cap"):
                return Val("nat", "%s.%s" % (o, path))
            if path == "elem.size":
                return Val("nat", "%s.esz" % o)
            if path == "elem.base":
                return Val("ptr", "0", obj)
            if path == "elem.xtor.cons":
                return Val("fnptr", "(consPtr %s)" % o)
            if path == "elem.xtor.dest":
                return Val("fnptr", "(destPtr %s)" % o)
            if path == "elem.xtor.priv":
                return Val("opaque")
            raise Unsupported("field %s" % path)
        if k == "BinaryOperator":
            op = e["opcode"]
            if op in ("&&", "||"):
                a = self.as_prop(self.val(e["inner"][0], closed))
                n0 = len(self.pre)
                b = self.as_prop(self.val(e["inner"][1], closed))
                if len(self.pre) != n0:
                    raise Unsupported("side effect in the right operand of %s" % op)
                return Val("prop", "(%s %s %s)" % (a, "∧" if op == "&&" else "∨", b))
            a = self.val(e["inner"][0], closed)
            b = self.val(e["inner"][1], closed)
            if op in ("==", "!=", "<", ">", "<=", ">="):
                if a.kind in ("nat", "out") and b.kind in ("nat", "out"):
                    for x in e["inner"]:
                        if x.get("type", {}).get("qualType", "") not in U64:
                            raise Unsupported("comparison in type %s" % x.get("type", {}).get("qualType"))
                    lop = {"==": "=", "!=": "≠", "<=": "≤", ">=": "≥"}.get(op, op)
                    return Val("prop", "(%s %s %s)" % (a.txt, lop, b.txt))
                if b.kind == "null" and op in ("==", "!="):
                    if a.kind == "rres":
                        return Val("prop", "(RRes.isBlock %s = %s)" % (a.txt, "true" if op == "!=" else "false"))
                    if a.kind == "fnptr":
                        return Val("prop", "(%s %s FnPtr.null)" % (a.txt, "=" if op == "==" else "≠"))
                raise Unsupported("comparison of %s with %s" % (a.kind, b.kind))
            if op in ("+", "-", "*", "/", "%"):
                if a.kind in ("nat", "out") and b.kind in ("nat", "out"):
                    self.check_u64(e)
                    if op in ("/", "%"):
                        return Val("nat", "(%s %s %s)" % (a.txt, op, b.txt))
                    f = {"+": "addW", "-": "subW", "*": "mulW"}[op]
                    return Val("nat", "(%s %s %s)" % (f, atom(a.txt), atom(b.txt)))
                if op == "+" and a.kind == "ptr" and b.kind in ("nat", "out"):
                    if a.raw:
                        self.check_u64(e)
                        return Val("ptr", "(addW %s %s)" % (atom(a.txt), atom(b.txt)), a.obj, raw=True)
                    pt = e.get("type", {}).get("qualType", "")
                    if RE_CHARP.match(pt):
                        return Val("ptr", "(addW %s (mulW %s %s.esz))" % (atom(a.txt), atom(b.txt), lname(a.obj)), a.obj)
                    raise Unsupported("pointer arithmetic on %s" % pt)
            raise Unsupported("binary %s on %s, %s" % (op, a.kind, b.kind))
        if k == "CallExpr":
            return self.call(e, closed, want=True)
        raise Unsupported("expression kind %s" % k)

    # ---- calls
    def callee_name(self, e):
        c, _ = self.strip(e["inner"][0])
        if c["kind"] == "DeclRefExpr":
            return c["referencedDecl"]["name"], c["referencedDecl"]["kind"]
        raise Unsupported("indirect call")

    def call(self, e, closed, want):
        fn, dk = self.callee_name(e)
        args = e["inner"][1:]
        if dk in ("VarDecl", "ParmVarDecl"):
            if self.vars.get(fn) != "fnptr":
                raise Unsupported("call through %s" % fn)
            # xtor(__cstl_vector_at(v, i), priv): callback on slot i of v
            a0, _ = self.strip(args[0])
            if a0["kind"] != "CallExpr" or self.callee_name(a0)[0] != "__cstl_vector_at":
                raise Unsupported("callback argument")
            obj = self.val(a0["inner"][1])
            idx = self.as_nat(self.val(a0["inner"][2]))
            if obj.kind != "vec" or self.val(args[1]).kind != "opaque":
                raise Unsupported("callback argument")
            self.flag("stop", "emits")
            r = self.bind("callX %s %s %s" % (lname(fn), obj.txt, atom(idx)), "stop", closed)
            self.let(self.unl(obj.txt), "%s.1" % r)
            self.let("ev", "ev ++ %s.2" % r)
            return Val("opaque")
        if fn == "realloc":
            p = self.val(args[0])
            if p.kind != "ptr" or p.txt != "0":
                raise Unsupported("realloc of something other than elem.base")
            o = lname(p.obj)
            b = self.fresh("t")
            self.emit("let %s := %s" % (b, self.as_nat(self.val(args[1]))))
            self.flag("emits", "allocs")
            t = self.fresh("t")
            self.emit("let %s := reallocM ans newId %s.base %s" % (t, o, b))
            self.let("ev", "ev ++ [reallocEv %s %s %s]" % (o, b, t))
            return Val("rres", t, p.obj)
        if RE_STRFN.match(fn):
            o = self.val(args[0])
            if o.kind != "vec":
                raise Unsupported("str() of %s" % o.kind)
            return Val("chars", "(objChars %s)" % o.txt)
        if fn not in self.known:
            raise Unsupported("call to untranslated function %s" % fn)
        g = self.known[fn]
        vals = [self.val(a) for a in args]
        targs = []
        for (pn, pk), v in zip(g.params, vals):
            if pk == "vec":
                if v.kind != "vec":
                    raise Unsupported("object argument")
                targs.append(v.txt)
            elif pk == "nat":
                targs.append(atom(self.as_nat(v)))
            elif pk == "out":
                if v.kind != "out":
                    raise Unsupported("out argument")
                targs.append(v.txt)
            elif pk == "chars":
                if v.kind != "chars":
                    raise Unsupported("character array argument of kind %s" % v.kind)
                targs.append(atom(v.txt))
        gf = g.final["flags"]
        if gf["emits"]:
            self.flag("emits")
        if gf["allocs"]:
            self.flag("allocs")
        head = g.lean + (" fuel" if gf["fuel"] else "") + (" ans newId" if gf["allocs"] else "")
        txt = (head + " " + " ".join(targs)).strip()
        lay = g.layout()
        gk = g.kind()
        if gk == "pure" and [w for w, _ in lay] == ["ret"]:
            rv = "(%s)" % txt
        else:
            r = self.bind(txt, gk, closed)
            rv = None
            for i, (what, n) in enumerate(lay):
                pr = proj(r, i, len(lay))
                if what in ("vec", "out"):
                    idx = [pn for pn, _ in g.params].index(n)
                    self.let(self.unl(targs[idx]), pr)
                elif what == "ev":
                    self.let("ev", "ev ++ %s" % pr)
                else:
                    rv = pr
        if g.ret == "ptr":
            ro = self.unl(targs[g.final["ret_obj"]])
            return Val("ptr", rv, ro)
        if g.ret == "nat":
            return Val("nat", rv)
        return Val("opaque")

    @staticmethod
    def unl(s):
        return s.strip("«»")

    # ---- statements
    def stmts(self, lst, k):
        """k: continuation (-> lines) or None (closed: lets only)"""
        out = []
        for i, s in enumerate(lst):
            rest = lst[i + 1:]
            cont = (lambda rest=rest: self.stmts(rest, k)) if k is not None else None
            lines, done = self.stmt(s, cont)
            out += lines
            if done:
                return out
        return out + (k() if k is not None else [])

    def flush(self):
        p, self.pre = self.pre, []
        return p

    def branch(self, body, k, extra=1):
        self.ind += extra
        try:
            lst = body.get("inner", []) if body["kind"] == "CompoundStmt" else [body]
            return self.stmts(lst, k)
        finally:
            self.ind -= extra

    def stmt(self, s, k):
        closed = k is None
        kind = s["kind"]
        if kind in ("NullStmt",):
            return [], False
        if kind in ("ParenExpr", "CStyleCastExpr"):
            core = s
            while core["kind"] == "ParenExpr":
                core = core["inner"][0]
            if core["kind"] == "CStyleCastExpr" and core.get("castKind") == "ToVoid":
                return [], False            # assert() under NDEBUG, (void)x
            raise Unsupported("expression statement")
        if kind == "CompoundStmt":
            if closed:
                return self.stmts(s.get("inner", []), None), False
            return self.stmts(s.get("inner", []), k), True
        if kind == "DeclStmt":
            for v in s["inner"]:
                if v["kind"] != "VarDecl":
                    raise Unsupported("declaration")
                q = v["type"]["qualType"]
                n = v["name"]
                if q.startswith("struct ") and "*" not in q:
                    self.skip.add(n)        # scratch structure for cstl_swap
                    continue
                if "inner" not in v:
                    self.vars[n] = "nat" if q in U64 else None
                    continue
                x = self.val(v["inner"][0], closed)
                if x.kind == "opaque":
                    self.skip.add(n)
                    continue
                if "xtor_func_t" in q:
                    if x.kind == "null":
                        x = Val("fnptr", "FnPtr.null")
                    if x.kind != "fnptr":
                        raise Unsupported("initialiser of %s" % n)
                    self.vars[n] = "fnptr"
                elif q in U64:
                    self.vars[n] = "nat"
                    x = Val("nat", self.as_nat(x))
                elif x.kind == "rres":
                    self.vars[n] = "rres"
                    self.var_obj[n] = x.obj
                else:
                    raise Unsupported("local %s of type %s" % (n, q))
                self.let(n, x.txt)
            return self.flush(), False
        if kind == "BinaryOperator" and s["opcode"] == "=":
            lhs, _ = self.strip(s["inner"][0])
            if lhs["kind"] == "DeclRefExpr":
                n = lhs["referencedDecl"]["name"]
                if n not in self.vars:
                    raise Unsupported("assignment to %s" % n)
                x = self.val(s["inner"][1], closed)
                kd = self.vars[n]
                if kd is None and x.kind in ("rres", "fnptr"):
                    self.vars[n] = kd = x.kind
                if kd == "fnptr" and x.kind == "null":
                    x = Val("fnptr", "FnPtr.null")
                if kd == "nat":
                    x = Val("nat", self.as_nat(x))
                if kd != x.kind:
                    raise Unsupported("assignment of %s to %s" % (x.kind, n))
                if kd == "rres":
                    self.var_obj[n] = x.obj
                self.let(n, x.txt)
                return self.flush(), False
            if lhs["kind"] == "UnaryOperator" and lhs["opcode"] == "*":
                p = self.val(lhs["inner"][0], closed)
                if p.kind == "out":
                    x = self.as_nat(self.val(s["inner"][1], closed))
                    self.let(self.unl(p.txt), x)
                    return self.flush(), False
                if p.kind == "ptr":
                    x = self.as_nat(self.val(s["inner"][1], closed))
                    r = self.bind("storeOff %s %s %s" % (lname(p.obj), atom(p.txt), atom(x)), "stop", closed)
                    self.let(p.obj, r)
                    return self.flush(), False
                raise Unsupported("store through %s" % p.kind)
            if lhs["kind"] == "MemberExpr":
                obj, path = self.member_path(lhs)
                o = lname(obj)
                x = self.val(s["inner"][1], closed)
                if path == "count":
                    self.let(obj, "setCount %s %s" % (o, atom(self.as_nat(x))))
                elif path == "cap":
                    self.let(obj, "{ %s with cap := %s }" % (o, self.as_nat(x)))
                elif path == "elem.base" and x.kind == "rres" and x.obj == obj:
                    self.let(obj, "setBase %s %s" % (o, x.txt))
                elif path == "elem.base" and x.kind == "null":
                    self.let(obj, "clearBase %s" % o)
                else:
                    raise Unsupported("assignment to field %s" % path)
                return self.flush(), False
            raise Unsupported("assignment target")
        if kind == "UnaryOperator" and s["opcode"] in ("++", "--"):
            self.incdec(s["inner"][0], s["opcode"], False)
            return self.flush(), False
        if kind == "CallExpr":
            fn, dk = self.callee_name(s)
            args = s["inner"][1:]
            if fn == "abort":
                if closed:
                    raise NotSimple()
                self.flag("stop")
                return self.flush() + [self.pad() + self.abort_txt()], True
            if fn == "free":
                p = self.val(args[0])
                if p.kind != "ptr" or p.txt != "0":
                    raise Unsupported("free of something other than elem.base")
                self.flag("emits")
                self.let("ev", "ev ++ freeEv %s" % lname(p.obj))
                return self.flush(), False
            if fn in ("memmove", "memcpy"):
                d = self.val(args[0], closed)
                sr = self.val(args[1], closed)
                nb = atom(self.as_nat(self.val(args[2], closed)))
                if d.kind != "ptr":
                    raise Unsupported("%s destination" % fn)
                if sr.kind == "ptr" and sr.obj == d.obj:
                    if fn != "memmove":
                        raise Unsupported("memcpy inside one object")
                    r = self.bind("moveOff %s %s %s %s" % (lname(d.obj), atom(d.txt), atom(sr.txt), nb), "stop", closed)
                    self.let(d.obj, r)
                elif sr.kind == "ptr":
                    r0 = self.bind("readOff %s %s %s" % (lname(sr.obj), atom(sr.txt), nb), "stop", closed)
                    r = self.bind("writeOff %s %s %s %s" % (lname(d.obj), atom(d.txt), r0, nb), "stop", closed)
                    self.let(d.obj, r)
                elif sr.kind == "chars":
                    r = self.bind("writeOff %s %s %s %s" % (lname(d.obj), atom(d.txt), atom(sr.txt), nb), "stop", closed)
                    self.let(d.obj, r)
                else:
                    raise Unsupported("%s source" % fn)
                return self.flush(), False
            if fn == "cstl_swap":
                a, b = self.val(args[0]), self.val(args[1])
                if a.kind == "vec" and b.kind == "vec":
                    t = self.fresh("t")
                    self.emit("let %s := %s" % (t, a.txt))
                    self.let(self.unl(a.txt), b.txt)
                    self.let(self.unl(b.txt), t)
                    return self.flush(), False
                raise Unsupported("cstl_swap arguments")
            self.call(s, closed, want=False)
            return self.flush(), False
        if kind == "ReturnStmt":
            if closed or self.in_loop:
                if self.in_loop:
                    raise Unsupported("return inside a loop")
                raise NotSimple()
            rv = None
            if s.get("inner"):
                x = self.val(s["inner"][0])
                if self.ret == "ptr":
                    if x.kind != "ptr":
                        raise Unsupported("returned pointer")
                    if x.obj not in [n for n, _ in self.params]:
                        raise Unsupported("returned pointer into a local object")
                    self.ret_obj = [n for n, _ in self.params].index(x.obj)
                    rv = x.txt
                else:
                    rv = self.as_nat(x)
            return self.flush() + [self.pad() + self.result(rv)], True
        if kind == "IfStmt":
            return self.if_stmt(s, k)
        if kind == "DoStmt":
            c, _ = self.strip(s["inner"][1])
            if c["kind"] == "IntegerLiteral" and c["value"] == "0":
                b = s["inner"][0]
                return self.stmt(b if b["kind"] == "CompoundStmt" else {"kind": "CompoundStmt", "inner": [b]}, k)
            return self.loop(s, s["inner"][1], s["inner"][0], True, k)
        if kind == "WhileStmt":
            return self.loop(s, s["inner"][0], s["inner"][1], False, k)
        raise Unsupported("statement kind %s" % kind)

    def snapshot(self):
        return (dict(self.vars), set(self.skip), self.tmp, set(self.assigned), list(self.pre), dict(self.found),
                set(self.written), self.nloops, list(self.loops_txt), self.ret_obj)

    def restore(self, sn):
        (self.vars, self.skip, self.tmp, self.assigned, self.pre, self.found, self.written, self.nloops,
         self.loops_txt, self.ret_obj) = (dict(sn[0]), set(sn[1]), sn[2], set(sn[3]), list(sn[4]), dict(sn[5]),
                                          set(sn[6]), sn[7], list(sn[8]), sn[9])

    def if_stmt(self, s, k):
        cond = self.as_prop(self.val(s["inner"][0], k is None))
        head = self.flush()
        then = s["inner"][1]
        els = s["inner"][2] if len(s["inner"]) > 2 else None
        # 1. let-form: both branches consist of plain assignments
        sn = self.snapshot()
        try:
            a0 = self.assigned
            self.assigned = set()
            tl = self.branch(then, None, 2)
            el = self.branch(els, None, 2) if els is not None else []
            asg = [n for n in list(self.vars) + ["ev"] if n in self.assigned]
            self.assigned = a0 | self.assigned
            if not asg:
                return head, False
            tup = lname(asg[0]) if len(asg) == 1 else "(" + ", ".join(lname(a) for a in asg) + ")"
            p = self.pad()
            lines = head + [p + "let %s := if %s then (" % (tup, cond)] + tl + [p + "    %s)" % tup, p + "  else ("] \
                + el + [p + "    %s)" % tup]
            return lines, False
        except NotSimple:
            self.restore(sn)
            if k is None:
                raise
        # 2. the rest of the function continues in both branches
        p = self.pad()
        lines = head + [p + "if %s then" % cond]
        sn2 = (dict(self.vars), set(self.skip))
        lines += self.branch(then, k)
        self.vars, self.skip = dict(sn2[0]), set(sn2[1])
        lines.append(p + "else")
        if els is not None:
            lines += self.branch(els, k)
        else:
            self.ind += 1
            lines += k()
            self.ind -= 1
        self.vars, self.skip = dict(sn2[0]), set(sn2[1])
        return lines, True

    def loop(self, s, cond, body, is_do, k):
        if k is None:
            raise NotSimple()
        self.flag("fuel")
        self.nloops += 1
        lp = "%s_loop%d" % (self.lean, self.nloops)
        scope = dict(self.vars)
        blist = body["inner"] if body["kind"] == "CompoundStmt" else [body]

        def gen(state, rec_line):
            """lines of the `fuel + 1` case (indent 2)"""
            old_ind = self.ind
            self.ind = 2
            self.in_loop += 1
            try:
                tup = lname(state[0]) if len(state) == 1 else "(" + ", ".join(lname(x) for x in state) + ")" if state else "()"
                done = "some (.ok %s)" % atom(tup)

                def tail():
                    c = self.as_prop(self.val(cond))
                    ls = self.flush()
                    return ls + [self.pad() + "if %s then" % c, self.pad() + "  " + rec_line, self.pad() + "else " + done]
                if is_do:
                    return self.stmts(blist, tail)
                c = self.as_prop(self.val(cond))
                ls = self.flush()
                ls.append(self.pad() + "if %s then" % c)
                self.ind += 1
                ls += self.stmts(blist, lambda: [self.pad() + rec_line])
                self.ind -= 1
                ls.append(self.pad() + "else " + done)
                return ls
            finally:
                self.in_loop -= 1
                self.ind = old_ind

        # discovery: which variables does one iteration assign?
        sn = self.snapshot()
        self.assigned = set()
        gen(["_"], "_")
        asg = self.assigned
        self.restore(sn)
        state = [n for n in list(scope) + ["ev"] if n in asg and (n == "ev" or scope.get(n))]
        a0 = set(self.assigned)
        body_lines = gen(state, "%s __CONSTS__ fuel %s" % (lp, " ".join(lname(x) for x in state)))
        self.assigned = a0 | set(state)
        for n in state:
            if self.vars.get(n) == "vec":
                self.written.add(n)
        text = "\n".join(body_lines)
        toks = set(re.findall(r"[A-Za-z_][A-Za-z0-9_]*", text))
        consts = [n for n in list(scope) + ["ev", "ans", "newId", "cw"]
                  if n in toks and n not in state and (n in ("ev", "ans", "newId", "cw") or scope.get(n))]
        cargs = " ".join(lname(c) for c in consts)

        def ty(n):
            if n in ("ev", "ans"):
                return LEAN_TY[n]
            if n in ("newId", "cw"):
                return "Nat"
            return LEAN_TY[scope[n]]
        sty = [ty(n) for n in state]
        hdr = "def %s %s: Nat → %s → Option (Except Stop (%s))" % (
            lp, "".join("(%s : %s) " % (lname(c), ty(c)) for c in consts), " → ".join(sty), " × ".join(sty))
        pat = ", ".join(lname(x) for x in state)
        d = [hdr, "  | 0, %s => none" % pat, "  | fuel + 1, %s =>" % pat] + [l.replace(" __CONSTS__", (" " + cargs) if cargs else "") for l in body_lines]
        self.loops_txt.append("\n".join(d) + "\n")
        # call site
        r = self.bind(("%s %s fuel %s" % (lp, cargs, " ".join(lname(x) for x in state))).replace("  ", " "), "fuel", False)
        for i, n in enumerate(state):
            self.let(n, proj(r, i, len(state)))
        return self.flush(), False

    # ---- whole function
    def run(self):
        self.reset()
        self.ind = 1
        lines = self.stmts(self.body.get("inner", []), lambda: [self.pad() + self.result(None if self.ret is None else "0")])
        return lines

    def render(self):
        self.final = None
        self.run()
        for _ in range(3):          # flags found with the final layout must be stable
            fin = {"flags": dict(self.found), "written": set(self.written), "ret_obj": self.ret_obj}
            if self.ret == "ptr" and self.ret_obj is None:
                raise Unsupported("pointer result without an object")
            stable = self.final is not None and fin == self.final
            self.final = fin
            lines = self.run()
            if stable:
                break
        fl = self.final["flags"]
        ps = []
        if fl["fuel"]:
            ps.append("(fuel : Nat)")
        if fl["allocs"]:
            ps.append("(ans : Nat → Bool) (newId : Nat)")
        for n, kd in self.params:
            ps.append("(%s : %s)" % (lname(n), LEAN_TY[kd]))
        tys = []
        for what, n in self.layout():
            tys.append({"vec": "Vector", "ev": "List Ev", "out": "Nat", "ret": "Nat"}[what])
        T = " × ".join(tys) if tys else "Unit"
        k = self.kind()
        rty = T if k == "pure" else ("Except Stop (%s)" % T if k == "stop" else "Option (Except Stop (%s))" % T)
        pro = []
        if fl["emits"]:
            pro.append("  let ev : List Ev := []")
        if fl["cw"]:
            pro.append("  let cw := %s.esz" % lname(self.first_vec()))
        return "".join(t + "\n" for t in self.loops_txt) + "def %s %s : %s :=\n%s\n" % (
            self.lean, " ".join(ps), rty, "\n".join(pro + lines))


VECTOR_FNS = ["cstl_vector_size", "cstl_vector_capacity", "cstl_vector_data", "__cstl_vector_at",
              "cstl_vector_at_const", "cstl_vector_at", "cstl_vector_set_capacity", "cstl_vector_reserve",
              "cstl_vector_shrink_to_fit", "cstl_vector_resize", "cstl_vector_clear", "cstl_vector_swap",
              "__cstl_vector_sort", "cstl_vector_search", "cstl_vector_find", "__cstl_vector_reverse"]
STRING_FNS = ["size", "capacity", "reserve", "data", "__at", "at", "at_const", "str", "__resize", "resize",
              "prep_insert", "insert_ch", "insert_str_n", "substr_prep", "substr", "erase", "clear", "swap",
              "insert", "append", "append_ch", "append_str_n", "insert_str", "append_str", "set_str",
              "find_ch", "find_str", "find", "compare_str", "compare"]
MODULE = "VecC"


def translate_vec(repo):
    known, report, chunks = {}, {}, []

    def do(names, fns, gvars, title):
        chunks.append("/-! ### %s -/\n" % title)
        for name in names:
            if name not in fns:
                report[name] = "not found in source"
                continue
            try:
                f = VFn(fns[name], known, gvars)
                txt = f.render()
                known[name] = f
                chunks.append(txt)
                fl = f.final["flags"]
                report[name] = "translated (%s%s)" % (f.kind(), ", %d loop(s)" % len(f.loops_txt) if f.loops_txt else "")
            except Unsupported as e:
                report[name] = "not translated: %s" % e
            except NotSimple:
                report[name] = "not translated: control flow"

    vf, vg = parse_tu(repo, "vector.c")
    do(VECTOR_FNS, vf, vg, "src/vector.c (+ the inline functions of include/cstl/vector.h)")
    sf, sg = parse_tu(repo, "string.c")
    for pfx, what in (("cstl_string", "narrow"), ("cstl_wstring", "wide")):
        do(["%s_%s" % (pfx, n) for n in STRING_FNS], sf, sg,
           "src/_string.c + include/cstl/_string.h as instantiated by src/string.c: %s (`%s`)" % (what, pfx))
    # sanity of the sizeof convention: cstl_STRING_init passes sizeof(char_t) as the element size
    for pfx in ("cstl_string", "cstl_wstring"):
        d = sf.get(pfx + "_init")
        ok = False
        if d is not None:
            txt = json.dumps(d)
            ok = '"cstl_vector_init"' in txt and '"UnaryExprOrTypeTraitExpr"' in txt and ('"%s_char_t"' % pfx) in txt
        report[pfx + "_init"] = ("not translated; elem.size = sizeof(%s_char_t): %s" % (pfx, "confirmed" if ok else "NOT FOUND"))
    out = ("-- GENERATED by tools/c2lean_vec.py from /repo's src/vector.c and src/string.c (+ src/_string.c,\n"
           "-- include/cstl/vector.h, include/cstl/_string.h) on every check run; do not edit.\n"
           "import Cstl.Vec.CSem\nset_option linter.unusedVariables false\nnamespace Cstl.Gen.%s\nopen Cstl.Vec\n\n" % MODULE
           + "\n".join(chunks) + "\nend Cstl.Gen.%s\n" % MODULE)
    return out, report


c2lean.AREAS["vec"] = dict(src="vector.c, string.c, _string.c", module=MODULE, custom=translate_vec,
                           header="import Cstl.Vec.CSem\n")


if __name__ == "__main__":
    repo = sys.argv[1] if len(sys.argv) > 1 else os.environ.get("VERIF_REPO", "/repo")
    txt, rep = translate_vec(repo)
    sys.stdout.write(txt)
    for k, v in rep.items():
        sys.stderr.write("%s: %s\n" % (k, v))
