#!/usr/bin/env python3
"""
Translator, second part for the tree code: the pointer-manipulating functions
of src/bintree.c and src/rbtree.c that tools/c2lean.py (class TreeFn: loop-free
symbolic execution) does not reach  ->  Lean 4, module Cstl.Gen.TreeLC2.

Reads the typed clang AST of /repo's *current* source and emits definitions in
the vocabulary of lean/Cstl/TreeL/Model.lean (`TM`, `Hd`, `setP/setLf/setRt/
setC`, `chL/chR/setChL/setChR`, `Loc`/`rdLoc`, `Color`).  The fixed theorems of
lean/Cstl/TreeL/Tie2.lean (`model = some r -> translation = some r`, loops by
induction on the fuel) are re-checked by the kernel against the regenerated
definitions on every run (tools/areas/treel_tie.py).

What is added over TreeFn
  * calls are followed: a call to an already translated function becomes an
    application of its translation (pure callee: projections of the result;
    callee with loops: `match … with | none => none | some (…) => …`);
  * child-selector function pointers: a `(l, r)` parameter pair or a single
    `ch` parameter is one `d : Bool` (`*l(a)` = `chL m d a`, `*r(a)` = `chR m d
    a`); at a call site `__cstl_bintree_left` = `true`, `__cstl_bintree_right` =
    `false`, the caller's `l` = `d`, `r` = `!d`; the two inline selector
    functions of bintree.h are checked to return `&n->l` / `&n->r`;
  * colours: `*BN_COLOR(a)` / `n->c` = `m.cl a` / `setC m a c`;
  * `struct cstl_rbtree *t`: `&t->t` is the header, `&n->n` is the node `n`;
  * `struct cstl_bintree_node **` variables are `Loc` values (`&bt->root`,
    `&bp`, `&a->l`, `&a->r`), `*bc` is `rdLoc`, a store through `*bc` is a match
    on the location;
  * loops (`while`, with `break`, with an assignment in the condition): one
    fuelled recursive function per loop over exactly the variables the loop
    assigns; every loop and every call of a function with loops has its own
    fuel parameter;
  * the comparison `__cstl_bintree_cmp(bt, a, b)` is `cmp a b` for a parameter
    `cmp : Nat → Nat → Int` on node addresses;
  * a stack-local node (`struct cstl_rbtree_node _x`) is a parameter `adr_x`
    (its address); an out parameter `const void **par` is a parameter
    `par_cell` (content before) and an additional result (content after);
  * a visit callback with a result (`__cstl_bintree_foreach`) is a parameter
    `visit : σ → TM → Nat → Nat → σ × TM × Int` threading an abstract client state.

Dereferences are total (reading through NULL reads address 0), exactly as in
TreeLC: the hand-written model stops (`none`) at those points instead and the
tie theorems say that wherever the model does not stop it is the translation.
"""
import os
import re
import sys

sys.path.insert(0, os.path.dirname(os.path.abspath(__file__)))
from c2lean import TreeFn, Unsupported, clang_ast   # noqa: E402

MODULE = "TreeLC2"

IDENT_FNS = ("__cstl_bintree_node", "__cstl_bintree_element", "cstl_bintree_element", "__cstl_rbtree_node")
SELECTORS = {"__cstl_bintree_left": ("l", "true"), "__cstl_bintree_right": ("r", "false")}
COLOURS = {"CSTL_RBTREE_COLOR_R": "Color.red", "CSTL_RBTREE_COLOR_B": "Color.black"}
ORDERS = {"CSTL_BINTREE_VISIT_ORDER_PRE": "0", "CSTL_BINTREE_VISIT_ORDER_MID": "1",
          "CSTL_BINTREE_VISIT_ORDER_POST": "2", "CSTL_BINTREE_VISIT_ORDER_LEAF": "3"}
RESERVED = {"m", "d", "cmp", "fuel", "visit_st", "some", "none", "if", "then", "else", "let", "match", "with",
            "fun", "at", "from", "in", "do", "end", "open", "by", "have", "show"}


class Block:
    """a list of lets [(name, value, type|None)] (value: text or Block) and a tail:
    ('res', text) | ('if', cond, Block, Block) | ('match', scrutinee text, pattern, Block)"""

    def __init__(self, lets, tail):
        self.lets = lets
        self.tail = tail


def toks(s):
    return set(re.findall(r"[A-Za-z_][A-Za-z0-9_]*", s))


def block_toks(b):
    out = set()
    for (n, v, t) in b.lets:
        out |= block_toks(v) if isinstance(v, Block) else toks(v)
    k = b.tail[0]
    if k == "res":
        out |= toks(b.tail[1])
    elif k == "if":
        out |= toks(b.tail[1]) | block_toks(b.tail[2]) | block_toks(b.tail[3])
    else:
        out |= toks(b.tail[1]) | block_toks(b.tail[3])
    return out


def prune(b):
    """drop lets nothing below them mentions (names are unique per definition)"""
    k = b.tail[0]
    if k == "if":
        prune(b.tail[2])
        prune(b.tail[3])
        need = toks(b.tail[1]) | block_toks(b.tail[2]) | block_toks(b.tail[3])
    elif k == "match":
        prune(b.tail[3])
        need = toks(b.tail[1]) | block_toks(b.tail[3])
    else:
        need = toks(b.tail[1])
    keep = []
    for (n, v, t) in reversed(b.lets):
        if n in need:
            if isinstance(v, Block):
                prune(v)
                need |= block_toks(v)
            else:
                need |= toks(v)
            keep.append((n, v, t))
    keep.reverse()
    b.lets = keep


def render_block(b, ind):
    pad = "  " * ind
    out = []
    for (n, v, t) in b.lets:
        ty = " : %s" % t if t else ""
        if isinstance(v, Block):
            out.append("%slet %s%s :=" % (pad, n, ty))
            out += render_block(v, ind + 1)
        else:
            out.append("%slet %s%s := %s" % (pad, n, ty, v))
    k = b.tail[0]
    if k == "res":
        out.append(pad + b.tail[1])
    elif k == "if":
        out.append("%sif %s then" % (pad, b.tail[1]))
        out += render_block(b.tail[2], ind + 1)
        out.append(pad + "else")
        out += render_block(b.tail[3], ind + 1)
    else:
        out.append("%smatch %s with" % (pad, b.tail[1]))
        out.append(pad + "| none => none")
        out.append("%s| some %s =>" % (pad, b.tail[2]))
        out += render_block(b.tail[3], ind + 1)
    return out


def tup(xs):
    return "(" + ", ".join(xs) + ")" if len(xs) != 1 else xs[0]


class TreeFn2(TreeFn):
    def __init__(self, decl, known):
        self.decl = decl
        self.known = known
        self.name = decl["name"]
        self.params = [p for p in decl["inner"] if p["kind"] == "ParmVarDecl"]
        self.body = [c for c in decl["inner"] if c["kind"] == "CompoundStmt"][0]
        self.hdr = None
        self.hdr_wrapped = False        # `struct cstl_rbtree *t`: the bintree header is `t->t`
        self.vals = []
        self.childfns = []
        self.cells = []                 # out parameters `void **`
        self.visit = None               # visit callback parameter (with its priv)
        self.vtype = {}
        skip = set()
        for p in self.params:
            t = p["type"]["qualType"]
            n = p["name"]
            if "struct cstl_bintree *" in t:
                self.hdr = n
            elif "struct cstl_rbtree *" in t:
                self.hdr = n
                self.hdr_wrapped = True
            elif "child_func_t" in t:
                self.childfns.append(n)
            elif "(*" in t and "cstl_bintree_visit_order_t" in t:
                self.visit = n
            elif re.search(r"void \*\*", t):
                self.cells.append(n)
                self.vals.append(n)
                self.vtype[n] = "Nat"
            else:
                self.vals.append(n)
                self.vtype[n] = self.lean_type(t)
        if self.visit:
            # the `void *priv` handed to the callback travels with it
            for p in self.params:
                if p["name"] == "priv":
                    skip.add("priv")
            self.vals = [v for v in self.vals if v not in skip]
        if self.childfns not in ([], ["l", "r"]) and len(self.childfns) != 1:
            raise Unsupported("child function parameters other than (l, r) or a single one")
        for v in self.vals + ([self.hdr] if self.hdr else []):
            if v in RESERVED:
                raise Unsupported("parameter name %s clashes with the translation's vocabulary" % v)
        self.counter = {}
        rt = decl["type"]["qualType"].split("(")[0].strip()
        self.ret = rt != "void"
        self.ret_type = self.lean_type(rt) if self.ret else None
        self.uses_cmp = False
        self.adrs = []                  # addresses of stack-local nodes: extra parameters
        self.nfuel = 0
        self.fuel_of = {}               # AST node id -> first fuel index
        self.loops = {}                 # AST node id -> loop info
        self.prelude = []
        self.pending = []
        self.bpvar = self.find_bpvar(self.body)
        self.loopy = self.effectful(self.body)
        self.self_rec = self.calls_self(self.body)
        if self.self_rec:
            self.loopy = True

    # ---------------------------------------------------------------- types and static scans
    @staticmethod
    def lean_type(t):
        t = t.replace("const", "").strip()
        if "cstl_bintree_node **" in t:
            return "Loc"
        if "cstl_rbtree_color_t" in t and "*" not in t:
            return "Color"
        if t in ("int",):
            return "Int"
        return "Nat"

    def walk(self, n):
        if isinstance(n, dict):
            yield n
            for c in n.get("inner", []):
                for x in self.walk(c):
                    yield x

    def find_bpvar(self, body):
        """the local node pointer whose address is taken (`bc = &bp`)"""
        found = None
        for n in self.walk(body):
            if n.get("kind") == "UnaryOperator" and n.get("opcode") == "&":
                i = self.strip(n["inner"][0])
                if i["kind"] == "DeclRefExpr" and i["referencedDecl"]["kind"] == "VarDecl" \
                        and "cstl_bintree_node *" in i["type"]["qualType"] and "**" not in i["type"]["qualType"]:
                    if found not in (None, i["referencedDecl"]["name"]):
                        raise Unsupported("address of more than one local pointer")
                    found = i["referencedDecl"]["name"]
        return found

    def callee_name(self, e):
        e = self.strip_void(e)
        if e.get("kind") != "CallExpr":
            return None
        f = self.strip(e["inner"][0])
        if f["kind"] == "DeclRefExpr" and f["referencedDecl"]["kind"] == "FunctionDecl":
            return f["referencedDecl"]["name"]
        return None

    def strip_void(self, e):
        while isinstance(e, dict) and e.get("kind") in ("ImplicitCastExpr", "ParenExpr", "CStyleCastExpr", "ConstantExpr"):
            if e.get("castKind") == "NullToPointer":
                return {"kind": "NULL"}
            e = e["inner"][0]
        return e

    def calls_self(self, n):
        return any(x.get("kind") == "CallExpr" and self.callee_name(x) == self.name for x in self.walk(n))

    def effectful(self, n):
        """contains a loop or a call of a translated function that has loops"""
        for x in self.walk(n):
            k = x.get("kind")
            if k in ("WhileStmt", "ForStmt"):
                return True
            if k == "DoStmt":
                c = self.strip(x["inner"][1])
                if not (c["kind"] == "IntegerLiteral" and c["value"] == "0"):
                    return True
            if k == "CallExpr":
                cn = self.callee_name(x)
                if cn == self.name or (cn in self.known and self.known[cn].loopy):
                    return True
        return False

    def escapes(self, n, in_loop=False):
        """contains a return, or a break/continue that belongs to an enclosing loop"""
        if not isinstance(n, dict):
            return False
        k = n.get("kind")
        if k == "ReturnStmt":
            return True
        if k in ("BreakStmt", "ContinueStmt"):
            return not in_loop
        if k in ("WhileStmt", "ForStmt", "DoStmt"):
            return any(self.escapes(c, True) for c in n.get("inner", []))
        return any(self.escapes(c, in_loop) for c in n.get("inner", []))

    # ---------------------------------------------------------------- expressions
    def take(self):
        p = self.pending
        self.pending = []
        return p

    def is_local_struct(self, e):
        e = self.strip(e)
        return e["kind"] == "DeclRefExpr" and e["referencedDecl"]["kind"] == "VarDecl" \
            and re.match(r"^(const )?struct cstl_(rbtree|bintree)_node$", e["type"]["qualType"].strip()) is not None

    def hdr_ref(self, e):
        """does `e` denote the tree header this function works on (`bt`, `&t->t`)"""
        e = self.strip(e)
        if not self.hdr_wrapped:
            return e["kind"] == "DeclRefExpr" and e["referencedDecl"]["name"] == self.hdr
        if e["kind"] == "UnaryOperator" and e["opcode"] == "&":
            i = self.strip(e["inner"][0])
            if i["kind"] == "MemberExpr" and i["name"] == "t" and i.get("isArrow"):
                b = self.strip(i["inner"][0])
                return b["kind"] == "DeclRefExpr" and b["referencedDecl"]["name"] == self.hdr
        return False

    def rb_ref(self, e):
        e = self.strip(e)
        return self.hdr_wrapped and e["kind"] == "DeclRefExpr" and e["referencedDecl"]["name"] == self.hdr

    def hdr_field(self, e):
        e = self.strip(e)
        if e["kind"] != "MemberExpr" or e["name"] not in self.HDR_FIELDS or self.hdr is None:
            return None
        base = self.strip(e["inner"][0])
        if e.get("isArrow"):
            if not self.hdr_wrapped and base["kind"] == "DeclRefExpr" and base["referencedDecl"]["name"] == self.hdr:
                return e["name"]
            return None
        if self.hdr_wrapped and base["kind"] == "MemberExpr" and base["name"] == "t" and base.get("isArrow"):
            b2 = self.strip(base["inner"][0])
            if b2["kind"] == "DeclRefExpr" and b2["referencedDecl"]["name"] == self.hdr:
                return e["name"]
        return None

    def child_call(self, e):
        e = self.strip(e)
        if e["kind"] == "UnaryOperator" and e["opcode"] == "*":
            c = self.strip(e["inner"][0])
            if c["kind"] == "CallExpr":
                f = self.strip(c["inner"][0])
                if f["kind"] == "DeclRefExpr" and f["referencedDecl"]["name"] in self.childfns:
                    n = f["referencedDecl"]["name"]
                    side = "l" if (len(self.childfns) == 1 or n == "l") else "r"
                    return side, c["inner"][1]
        return None

    def colour_ref(self, e, env):
        """`*BN_COLOR(a)`, `n->c`, `_x.c`: the address whose colour is meant, or None"""
        e = self.strip(e)
        if e["kind"] == "UnaryOperator" and e["opcode"] == "*":
            c = self.strip(e["inner"][0])
            if c["kind"] == "CallExpr" and self.callee_name(c) == "BN_COLOR":
                return self.atom(self.expr(c["inner"][1], env))
        if e["kind"] == "MemberExpr" and e["name"] == "c":
            if e.get("isArrow") and "cstl_rbtree_node" in self.strip(e["inner"][0]).get("type", {}).get("qualType", ""):
                return self.atom(self.expr(e["inner"][0], env))
            if not e.get("isArrow") and self.is_local_struct(e["inner"][0]):
                return self.adr(self.strip(e["inner"][0])["referencedDecl"]["name"])
        return None

    def adr(self, var):
        n = "adr" + (var if var.startswith("_") else "_" + var)
        if n not in self.adrs:
            self.adrs.append(n)
        return n

    def node_addr(self, e, env):
        """address of an lvalue of type struct cstl_bintree_node / cstl_rbtree_node"""
        e = self.strip(e)
        if e["kind"] == "UnaryOperator" and e["opcode"] == "*":
            return self.atom(self.expr(e["inner"][0], env))
        if e["kind"] == "MemberExpr" and e["name"] == "n":
            if e.get("isArrow"):
                # `n->n`: the bintree node is the first member of the rbtree node
                return self.atom(self.expr(e["inner"][0], env))
            return self.node_addr(e["inner"][0], env)
        if self.is_local_struct(e):
            nm = e["referencedDecl"]["name"]
            if (nm + ".p") in env:
                raise Unsupported("address of a saved node structure")
            return self.adr(nm)
        raise Unsupported("node lvalue")

    def loc_of(self, e, env):
        """`&bt->root`, `&bp`, `&a->l`, `&a->r` as a `Loc`"""
        i = self.strip(e)
        if i["kind"] == "MemberExpr" and self.hdr_field(i) == "root":
            return "Loc.root"
        if i["kind"] == "DeclRefExpr" and i["referencedDecl"]["name"] == self.bpvar:
            return "Loc.bp"
        if i["kind"] == "MemberExpr" and i["name"] in ("l", "r"):
            a = self.atom(self.expr(i["inner"][0], env)) if i.get("isArrow") else self.node_addr(i["inner"][0], env)
            return "(Loc.%s %s)" % ("lf" if i["name"] == "l" else "rt", a)
        raise Unsupported("address-of")

    def is_loc_var(self, e):
        e = self.strip(e)
        return e["kind"] == "DeclRefExpr" and self.vtype.get(e["referencedDecl"]["name"]) == "Loc"

    def selector(self, e):
        """a child-function argument at a call site: 'true' (left), 'false' (right), 'd', '(!d)'"""
        e = self.strip(e)
        if e["kind"] != "DeclRefExpr":
            raise Unsupported("child function argument")
        n = e["referencedDecl"]["name"]
        if n in SELECTORS:
            return SELECTORS[n][1]
        if n in self.childfns:
            return "d" if (len(self.childfns) == 1 or n == "l") else "(!d)"
        raise Unsupported("child function argument %s" % n)

    @staticmethod
    def neg_sel(s):
        return {"true": "false", "false": "true", "d": "(!d)", "(!d)": "d"}[s]

    def expr(self, e, env):
        e = self.strip(e)
        k = e["kind"]
        if k == "NULL":
            return "0"
        if k == "IntegerLiteral":
            return e["value"]
        cc = self.child_call(e)
        if cc:
            return "(%s %s d %s)" % ("chL" if cc[0] == "l" else "chR", env["m"], self.atom(self.expr(cc[1], env)))
        col = self.colour_ref(e, env)
        if col:
            return "(%s.cl %s)" % (env["m"], col)
        if k == "DeclRefExpr":
            n = e["referencedDecl"]["name"]
            if e["referencedDecl"]["kind"] == "EnumConstantDecl":
                if n in COLOURS:
                    return COLOURS[n]
                if n in ORDERS:
                    return ORDERS[n]
                raise Unsupported("enum constant %s" % n)
            if n not in env:
                raise Unsupported("reference to %s" % n)
            return env[n]
        if k == "MemberExpr" and self.hdr_field(e):
            return "%s.%s" % (env[self.hdr], self.hdr_field(e))
        if k == "MemberExpr" and e["name"] in self.NODE_FIELDS:
            base = self.strip(e["inner"][0])
            f = e["name"]
            if e.get("isArrow"):
                if base["kind"] == "DeclRefExpr" and base["referencedDecl"]["name"] == self.hdr:
                    raise Unsupported("header field %s" % f)
                return "(%s.%s %s)" % (env["m"], self.NODE_FIELDS[f][0], self.atom(self.expr(base, env)))
            if self.is_local_struct(base) and (base["referencedDecl"]["name"] + "." + f) in env:
                return env[base["referencedDecl"]["name"] + "." + f]
            return "(%s.%s %s)" % (env["m"], self.NODE_FIELDS[f][0], self.node_addr(base, env))
        if k == "UnaryOperator" and e["opcode"] == "&":
            i = self.strip(e["inner"][0])
            t = e.get("type", {}).get("qualType", "")
            if "cstl_bintree_node **" in t:
                return self.loc_of(i, env)
            return self.node_addr(i, env)
        if k == "UnaryOperator" and e["opcode"] == "*":
            if self.is_loc_var(e["inner"][0]):
                bc = env[self.strip(e["inner"][0])["referencedDecl"]["name"]]
                bp = env.get(self.bpvar, "0") if self.bpvar else "0"
                return "(rdLoc %s %s %s %s)" % (env["m"], env[self.hdr], bp, bc)
            i = self.strip(e["inner"][0])
            if i["kind"] == "DeclRefExpr" and i["referencedDecl"]["name"] in self.cells:
                return env["*" + i["referencedDecl"]["name"]]
            raise Unsupported("dereference")
        if k == "UnaryOperator" and e["opcode"] == "!":
            return "(¬ %s)" % self.cond(e["inner"][0], env)
        if k == "BinaryOperator":
            op = e["opcode"]
            a, b = e["inner"]
            if op == "=":
                lets = []
                self.assign(a, b, env, lets)
                self.pending += lets
                return self.expr(a, env)
            if op in ("==", "!=", "<", ">", "<=", ">="):
                lop = {"==": "=", "!=": "≠", "<=": "≤", ">=": "≥"}.get(op, op)
                return "(%s %s %s)" % (self.expr(a, env), lop, self.expr(b, env))
            if op in ("&&", "||"):
                l = self.cond(a, env)
                np = len(self.pending)
                r = self.cond(b, env)
                if len(self.pending) != np:
                    raise Unsupported("assignment in the right operand of %s" % op)
                return "(%s %s %s)" % (l, "∧" if op == "&&" else "∨", r)
        if k == "CallExpr":
            fn = self.callee_name(e)
            if fn in IDENT_FNS:
                return self.expr(e["inner"][2], env)
            if fn == "__cstl_bintree_cmp":
                self.uses_cmp = True
                return "(cmp %s %s)" % (self.atom(self.expr(e["inner"][2], env)), self.atom(self.expr(e["inner"][3], env)))
            raise Unsupported("call in expression position: %s" % fn)
        raise Unsupported("expression kind %s" % k)

    def cond(self, e, env):
        """an expression used as a truth value"""
        s = self.strip(e)
        t = s.get("type", {}).get("qualType", "")
        txt = self.expr(e, env)
        if s["kind"] == "BinaryOperator" and s["opcode"] in ("==", "!=", "<", ">", "<=", ">=", "&&", "||"):
            return txt
        if s["kind"] == "UnaryOperator" and s["opcode"] == "!":
            return txt
        return "(%s ≠ 0)" % txt

    def int_of_cond(self, e, env):
        """`const int leaf = a == NULL && b == NULL;`"""
        s = self.strip(e)
        if s["kind"] == "BinaryOperator" and s["opcode"] in ("==", "!=", "<", ">", "<=", ">=", "&&", "||"):
            return "(if %s then 1 else 0)" % self.expr(e, env)
        return self.expr(e, env)

    # ---------------------------------------------------------------- assignments
    def assign(self, lhs, rhs, env, lets):
        lhs = self.strip(lhs)
        v = rhs if isinstance(rhs, str) else None

        def val():
            if v is not None:
                return v
            if lhs.get("type", {}).get("qualType", "").replace("const", "").strip() == "int":
                return self.int_of_cond(rhs, env)
            return self.expr(rhs, env)
        cc = self.child_call(lhs)
        if cc:
            a = self.atom(self.expr(cc[1], env))
            x = self.atom(val())
            n = self.fresh("m")
            lets.append((n, "%s %s d %s %s" % ("setChL" if cc[0] == "l" else "setChR", env["m"], a, x), None))
            env["m"] = n
            return
        col = self.colour_ref(lhs, env)
        if col:
            x = self.atom(val())
            n = self.fresh("m")
            lets.append((n, "setC %s %s %s" % (env["m"], col, x), None))
            env["m"] = n
            return
        if lhs["kind"] == "DeclRefExpr":
            var = lhs["referencedDecl"]["name"]
            if var not in env and var not in self.vtype:
                raise Unsupported("assignment to %s" % var)
            x = val()
            if re.match(r"^[A-Za-z_][A-Za-z0-9_]*$", x):
                env[var] = x            # a copy: no new name
                return
            n = self.fresh(var)
            lets.append((n, x, None))
            env[var] = n
            return
        if lhs["kind"] == "MemberExpr" and self.hdr_field(lhs):
            x = val()
            n = self.fresh(self.hdr)
            lets.append((n, "{ %s with %s := %s }" % (env[self.hdr], self.hdr_field(lhs), x), None))
            env[self.hdr] = n
            return
        if lhs["kind"] == "MemberExpr" and lhs["name"] in self.NODE_FIELDS:
            base = self.strip(lhs["inner"][0])
            f = lhs["name"]
            a = self.atom(self.expr(base, env)) if lhs.get("isArrow") else self.node_addr(base, env)
            x = self.atom(val())
            n = self.fresh("m")
            lets.append((n, "%s %s %s %s" % (self.NODE_FIELDS[f][1], env["m"], a, x), None))
            env["m"] = n
            return
        if lhs["kind"] == "UnaryOperator" and lhs["opcode"] == "*":
            i = self.strip(lhs["inner"][0])
            if self.is_loc_var(i):
                # store through a `struct cstl_bintree_node **`: a node field, the root pointer or the local
                bc = env[i["referencedDecl"]["name"]]
                x = self.atom(val())
                m0, h0 = env["m"], env[self.hdr]
                n = self.fresh("m")
                lets.append((n, "match %s with | Loc.lf a => setLf %s a %s | Loc.rt a => setRt %s a %s | _ => %s"
                             % (bc, m0, x, m0, x, m0), None))
                env["m"] = n
                n = self.fresh(self.hdr)
                lets.append((n, "match %s with | Loc.root => { %s with root := %s } | _ => %s" % (bc, h0, x, h0), None))
                env[self.hdr] = n
                if self.bpvar and self.bpvar in env:
                    b0 = env[self.bpvar]
                    n = self.fresh(self.bpvar)
                    lets.append((n, "match %s with | Loc.bp => %s | _ => %s" % (bc, x, b0), None))
                    env[self.bpvar] = n
                return
            if i["kind"] == "DeclRefExpr" and i["referencedDecl"]["name"] in self.cells:
                c = i["referencedDecl"]["name"]
                x = val()
                n = self.fresh(c + "_cell")
                lets.append((n, x, None))
                env["*" + c] = n
                return
        raise Unsupported("assignment target")

    # ---------------------------------------------------------------- calls
    def fuels(self, node, count):
        nid = node.get("id")
        if nid not in self.fuel_of:
            self.fuel_of[nid] = self.nfuel
            self.nfuel += count
        base = self.fuel_of[nid]
        return ["fuel%d" % (base + i + 1) for i in range(count)]

    def call(self, e, env):
        """application of a translated callee: (text, callee, names of the result components)"""
        e = self.strip_void(e)
        fn = self.callee_name(e)
        recursive = fn == self.name
        if not recursive and fn not in self.known:
            raise Unsupported("call to untranslated function %s" % fn)
        g = self if recursive else self.known[fn]
        args = e["inner"][1:]
        parts = []
        if g.visit:
            if not self.visit:
                raise Unsupported("callback argument")
            parts.append("visit")
        if g.uses_cmp:
            self.uses_cmp = True
            parts.append("cmp")
        if recursive:
            parts.append("fuel")
        else:
            parts += self.fuels(e, g.nfuel)
        if g.visit:
            parts.append(env["visit_st"])
        parts.append(env["m"])
        sels = []
        cellargs = []
        for p, a in zip(g.params, args):
            n = p["name"]
            if n == g.hdr:
                if not (self.hdr_ref(a) or (self.rb_ref(a) and g.hdr_wrapped)):
                    raise Unsupported("header argument of %s" % fn)
                parts.append(env[self.hdr])
            elif n in g.childfns:
                sels.append(self.selector(a))
            elif n == g.visit or (g.visit and n == "priv"):
                continue
            elif n in g.cells:
                sa = self.strip(a)
                if sa["kind"] == "NULL":
                    parts.append("0")
                    cellargs.append(("0", None))
                elif sa["kind"] == "DeclRefExpr" and sa["referencedDecl"]["name"] in self.cells:
                    c_ = sa["referencedDecl"]["name"]
                    parts.append(env[c_])
                    cellargs.append((env["*" + c_], c_))
                else:
                    raise Unsupported("out parameter argument")
            else:
                parts.append(self.atom(self.expr(a, env)))
        if len(g.childfns) == 2:
            if sels[0] != self.neg_sel(sels[1]):
                raise Unsupported("child function arguments are not a left/right pair")
            parts.append(sels[0])
        elif len(g.childfns) == 1:
            parts.append(sels[0])
        for a in g.adrs:
            if a not in self.adrs:
                self.adrs.append(a)
            parts.append(a)
        for (cv, _) in cellargs:
            parts.append(cv)
        self.last_cells = [c_ for (_, c_) in cellargs]
        return "%s %s" % (g.lean_name(), " ".join(parts)), g

    def bind_call(self, e, env, lets):
        """pure callee: `let r := f …` and projections. Returns the name of the returned value (or None)."""
        txt, g = self.call(e, env)
        comps = g.result_comps()
        cells = list(self.last_cells)
        r = self.fresh("r")
        lets.append((r, txt, None))
        rv = None
        for i, (kind, _) in enumerate(comps):
            proj = r + "".join([".2"] * i) + (".1" if i < len(comps) - 1 else "")
            if len(comps) == 1:
                proj = r
            if kind == "st":
                n = self.fresh("st")
                lets.append((n, proj, None))
                env["visit_st"] = n
            elif kind == "m":
                n = self.fresh("m")
                lets.append((n, proj, None))
                env["m"] = n
            elif kind == "hdr":
                n = self.fresh(self.hdr)
                lets.append((n, proj, None))
                env[self.hdr] = n
            elif kind == "ret":
                rv = self.fresh("v")
                lets.append((rv, proj, None))
            elif kind == "cell":
                c_ = cells.pop(0)
                if c_ is not None:
                    n = self.fresh(c_ + "_cell")
                    lets.append((n, proj, None))
                    env["*" + c_] = n
        return rv

    def match_call(self, e, env):
        """callee with loops: (scrutinee, pattern, name of the returned value or None); env is updated"""
        txt, g = self.call(e, env)
        comps = g.result_comps()
        cells = list(self.last_cells)
        names = []
        rv = None
        for (kind, _) in comps:
            if kind == "st":
                n = self.fresh("st")
                env["visit_st"] = n
            elif kind == "m":
                n = self.fresh("m")
                env["m"] = n
            elif kind == "hdr":
                n = self.fresh(self.hdr)
                env[self.hdr] = n
            elif kind == "ret":
                n = rv = self.fresh("v")
            else:
                c_ = cells.pop(0)
                if c_ is None:
                    n = "_"
                else:
                    n = self.fresh(c_ + "_cell")
                    env["*" + c_] = n
            names.append(n)
        return txt, tup(names), rv

    def result_comps(self):
        c = []
        if self.visit:
            c.append(("st", "σ"))
        c.append(("m", "TM"))
        if self.hdr:
            c.append(("hdr", "Hd"))
        if self.ret:
            c.append(("ret", self.ret_type))
        for x in self.cells:
            c.append(("cell", "Nat"))
        return c

    def result_text(self, env, retv):
        parts = []
        if self.visit:
            parts.append(env["visit_st"])
        parts.append(env["m"])
        if self.hdr:
            parts.append(env[self.hdr])
        if self.ret:
            parts.append(retv if retv is not None else "0")
        for c in self.cells:
            parts.append(env["*" + c])
        t = tup(parts)
        return ("some " + t) if self.loopy else t

    def known_call(self, e):
        """`e` (casts stripped) is a call that has to be followed"""
        e = self.strip_void(e)
        if e.get("kind") != "CallExpr":
            return False
        fn = self.callee_name(e)
        if fn in IDENT_FNS:
            return self.known_call(e["inner"][2])
        if fn in ("BN_COLOR", "__cstl_bintree_cmp", "cstl_swap") or fn in self.childfns:
            return False
        f = self.strip(e["inner"][0])
        if f["kind"] == "DeclRefExpr" and f["referencedDecl"]["name"] in self.childfns:
            return False
        if self.visit and f["kind"] == "DeclRefExpr" and f["referencedDecl"]["name"] == self.visit:
            return False
        return True

    def unwrap_ident(self, e):
        e = self.strip_void(e)
        while e.get("kind") == "CallExpr" and self.callee_name(e) in IDENT_FNS:
            e = self.strip_void(e["inner"][2])
        return e

    def is_visit_call(self, e):
        e = self.strip_void(e)
        if e.get("kind") != "CallExpr" or not self.visit:
            return False
        f = self.strip(e["inner"][0])
        return f["kind"] == "DeclRefExpr" and f["referencedDecl"]["name"] == self.visit

    def callee_loopy(self, e):
        e = self.unwrap_ident(e)
        fn = self.callee_name(e)
        return fn == self.name or self.known[fn].loopy if (fn == self.name or fn in self.known) else False

    # ---------------------------------------------------------------- statements
    def seq(self, stmts, env, kont, esc):
        lets = []
        for idx, s in enumerate(stmts):
            rest = stmts[idx + 1:]
            k = s["kind"]
            if k == "NullStmt":
                continue
            if k == "ParenExpr" and not self.known_call(s):          # assert() under NDEBUG
                continue
            if k == "CompoundStmt":
                # block-local declarations keep their (unique) names; flatten
                return self.cat(lets, self.seq(s.get("inner", []) + rest, env, kont, esc))
            if k == "DeclStmt":
                vs = s["inner"]
                if len(vs) > 1:
                    one = [{"kind": "DeclStmt", "inner": [v]} for v in vs]
                    return self.cat(lets, self.seq(one + rest, env, kont, esc))
                v = vs[0]
                if v["kind"] != "VarDecl":
                    raise Unsupported("declaration")
                nm = v["name"]
                if nm in RESERVED:
                    raise Unsupported("local name %s clashes with the translation's vocabulary" % nm)
                t = v["type"]["qualType"]
                if re.match(r"^(const )?struct cstl_(rbtree|bintree)_node$", t.strip()):
                    if "inner" not in v:
                        continue                 # stack-local node: only its address (`adr_…`) is used
                    if "rbtree" in t:
                        raise Unsupported("initialised rbtree node structure")
                    src = self.strip(v["inner"][0])
                    if not (src["kind"] == "UnaryOperator" and src["opcode"] == "*"):
                        raise Unsupported("node structure initialiser")
                    a = self.atom(self.expr(src["inner"][0], env))
                    lets += self.take()
                    for f in ("p", "l", "r"):
                        n = self.fresh(nm + f)
                        lets.append((n, "%s.%s %s" % (env["m"], self.NODE_FIELDS[f][0], a), None))
                        env[nm + "." + f] = n
                    continue
                if t.strip().startswith("struct") and "*" not in t:
                    raise Unsupported("local structure %s" % t)
                self.vtype[nm] = self.lean_type(t)
                if "inner" not in v:
                    env[nm] = {"Nat": "0", "Int": "0", "Loc": "Loc.root", "Color": "Color.black"}[self.vtype[nm]]
                    continue
                init = v["inner"][0]
                if self.known_call(init) or self.is_visit_call(init):
                    fake = {"kind": "BinaryOperator", "opcode": "=", "inner": [
                        {"kind": "DeclRefExpr", "referencedDecl": {"name": nm, "kind": "VarDecl"}, "type": v["type"]}, init]}
                    env.setdefault(nm, "0")
                    return self.cat(lets, self.seq([fake] + rest, env, kont, esc))
                x = self.int_of_cond(init, env) if self.vtype[nm] == "Int" else self.expr(init, env)
                lets += self.take()
                if re.match(r"^[A-Za-z_][A-Za-z0-9_]*$", x):
                    env[nm] = x         # a copy: no new name
                    continue
                n = self.fresh(nm)
                lets.append((n, x, None))
                env[nm] = n
                continue
            # ---- calls in statement position / as the right side of an assignment / returned
            call_e, target = None, None
            if k == "BinaryOperator" and s["opcode"] == "=" and (self.known_call(s["inner"][1]) or self.is_visit_call(s["inner"][1])):
                call_e, target = s["inner"][1], s["inner"][0]
            elif k in ("CallExpr", "CStyleCastExpr", "ParenExpr") and (self.known_call(s) or self.is_visit_call(s)):
                call_e = s
            elif k == "ReturnStmt" and s.get("inner") and (self.known_call(s["inner"][0]) or self.is_visit_call(s["inner"][0])):
                call_e, target = s["inner"][0], "return"
            if call_e is not None:
                if self.is_visit_call(call_e):
                    ce = self.strip_void(call_e)
                    a = self.atom(self.expr(ce["inner"][1], env))
                    o = self.atom(self.expr(ce["inner"][2], env))
                    r = self.fresh("r")
                    lets.append((r, "visit %s %s %s %s" % (env["visit_st"], env["m"], a, o), None))
                    n = self.fresh("st")
                    lets.append((n, r + ".1", None))
                    env["visit_st"] = n
                    n = self.fresh("m")
                    lets.append((n, r + ".2.1", None))
                    env["m"] = n
                    rv = self.fresh("v")
                    lets.append((rv, r + ".2.2", None))
                    tail_b = None
                else:
                    ce = self.unwrap_ident(call_e)
                    if self.callee_loopy(ce):
                        scrut, pat, rv = self.match_call(ce, env)
                        tail_b = (scrut, pat)
                    else:
                        rv = self.bind_call(ce, env, lets)
                        tail_b = None
                post = []
                if target == "return":
                    if "return" not in esc:
                        raise Unsupported("return here")
                    inner = esc["return"](env, rv)
                elif target is not None:
                    if rv is None:
                        raise Unsupported("value of a void call")
                    self.assign(target, rv, env, post)
                    inner = None
                else:
                    inner = None
                if inner is None:
                    inner = self.seq(rest, env, kont, esc)
                    inner = self.cat(post, inner)
                if tail_b:
                    return self.mk_match(lets, tail_b[0], tail_b[1], inner)
                return self.cat(lets, inner)
            if k == "BinaryOperator" and s["opcode"] == "=":
                lhs, rhs = s["inner"]
                if self.is_struct(s):
                    dst = self.strip(lhs)
                    if not (dst["kind"] == "UnaryOperator" and dst["opcode"] == "*"):
                        raise Unsupported("structure assignment target")
                    d_ = self.atom(self.expr(dst["inner"][0], env))
                    src = self.strip(rhs)
                    if src["kind"] == "UnaryOperator" and src["opcode"] == "*":
                        a = self.atom(self.expr(src["inner"][0], env))
                        vals = ["(%s.%s %s)" % (env["m"], self.NODE_FIELDS[f][0], a) for f in ("p", "l", "r")]
                    elif src["kind"] == "DeclRefExpr" and (src["referencedDecl"]["name"] + ".p") in env:
                        t_ = src["referencedDecl"]["name"]
                        vals = [env[t_ + "." + f] for f in ("p", "l", "r")]
                    else:
                        raise Unsupported("structure assignment source")
                    lets += self.take()
                    n = self.fresh("m")
                    lets.append((n, "setRt (setLf (setP %s %s %s) %s %s) %s %s"
                                 % (env["m"], d_, vals[0], d_, vals[1], d_, vals[2]), None))
                    env["m"] = n
                    continue
                new = []
                self.assign(lhs, rhs, env, new)
                lets += self.take() + new
                continue
            if k == "UnaryOperator" and s["opcode"] in ("++", "--"):
                t_ = self.strip(s["inner"][0])
                if t_["kind"] == "MemberExpr" and self.hdr_field(t_) == "size":
                    n = self.fresh(self.hdr)
                    lets.append((n, "{ %s with size := %s.size %s 1 }"
                                 % (env[self.hdr], env[self.hdr], "+" if s["opcode"] == "++" else "-"), None))
                    env[self.hdr] = n
                    continue
                raise Unsupported("increment")
            if k == "ReturnStmt":
                if "return" not in esc:
                    raise Unsupported("return here")
                rv = None
                if s.get("inner"):
                    rv = self.int_of_cond(s["inner"][0], env) if self.ret_type == "Int" else self.expr(s["inner"][0], env)
                    lets += self.take()
                return self.cat(lets, esc["return"](env, rv))
            if k in ("BreakStmt", "ContinueStmt"):
                key = "break" if k == "BreakStmt" else "continue"
                if key not in esc:
                    raise Unsupported("%s outside a loop" % key)
                return self.cat(lets, esc[key](env))
            if k == "IfStmt":
                c = self.cond(s["inner"][0], env)
                lets += self.take()
                thn = [s["inner"][1]]
                els = [s["inner"][2]] if len(s["inner"]) > 2 else []
                if self.escapes(s):
                    # the rest of the list belongs to the branch(es) that fall through
                    bT = self.seq(thn + rest, dict(env), kont, esc)
                    bE = self.seq(els + rest, dict(env), kont, esc)
                    return Block(lets, ("if", c, bT, bE))
                if self.effectful(s):
                    # a loop / a call with loops inside a branch: join the assigned variables in Option
                    saved = dict(self.counter)
                    ends = []
                    dry = lambda e_: (ends.append(dict(e_)), Block([], ("res", "_")))[1]   # noqa: E731
                    self.seq(thn, dict(env), dry, esc)
                    self.seq(els, dict(env), dry, esc)
                    self.counter = saved
                    changed = [v for v in env if any(e_.get(v) != env[v] for e_ in ends)]
                    fin = lambda e_: Block([], ("res", "some " + tup([e_[v] for v in changed])))   # noqa: E731
                    bT = self.seq(thn, dict(env), fin, esc)
                    bE = self.seq(els, dict(env), fin, esc)
                    j = self.fresh("j")
                    ty = "Option (%s)" % " × ".join(self.type_of(v) for v in changed)
                    lets.append((j, Block([], ("if", c, bT, bE)), ty))
                    names = []
                    for v in changed:
                        n = self.fresh(self.base_name(v))
                        env[v] = n
                        names.append(n)
                    return self.mk_match(lets, j, tup(names), self.seq(rest, env, kont, esc))
                # pure: one `if` per assigned variable
                envT, envE = dict(env), dict(env)
                cap = lambda e_: Block([], ("res", "_"))    # noqa: E731
                linesT = [(n, v) for (n, v, _) in self.seq(thn, envT, cap, {}).lets]
                linesE = [(n, v) for (n, v, _) in self.seq(els, envE, cap, {}).lets]
                for v in list(env):
                    if envT.get(v) == envE.get(v):
                        if envT.get(v) != env[v]:
                            env[v] = envT[v]       # cannot happen with fresh names; kept for safety
                        continue
                    n = self.fresh(self.base_name(v))
                    lets.append((n, "if %s then %s else %s" % (c, self.block(linesT, envT[v]), self.block(linesE, envE[v])), None))
                    env[v] = n
                continue
            if k == "WhileStmt":
                return self.cat(lets, self.loop(s, env, rest, kont, esc))
            raise Unsupported("statement kind %s" % k)
        return self.cat(lets, kont(env))

    @staticmethod
    def cat(lets, b):
        return Block(lets + b.lets, b.tail)

    @staticmethod
    def mk_match(lets, scrut, pat, inner):
        """`match s with | none => none | some p => some p` is `s`"""
        if not inner.lets and inner.tail == ("res", "some " + pat) and "_" not in re.findall(r"[A-Za-z_][A-Za-z0-9_]*", pat):
            return Block(lets, ("res", scrut))
        return Block(lets, ("match", scrut, pat, inner))

    def base_name(self, v):
        if v == "visit_st":
            return "st"
        if v.startswith("*"):
            return v[1:] + "_cell"
        return v.replace(".", "")

    def type_of(self, v):
        if v == "m":
            return "TM"
        if v == self.hdr:
            return "Hd"
        if v == "visit_st":
            return "σ"
        if v.startswith("*") or "." in v:
            return "Nat"
        return self.vtype.get(v, "Nat")

    def block(self, lines, final):
        """the lets `final` depends on, then `final` (one line)"""
        need = toks(final)
        keep = []
        for n, e in reversed(lines):
            if n in need:
                keep.append((n, e))
                need |= toks(e)
        keep.reverse()
        if keep and keep[-1][0] == final:
            final = keep[-1][1]
            keep = keep[:-1]
            if not keep:
                return self.atom(final)
        if not keep:
            return final
        return "(" + " ".join("let %s := %s;" % (n, e) for n, e in keep) + " " + final + ")"

    # ---------------------------------------------------------------- loops
    def loop(self, s, env, rest, kont, esc):
        info = self.loops.get(s.get("id"))
        if info is None:
            info = self.make_loop(s, env)
            self.loops[s.get("id")] = info
        name, state, consts, fuel = info
        args = []
        for cst in consts:
            args.append(env[cst] if cst in env else cst)
        call = "%s %s %s %s" % (name, " ".join(args), fuel, " ".join(self.atom(env[v]) for v in state))
        call = re.sub(r"\s+", " ", call)
        names = []
        for v in state:
            n = self.fresh(self.base_name(v))
            env[v] = n
            names.append(n)
        return self.mk_match([], call, tup(names), self.seq(rest, env, kont, esc))

    def make_loop(self, s, env):
        cond, body = s["inner"][0], s["inner"][1]
        idx = len(self.loops) + 1
        name = "%s_loop%d" % (self.lean_name(), idx)
        fuel = self.fuels(s, 1)[0]
        ienv = {v: self.base_name(v) for v in env}

        def run(on_exit, on_again):
            e = dict(ienv)
            c = self.cond(cond, e)
            pre = self.take()
            ex = on_exit(e)
            b = self.seq([body], dict(e), on_again, {"break": on_exit, "continue": on_again})
            return pre, c, ex, b
        # pass 1: which variables does an iteration (or the condition) assign
        saved = dict(self.counter)
        ends = []
        rec = lambda e_: (ends.append(dict(e_)), Block([], ("res", "_")))[1]   # noqa: E731
        run(rec, rec)
        self.counter = saved
        state = [v for v in env if any(e_.get(v) != ienv[v] for e_ in ends)]
        if not state:
            raise Unsupported("loop without state")
        # pass 2
        stay = lambda e_: Block([], ("res", "some " + tup([e_[v] for v in state])))   # noqa: E731
        again = lambda e_: Block([], ("res", "%s CONSTS fuel %s" % (name, " ".join(self.atom(e_[v]) for v in state))))   # noqa: E731
        pre, c, ex, b = run(stay, again)
        b1 = Block(list(pre), ("if", c, b, ex))
        b0 = Block(list(pre), ("if", c, Block([], ("res", "none")), ex))
        prune(b1)
        prune(b0)
        used = block_toks(b1)
        consts = [v for v in env if v not in state and ienv[v] in used]
        extra = []
        if "cmp" in used:
            extra.append("cmp")
        if "visit" in used:
            extra.append("visit")
        fl = sorted((t for t in used if re.match(r"^fuel\d+$", t)), key=lambda t: int(t[4:]))
        if "d" in used:
            extra_d = ["d"]
        else:
            extra_d = []
        adrs = [a for a in self.adrs if a in used]
        allc = extra + fl + consts + extra_d + adrs
        sig = []
        for cst in allc:
            if cst == "cmp":
                sig.append("(cmp : Nat → Nat → Int)")
            elif cst == "visit":
                sig.append("(visit : σ → TM → Nat → Nat → σ × TM × Int)")
            elif cst == "d":
                sig.append("(d : Bool)")
            elif cst in fl or cst in adrs:
                sig.append("(%s : Nat)" % cst)
            else:
                sig.append("(%s : %s)" % (ienv[cst], self.type_of(cst)))
        cargs = " ".join(ienv.get(cst, cst) for cst in allc)
        tys = [self.type_of(v) for v in state]
        pat = ", ".join(ienv[v] for v in state)
        lines = ["def %s %s : Nat → %s → Option (%s)" % (name, " ".join(sig), " → ".join(tys), " × ".join(tys)),
                 "  | 0, %s =>" % pat]
        lines += render_block(b0, 2)
        lines.append("  | fuel + 1, %s =>" % pat)
        lines += render_block(b1, 2)
        txt = "\n".join(lines).replace(" CONSTS ", " %s " % cargs if cargs else " ")
        txt = "\n".join(re.sub(r"(\S)  +", r"\1 ", ln) for ln in txt.split("\n"))
        doc = "-- loop %d of `%s`: state (%s)\n" % (idx, self.name, pat)
        self.prelude.append(doc + txt + "\n")
        return name, state, allc, fuel

    # ---------------------------------------------------------------- whole function
    def lean_name(self):
        return "c_" + ("priv_" + self.name[2:] if self.name.startswith("__") else self.name)

    def signature(self):
        sig = []
        if self.visit:
            sig.append("{σ : Type} (visit : σ → TM → Nat → Nat → σ × TM × Int)")
        if self.uses_cmp:
            sig.append("(cmp : Nat → Nat → Int)")
        return sig

    def render(self):
        env = {}
        if self.visit:
            env["visit_st"] = "st"
        env["m"] = "m"
        if self.hdr:
            env[self.hdr] = self.hdr
        for v in self.vals:
            env[v] = v
        for c in self.cells:
            env["*" + c] = c + "_cell"
        fin = lambda e_: Block([], ("res", self.result_text(e_, None)))      # noqa: E731
        ret = lambda e_, rv: Block([], ("res", self.result_text(e_, rv)))    # noqa: E731
        b = self.seq(self.body.get("inner", []), env, fin, {"return": ret})
        prune(b)
        rty = " × ".join(t for (_, t) in self.result_comps())
        if self.loopy:
            rty = "Option (%s)" % rty
        sig = self.signature()
        if self.self_rec:
            # recursion on the C stack: one fuel for the depth
            head = "def %s %s" % (self.lean_name(), " ".join(sig))
            if self.nfuel:
                head += " (%s : Nat)" % " ".join("fuel%d" % (i + 1) for i in range(self.nfuel))
            st = []
            if self.visit:
                st.append(("st", "σ"))
            st.append(("m", "TM"))
            if self.hdr:
                st.append((self.hdr, "Hd"))
            for v in self.vals:
                st.append((v, self.vtype[v]))
            if self.childfns:
                st.append(("d", "Bool"))
            for a in self.adrs:
                st.append((a, "Nat"))
            for c in self.cells:
                st.append((c + "_cell", "Nat"))
            head += " : Nat → %s → %s" % (" → ".join(t for _, t in st), rty)
            pat = ", ".join(n for n, _ in st)
            lines = [head, "  | 0, %s => none" % ", ".join("_" for _ in st), "  | fuel + 1, %s =>" % pat]
            lines += render_block(b, 2)
            return "".join(p + "\n" for p in self.prelude) + "\n".join(lines) + "\n"
        if self.nfuel:
            sig.append("(%s : Nat)" % " ".join("fuel%d" % (i + 1) for i in range(self.nfuel)))
        if self.visit:
            sig.append("(st : σ)")
        sig.append("(m : TM)")
        if self.hdr:
            sig.append("(%s : Hd)" % self.hdr)
        for v in self.vals:
            sig.append("(%s : %s)" % (v, self.vtype[v]))
        if self.childfns:
            sig.append("(d : Bool)")
        for a in self.adrs:
            sig.append("(%s : Nat)" % a)
        for c in self.cells:
            sig.append("(%s_cell : Nat)" % c)
        lines = ["def %s %s : %s :=" % (self.lean_name(), " ".join(sig), rty)]
        lines += render_block(b, 1)
        return "".join(p + "\n" for p in self.prelude) + "\n".join(lines) + "\n"


SOURCES = [
    ("bintree.c", ["__cstl_bintree_rotate", "cstl_bintree_insert", "cstl_bintree_find", "cstl_bintree_slide",
                   "__cstl_bintree_adjacent", "__cstl_bintree_next", "__cstl_bintree_erase", "cstl_bintree_erase",
                   "__cstl_bintree_foreach"]),
    ("rbtree.c", ["cstl_rbtree_fix_insertion", "cstl_rbtree_insert", "cstl_rbtree_fix_deletion", "__cstl_rbtree_erase",
                  "cstl_rbtree_find", "cstl_rbtree_erase"]),
]


def check_selectors(decls):
    """`__cstl_bintree_left` / `__cstl_bintree_right` must return `&n->l` / `&n->r`"""
    t = TreeFn.__new__(TreeFn)
    for fn, (field, _) in SELECTORS.items():
        d = decls.get(fn)
        if d is None:
            raise Unsupported("selector %s not found" % fn)
        body = [c for c in d["inner"] if c["kind"] == "CompoundStmt"][0]
        st = body.get("inner", [])
        ok = False
        if len(st) == 1 and st[0]["kind"] == "ReturnStmt":
            e = t.strip(st[0]["inner"][0])
            if e["kind"] == "UnaryOperator" and e["opcode"] == "&":
                me = t.strip(e["inner"][0])
                if me["kind"] == "MemberExpr" and me.get("isArrow") and me["name"] == field:
                    b = t.strip(me["inner"][0])
                    ok = b["kind"] == "DeclRefExpr" and b["referencedDecl"]["kind"] == "ParmVarDecl"
        if not ok:
            raise Unsupported("%s is not `return &n->%s;`" % (fn, field))


def translate(repo):
    known = {}
    chunks = []
    report = {}
    for src, order in SOURCES:
        decls = clang_ast(repo, src, set(order) | set(SELECTORS))
        if src == "bintree.c":
            check_selectors(decls)
        for name in order:
            if name in known:
                continue
            if name not in decls:
                report[name] = "not found in source"
                continue
            try:
                f = TreeFn2(decls[name], known)
                txt = f.render()
                known[name] = f
                chunks.append("-- %s (src/%s)\n%s" % (name, src, txt))
                report[name] = "translated"
            except Unsupported as e:
                report[name] = "not translated: %s" % e
            except (KeyError, IndexError, TypeError, AttributeError, ValueError) as e:
                # an AST shape the translator was not written for: same outcome as Unsupported
                report[name] = "not translated: unexpected AST shape (%s: %s)" % (type(e).__name__, e)
    out = ("-- GENERATED by tools/c2lean_tree.py from /repo's src/bintree.c and src/rbtree.c on every check run; do not edit.\n"
           "import Cstl.TreeL.Model\nset_option linter.unusedVariables false\nnamespace Cstl.Gen.%s\n" % MODULE
           + "open Cstl.TreeL\nopen Cstl.Tree (Color)\n\n" + "\n".join(chunks) + "\nend Cstl.Gen.%s\n" % MODULE)
    return out, report


if __name__ == "__main__":
    repo = sys.argv[1] if len(sys.argv) > 1 else "/repo"
    txt, rep = translate(repo)
    sys.stdout.write(txt)
    for k, v in rep.items():
        sys.stderr.write("%s: %s\n" % (k, v))
