#!/bin/sh
# run every claimed check of MANIFEST.json in the given tier; print one line per check
tier=${1:-quick}
cd "$(dirname "$0")/.."
python3 tools/check.py --setup > /dev/null 2>&1
for id in $(python3 -c "import json; print(' '.join(c['property_id'] for c in json.load(open('MANIFEST.json'))['checks']))"); do
  s=$(date +%s)
  out=$(python3 tools/check.py $id --tier $tier 2>&1 | grep -E "^(OK|VIOLATION|KNOWN-FINDING|Traceback)" | head -3)
  e=$(date +%s)
  echo "$id [$((e-s))s] $out"
done
