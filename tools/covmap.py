#!/usr/bin/env python3
"""Diagnostic: which lines of the library's non-test code are never executed by the harness runs?
usage: VERIF_COV=/tmp/cov python3 tools/check.py Cnn ... (for every check), then tools/covmap.py /tmp/cov"""
import os
import re
import sys

cov = sys.argv[1]
hits = {}       # (file, line) -> executed?
text = {}
for root, _, fs in os.walk(cov):
    for f in fs:
        if not f.endswith(".gcov"):
            continue
        src = None
        for line in open(os.path.join(root, f), errors="replace"):
            m = re.match(r"\s*(-|#####|=====|\d+\*?):\s*(\d+):(.*)$", line)
            if not m:
                continue
            cnt, ln, txt = m.group(1), int(m.group(2)), m.group(3)
            if ln == 0:
                mm = re.match(r"Source:(.*)", txt)
                if mm:
                    src = mm.group(1)
                continue
            if src is None or "/src/" not in src and "/include/cstl/" not in src:
                continue
            key = (os.path.basename(src), ln)
            text[key] = txt
            if cnt == "-":
                continue
            ex = cnt not in ("#####", "=====")
            hits[key] = hits.get(key, False) or ex
files = sorted(set(k[0] for k in hits))
for f in files:
    lines = sorted(l for (ff, l) in hits if ff == f)
    # stop at the unit-test section
    cut = min([l for (ff, l), t in text.items() if ff == f and "__cfg_test__" in t] + [10 ** 9])
    lines = [l for l in lines if l < cut]
    miss = [l for l in lines if not hits[(f, l)]]
    print("%-14s executable %4d  never executed %3d" % (f, len(lines), len(miss)))
    for l in miss:
        print("      %5d: %s" % (l, text[(f, l)].rstrip()[:110]))
