#!/usr/bin/env python3
"""
Translator, second part for src/hash.c (+ the inline functions of include/cstl/hash.h)  ->  Lean 4,
module Cstl.Gen.HashLC2 (area `hashl2`).

tools/c2lean_hash.py translates the chain functions (`__cstl_hash_get_bucket`, `cstl_clean_bucket`,
`cstl_hash_bucket_foreach`, `cstl_hash_erase_visit`) and the tails of insert / erase.  This module
re-translates those four with the SAME class (so that the generated module is self-contained and
always reflects the current source) and adds every other function of hash.c:

  __cstl_hash_rehash, cstl_hash_rehash, cstl_hash_get_bucket (the keyed lookup sequence),
  cstl_hash_find_visit, cstl_hash_find, __cstl_hash_set_capacity, cstl_hash_resize,
  cstl_hash_shrink_to_fit, __cstl_hash_foreach, cstl_hash_foreach, cstl_hash_foreach_visit,
  cstl_hash_foreach_const, cstl_hash_clear_visit, cstl_hash_clear, cstl_hash_insert, cstl_hash_erase
  (whole functions), cstl_hash_size, cstl_hash_load, cstl_hash_swap (hash.h).

Vocabulary: that of c2lean_hash.py (lean/Cstl/HashL/Model.lean) plus lean/Cstl/HashL/CSem2.lean:

  h->bucket.<scalar> = v              { s with t := { s.t with <field> := v } }   (setClean / setSize where
                                      the model has a setter)
  h->bucket.at[i].n / .cst            s.t.head i / s.t.bcst i, preceded by `chk s.t i` (first access of a
                                      straight-line region)
  h->bucket.at (== / != NULL)         s.t.cap = 0 / ≠ 0     (the array pointer is NULL iff capacity is 0)
  free(h->bucket.at)                  freeAt s
  at = realloc(h->bucket.at, b)       reallocAt oracle <sizeof bucket> s b : LR (Option Nat)   (oracle step;
                                      `some n` = an array with room for n buckets, `none` = NULL)
  h->bucket.at = at / = NULL          s.setAt at / s.setAt none
  sizeof(*at)                         the number clang computes for the current headers
  a * b (size_t)                      (a * b) % 2 ^ 64
  SIZE_MAX                            18446744073709551615
  function pointers                   Option …  (`== NULL` is `.isNone`, `!= NULL` is `.isSome`);
                                      `cstl_hash_mul` is `some mulId`
  while / for over bucket indices     an auxiliary definition recursing on the loop fuel `lf`
                                      (`hang` = fuel exhausted while the condition still holds); chain loops
                                      (translated by c2lean_hash.py) keep their own `fuel`
  if without return / break           `let j ← do if c then …; pure (assigned variables) else …` (join)
  A || B with a call in B             nested `if` (short circuit)
  struct …_priv locals                one Lean structure value (FindP / EraseP / WalkP); members without a
                                      model counterpart (`h`, the client's `p`) are dropped, function-pointer
                                      members the model keeps outside the structure become parameters; a call
                                      through a member is a CSem2 primitive (callAccept / callClr / callConstVisit)
  (float)a / b                        the pair (a, b)   (the division stays abstract)
  unsigned int i                      Nat (truncation to 32 bits is not modelled, as in the model)

lean/Cstl/HashL/Tie2.lean (hand-written, fixed) states `translation = model` (up to the ghost relocation
counter, under `enough loop fuel`) for every function; the kernel re-checks these against the
regenerated module on every run (tools/areas/hashtree_tie.py).
"""
import json
import os
import shutil
import subprocess
import sys
import tempfile

sys.path.insert(0, os.path.dirname(os.path.abspath(__file__)))
import c2lean                                     # noqa: E402
import c2lean_hash                                # noqa: E402
from c2lean import Unsupported, lname             # noqa: E402
from c2lean_hash import HFn, qt                   # noqa: E402

MODULE = "HashLC2"
HEADER = "import Cstl.HashL.Model\nimport Cstl.HashL.CSem2\n"
OPENS = ("open Cstl.SList (Mem upd)\nopen Cstl.Hash (HashId Stop Node mulId)\n"
         "open Cstl.HashL\n")

# header scalars: C path -> (Lean field, kind)
FIELDS = {
    "bucket.cst": ("cst", "bool"), "bucket.rh.hash": ("rhHash", "fnopt"), "bucket.rh.count": ("rhCount", "nat"),
    "bucket.rh.clean": ("clean", "nat"), "bucket.count": ("count", "nat"), "bucket.hash": ("hash", "fnopt"),
    "bucket.capacity": ("cap", "nat"), "count": ("size", "nat"),
}
SETTERS = {"clean": "setClean", "size": "setSize"}
IDENT = ("__cstl_hash_node", "__cstl_hash_element")
HASH_CONSTS = {"cstl_hash_mul": "(some mulId)"}

SKIP = object()
# private structures: Lean type, member map (None = no model counterpart; ("param", name, type) = the member is
# a function pointer the model keeps outside the structure: it becomes a parameter of the callback), initial
# value, primitives for calls through a member
PRIV2 = {
    "cstl_hash_erase_priv": dict(type="EraseP", fields={"n": "n", "e": "e"}, init="{ n := Loc.head 0, e := 0 }",
                                 calls={}, kinds={"n": "loc", "e": "nat"}),
    "cstl_hash_find_priv": dict(type="FindP", fields={"h": None, "k": "k", "visit": "visit", "p": None, "e": "e"},
                                init="{ k := 0, visit := none, e := 0, offers := [] }",
                                calls={"visit": "callAccept"}, kinds={"k": "nat", "visit": "fnopt", "e": "nat"}),
    "cstl_hash_clear_priv": dict(type="WalkP", fields={"clr": None, "priv": None}, init="{ idx := 0, seen := [] }",
                                 calls={"clr": "callClr"}, kinds={}),
    "cstl_hash_foreach_visit_priv": dict(type="WalkP", fields={"visit": ("param", "visit", "Nat → Node → Int"),
                                                                "priv": None},
                                         init="{ idx := 0, seen := [] }", calls={"visit": "callConstVisit"}, kinds={}),
}

# functions translated by the first translator's class (identical text to Cstl.Gen.HashLC)
BASE = [
    ("__cstl_hash_get_bucket", "value"),
    ("cstl_clean_bucket", "state"),
    ("cstl_hash_bucket_foreach", "foreach"),
    ("cstl_hash_erase_visit", "visit"),
]

# name -> kind, options
#   kind: value (LR T) | state (LR LS) | stateval (LR (LS × T)) | foreach (LR (LS × π × Int)) | visit
#   cparams: C parameter -> (Lean type, kind) for callback-pointer parameters that are plain values here
#   skip: C parameters without a model counterpart (the client's private pointer)
#   ret_priv: the local private structure returned with the result (it carries the ghost log of callback calls)
NEW = [
    ("__cstl_hash_rehash", "state", {}),
    ("cstl_hash_rehash", "state", {}),
    ("cstl_hash_get_bucket", "stateval", {}),
    ("cstl_hash_find_visit", "visit", {}),
    ("cstl_hash_find", "stateval", dict(cparams={"visit": ("Option (Nat → Node → Bool)", "fnopt")}, skip=("p",),
                                        ret_priv="hfp")),
    ("__cstl_hash_set_capacity", "state", {}),
    ("cstl_hash_resize", "state", {}),
    ("cstl_hash_shrink_to_fit", "state", {}),
    ("__cstl_hash_foreach", "foreach", {}),
    ("cstl_hash_foreach", "foreach", {}),
    ("cstl_hash_foreach_visit", "visit", {}),
    ("cstl_hash_foreach_const", "stateval", dict(cparams={"visit": ("Nat → Node → Int", "fn")}, skip=("p",),
                                                 ret_priv="hfvp")),
    ("cstl_hash_clear_visit", "visit", {}),
    ("cstl_hash_clear", "state", dict(cparams={"clr": ("Bool", "flag")}, ret_priv="hcp")),
    ("cstl_hash_insert", "state", {}),
    ("cstl_hash_erase", "state", {}),
    ("cstl_hash_size", "value", {}),
    ("cstl_hash_load", "value", dict(ret_type="Nat × Nat")),
]


def clang_tu(repo):
    """AST of src/hash.c (with the inline functions of hash.h) and sizeof(struct cstl_hash_bucket)"""
    d = tempfile.mkdtemp(prefix="cstlverif_c2lh2_")
    try:
        wrap = os.path.join(d, "wrap.c")
        with open(wrap, "w") as fh:
            fh.write('#include "%s"\n' % os.path.join(os.path.abspath(repo), "src", "hash.c"))
            fh.write("enum { c2lean_sizeof_bucket = sizeof(struct cstl_hash_bucket) };\n")
        cmd = ["clang-14", "-std=c99", "-DNDEBUG", "-D_POSIX_C_SOURCE=199309L",
               "-I", os.path.join(repo, "include"), "-fsyntax-only", "-Xclang", "-ast-dump=json", wrap]
        r = subprocess.run(cmd, stdout=subprocess.PIPE, stderr=subprocess.PIPE, universal_newlines=True)
        if r.returncode != 0:
            raise Unsupported("clang failed on hash.c: %s" % r.stderr[-500:])
        tu = json.loads(r.stdout)
    finally:
        shutil.rmtree(d, ignore_errors=True)
    decls, size = {}, None

    def const_value(n):
        if n.get("kind") == "ConstantExpr" and "value" in n:
            return int(n["value"])
        for c in n.get("inner", []):
            v = const_value(c)
            if v is not None:
                return v
        return None
    for x in tu.get("inner", []):
        if x.get("kind") == "FunctionDecl" and any(c.get("kind") == "CompoundStmt" for c in x.get("inner", [])):
            decls[x["name"]] = x
        if x.get("kind") == "EnumDecl":
            for c in x.get("inner", []):
                if c.get("name") == "c2lean_sizeof_bucket":
                    size = const_value(c)
    if size is None:
        raise Unsupported("sizeof(struct cstl_hash_bucket) not found")
    return decls, size


def walk(n):
    if isinstance(n, dict):
        yield n
        for c in n.get("inner", []):
            for x in walk(c):
                yield x


class HFn2(HFn):
    def __init__(self, decl, kind, known, opts, bucket_size):
        self.decl = decl
        self.kind = kind
        self.known = known
        self.opts = opts
        self.bsz = bucket_size
        self.name = decl["name"]
        self.params = [p for p in decl["inner"] if p["kind"] == "ParmVarDecl"]
        self.body = [c for c in decl["inner"] if c["kind"] == "CompoundStmt"][0]
        self.ret = decl["type"]["qualType"].split("(")[0].strip()
        self.hdr = None
        self.vars = {}            # C name -> Lean type
        self.vkind = {}           # C name -> kind: nat | int | bool | fnopt | fn | flag | arr | loc | priv
        self.args = []            # (lean name, lean type)
        self.hashfns = []
        self.visit = None
        self.pvar = None
        self.ptype = None
        self.alias = {}
        self.extra = []
        self.prelude = []
        self.nloops = 0
        self.tmp = 0
        self.mut_params = []
        self.closure = []         # (lean name, type): function-pointer members of the private structure
        self.privstruct = None
        cparams = opts.get("cparams", {})
        skip = set(opts.get("skip", ()))
        for p in self.params:
            t = qt(p)
            n = p["name"]
            if "struct cstl_hash *" in t:
                self.hdr = n
            elif n in skip:
                continue
            elif n in cparams:
                self.vars[n] = cparams[n][0]
                self.vkind[n] = cparams[n][1]
                self.args.append((lname(n), cparams[n][0]))
            elif "cstl_hash_func_t" in t:
                self.vars[n] = "Option HashId"
                self.vkind[n] = "fnopt"
                self.args.append((lname(n), "Option HashId"))
            elif "cstl_visit_func_t" in t and "const_visit" not in t:
                self.visit = n
            elif kind == "foreach" and t.startswith("void *"):
                self.pvar = n
                self.ptype = "π"
            elif kind == "visit" and n == "p":
                self.pvar = n
            else:
                self.vars[n] = "Nat"
                self.vkind[n] = "nat"
                self.args.append((lname(n), "Nat"))
                if not (t.rstrip().endswith("const") or t.startswith("const ")):
                    self.mut_params.append(n)
        # static requirements
        self.uses_hf = self.uses_fuel = self.uses_lf = self.uses_oracle = False
        for x in walk(self.body):
            k = x.get("kind")
            if k in ("WhileStmt", "ForStmt"):
                self.uses_lf = True
            if k == "CallExpr":
                cn = self.callee(x)
                if cn == "realloc":
                    self.uses_oracle = True
                g = known.get(cn)
                if g is not None:
                    self.uses_hf |= bool(g.uses_hf)
                    self.uses_fuel |= bool(g.uses_fuel)
                    self.uses_lf |= bool(getattr(g, "uses_lf", False))
                    self.uses_oracle |= bool(getattr(g, "uses_oracle", False))
            if k == "DeclRefExpr" and x.get("referencedDecl", {}).get("name") in known:
                g = known[x["referencedDecl"]["name"]]
                self.uses_hf |= bool(g.uses_hf)
                self.uses_fuel |= bool(g.uses_fuel)
                self.uses_lf |= bool(getattr(g, "uses_lf", False))
        if kind == "visit":
            # the private structure this callback works on
            for x in walk(self.body):
                if x.get("kind") == "VarDecl":
                    pr = [p for p in PRIV2 if ("struct " + p + " *") in qt(x)]
                    if pr:
                        self.privstruct = pr[0]
                        self.ptype = PRIV2[pr[0]]["type"]
                        for f, m in PRIV2[pr[0]]["fields"].items():
                            if isinstance(m, tuple):
                                self.closure.append((lname(m[1]), m[2]))
                        break
            if self.ptype is None:
                raise Unsupported("callback without a known private structure")

    # ------------------------------------------------------------------ helpers
    def callee(self, e):
        c = self.strip(e["inner"][0])
        if c["kind"] == "DeclRefExpr":
            return c["referencedDecl"]["name"]
        return None

    def lean_name(self):
        return "c_" + ("priv_" + self.name[2:] if self.name.startswith("__") else self.name)

    def priv_of(self, e):
        t = qt(e)
        for k in PRIV2:
            if ("struct " + k) in t:
                return k
        return None

    def is_priv(self, e):
        return self.priv_of(e) is not None

    def invalidate(self, tok=None):
        if tok is None:
            self.checked.clear()
        else:
            self.checked = set(c for c in self.checked if tok not in c.replace("(", " ").replace(")", " ").split())

    def hdr_path2(self, e):
        """like hdr_path, also through `.` members of the embedded structures; (path, ok)"""
        return self.hdr_path(e)

    def at_index(self, e, pre):
        """`h->bucket.at[i]` -> the Lean text of i, or None"""
        e = self.strip(e)
        if e["kind"] == "ArraySubscriptExpr" and self.hdr_path(e["inner"][0]) == "bucket.at":
            return self.expr(e["inner"][1], pre)
        return None

    def kind_of(self, e):
        """nat | int | bool | fnopt | fn | flag | arr | loc | node | bucket | priv"""
        e0 = e
        e = self.strip(e)
        k = e["kind"]
        if k == "NULL":
            return "null"
        if k == "DeclRefExpr":
            n = e["referencedDecl"]["name"]
            if n in self.vkind:
                return self.vkind[n]
            if n in HASH_CONSTS:
                return "fnopt"
        if k == "MemberExpr":
            hp = self.hdr_path(e)
            if hp == "bucket.at":
                return "arr"
            if hp in FIELDS:
                return FIELDS[hp][1]
            pr = self.priv_of(self.strip(e["inner"][0]))
            if pr:
                return PRIV2[pr]["kinds"].get(e["name"], "nat")
        t = qt(e0) or qt(e)
        if "cstl_hash_func_t" in t:
            return "fnopt"
        if t.replace("const", "").strip() in ("int",):
            return "int"
        if t.replace("const", "").strip() in ("bool", "_Bool"):
            return "bool"
        return "nat"

    # ------------------------------------------------------------------ expressions
    def expr(self, e, pre):
        e = self.strip(e)
        k = e["kind"]
        if k == "NULL":
            return "0"
        if k == "IntegerLiteral":
            return e["value"]
        if k == "UnaryExprOrTypeTraitExpr" and e.get("name") == "sizeof":
            at = e.get("argType", {}).get("qualType") or (qt(self.strip(e["inner"][0])) if e.get("inner") else "")
            if at.replace("const", "").strip() == "struct cstl_hash_bucket":
                return str(self.bsz)
            raise Unsupported("sizeof(%s)" % at)
        if k == "DeclRefExpr":
            n = e["referencedDecl"]["name"]
            if n in self.vars or n in self.alias:
                return self.lvar(n)
            if n == self.visit:
                return lname(n)
            if n == self.pvar:
                return self.lvar(n)
            if n in HASH_CONSTS:
                return HASH_CONSTS[n]
            if n in self.known:
                g = self.known[n]
                cl = getattr(g, "closure", [])
                if cl:
                    # a callback whose private structure has function-pointer members kept as parameters
                    vals = []
                    for (cn, _) in cl:
                        if cn not in self.closure_env:
                            raise Unsupported("callback %s used before its `%s` member is set" % (n, cn))
                        vals.append(self.closure_env[cn])
                    return "(%s %s)" % (g.lean_name(), " ".join(vals))
                return g.lean_name()
            raise Unsupported("reference to %s" % n)
        if k == "ArraySubscriptExpr":
            raise Unsupported("array element as a value")
        if k == "MemberExpr":
            hp = self.hdr_path(e)
            if hp is not None:
                if hp not in FIELDS:
                    raise Unsupported("table member %s" % hp)
                return "s.t.%s" % FIELDS[hp][0]
            base = e["inner"][0]
            f = e["name"]
            sb = self.strip(base)
            pr = self.priv_of(sb)
            if pr:
                m = PRIV2[pr]["fields"].get(f, SKIP)
                if m is SKIP or m is None or isinstance(m, tuple):
                    raise Unsupported("private member %s has no value in the model" % f)
                return "%s.%s" % (self.expr(base, pre), m)
            idx = None if e.get("isArrow") else self.at_index(base, pre)
            if idx is not None or (e.get("isArrow") and self.is_bucket_ptr(sb)):
                b = idx if idx is not None else self.expr(base, pre)
                self.check_bucket(b, pre)
                if f == "n":
                    return "s.t.head %s" % self.atom(b)
                if f == "cst":
                    return "s.t.bcst %s" % self.atom(b)
                raise Unsupported("bucket member %s" % f)
            if e.get("isArrow") and self.is_node_ptr(sb):
                b = self.expr(base, pre)
                through_call = sb["kind"] == "CallExpr" and self.callee(sb) in IDENT
                if sb["kind"] not in ("DeclRefExpr",) and not through_call:
                    pre.append("chkN %s" % self.atom(b))
                if f == "next":
                    return "s.nxt %s" % self.atom(b)
                if f == "key":
                    return "s.keyOf %s" % self.atom(b)
                raise Unsupported("node member %s" % f)
            raise Unsupported("member access %s" % f)
        if k == "UnaryOperator":
            op = e["opcode"]
            inner = self.strip(e["inner"][0])
            if op == "&":
                if inner["kind"] == "ArraySubscriptExpr":
                    idx = self.at_index(inner, pre)
                    if idx is not None:
                        return idx
                    raise Unsupported("address of an array element")
                if inner["kind"] == "MemberExpr" and inner.get("isArrow"):
                    base = inner["inner"][0]
                    if inner["name"] == "n" and self.is_bucket_ptr(self.strip(base)):
                        return "Loc.head %s" % self.atom(self.expr(base, pre))
                    if inner["name"] == "next" and self.is_node_ptr(self.strip(base)):
                        return "Loc.next %s" % self.atom(self.expr(base, pre))
                if inner["kind"] == "DeclRefExpr" and self.is_priv(inner):
                    return self.lvar(inner["referencedDecl"]["name"])
                raise Unsupported("address-of")
            if op == "*":
                if "struct cstl_hash_node **" in qt(inner):
                    return "s.rdLoc %s" % self.atom(self.expr(inner, pre))
                raise Unsupported("dereference")
            if op == "!":
                if inner["kind"] == "IntegerLiteral" and inner["value"] == "0":
                    return "TRUE"
                if self.kind_of(e["inner"][0]) == "bool":
                    return "!%s" % self.atom(self.expr(inner, pre))
                raise Unsupported("negation")
            raise Unsupported("unary %s" % op)
        if k == "BinaryOperator":
            op = e["opcode"]
            a, b = e["inner"]
            if op == "=":
                self.assign(a, b, pre)
                return self.expr(a, [])
            if op == ",":
                self.expr(a, pre)
                return self.expr(b, pre)
            if op in ("==", "!="):
                ka, kb = self.kind_of(a), self.kind_of(b)
                if "null" in (ka, kb):
                    x, kx = (a, ka) if kb == "null" else (b, kb)
                    if kx == "arr":
                        if self.hdr_path(x) == "bucket.at":
                            return "s.t.cap %s 0" % ("=" if op == "==" else "≠")
                        return "%s.%s" % (self.atom(self.expr(x, pre)), "isNone" if op == "==" else "isSome")
                    if kx == "fnopt":
                        return "%s.%s" % (self.atom(self.expr(x, pre)), "isNone" if op == "==" else "isSome")
                    if kx == "flag":
                        return "%s = %s" % (self.atom(self.expr(x, pre)), "false" if op == "==" else "true")
                    if kx == "fn":
                        raise Unsupported("NULL test of a callback the model takes as given")
                    return "%s %s 0" % (self.atom(self.expr(x, pre)), "=" if op == "==" else "≠")
            if op in ("==", "!=", ">", "<", ">=", "<="):
                la = self.expr(a, pre)
                lb = self.expr(b, pre)
                lop = {"==": "=", "!=": "≠", ">=": "≥", "<=": "≤"}.get(op, op)
                return "%s %s %s" % (self.atom(la), lop, self.atom(lb))
            if op in ("+", "-"):
                return "%s %s %s" % (self.atom(self.expr(a, pre)), op, self.atom(self.expr(b, pre)))
            if op == "*":
                return "((%s * %s) %% 2 ^ 64)" % (self.atom(self.expr(a, pre)), self.atom(self.expr(b, pre)))
            if op == "/":
                if "float" in qt(e):
                    return "(%s, %s)" % (self.expr(a, pre), self.expr(b, pre))
                return "%s / %s" % (self.atom(self.expr(a, pre)), self.atom(self.expr(b, pre)))
            raise Unsupported("binary %s" % op)
        if k == "CallExpr":
            return self.call(e, pre)
        raise Unsupported("expression kind %s" % k)

    def call_args(self, g):
        """the leading arguments of a call of the translated function g (before the callback / state)"""
        out = []
        if g.uses_hf:
            out.append("hf")
        if getattr(g, "uses_oracle", False):
            out.append("oracle")
        return out

    def call(self, e, pre):
        c0 = self.strip(e["inner"][0])
        args = e["inner"][1:]
        # a call through a member of the private structure: a CSem2 primitive
        if c0["kind"] == "MemberExpr" and self.is_priv(self.strip(c0["inner"][0])):
            pr = self.priv_of(self.strip(c0["inner"][0]))
            prim = PRIV2[pr]["calls"].get(c0["name"])
            if prim is None:
                raise Unsupported("call through private member %s" % c0["name"])
            m = PRIV2[pr]["fields"].get(c0["name"])
            cl = (lname(m[1]) + " ") if isinstance(m, tuple) else ""
            pv = self.expr(c0["inner"][0], pre)
            a0 = self.atom(self.expr(args[0], pre))
            self.tmp += 1
            r = "r%d" % self.tmp
            pre.append("let %s ← %s %ss %s %s" % (r, prim, cl, pv, a0))
            pre.append("let %s := %s.1" % (pv, r))
            return "%s.2" % r
        fn = self.callee(e)
        if fn in IDENT:
            return self.expr(args[1], pre)
        if fn == "free":
            if self.hdr_path(args[0]) != "bucket.at":
                raise Unsupported("free of something else than the bucket array")
            pre.append("freeAt s")
            return None
        if fn == "realloc":
            if self.hdr_path(args[0]) != "bucket.at":
                raise Unsupported("realloc of something else than the bucket array")
            b = self.atom(self.expr(args[1], pre))
            self.tmp += 1
            r = "a%d" % self.tmp
            pre.append("let %s ← reallocAt oracle %d s %s" % (r, self.bsz, b))
            return r
        if fn is not None and fn in self.vars and self.vkind.get(fn) == "fnopt" and len(args) == 2:
            self.tmp += 1
            r = "h%d" % self.tmp
            pre.append("let %s ← callHash hf %s %s %s" % (r, lname(fn), self.atom(self.expr(args[0], pre)),
                                                         self.atom(self.expr(args[1], pre))))
            return r
        if fn is not None and fn == self.visit:
            a0 = self.atom(self.expr(args[0], pre))
            self.tmp += 1
            r = "r%d" % self.tmp
            pre.append("let %s ← %s s %s %s" % (r, lname(fn), self.lvar(self.pvar), a0))
            pre.append("let s := %s.1" % r)
            pre.append("let %s := %s.2.1" % (self.lvar(self.pvar), r))
            self.invalidate()
            return "%s.2.2" % r
        if fn in self.known:
            g = self.known[fn]
            lead = self.call_args(g)
            fu = (["fuel"] if g.uses_fuel else []) + (["lf"] if getattr(g, "uses_lf", False) else [])
            vals = []
            for p, a in zip(g.params, args):
                n = p["name"]
                if n == g.hdr or n == g.visit or n == g.pvar or n in g.opts_skip():
                    continue
                vals.append(self.atom(self.expr(a, pre)))
            self.tmp += 1
            if g.kind == "value":
                r = "v%d" % self.tmp
                pre.append("let %s ← %s" % (r, " ".join([g.lean_name()] + lead + ["s"] + vals)))
                return r
            if g.kind == "state":
                pre.append("let s ← %s" % " ".join([g.lean_name()] + lead + fu + ["s"] + vals))
                self.invalidate()
                return None
            if g.kind == "stateval":
                r = "r%d" % self.tmp
                pre.append("let %s ← %s" % (r, " ".join([g.lean_name()] + lead + fu + ["s"] + vals)))
                pre.append("let s := %s.1" % r)
                self.invalidate()
                return "%s.2" % r
            if g.kind == "foreach":
                vi = [i for i, p in enumerate(g.params) if p["name"] == g.visit][0]
                pi = [i for i, p in enumerate(g.params) if p["name"] == g.pvar][0]
                cb = self.atom(self.expr(args[vi], pre))
                pv = self.atom(self.expr(args[pi], pre))
                r = "r%d" % self.tmp
                if isinstance(g, HFn2):
                    pre.append("let %s ← %s" % (r, " ".join([g.lean_name()] + lead + [cb] + fu + ["s"] + vals + [pv])))
                else:
                    pre.append("let %s ← %s" % (r, " ".join([g.lean_name(), cb] + fu + ["s"] + vals + [pv])))
                pre.append("let s := %s.1" % r)
                pre.append("let %s := %s.2.1" % (pv, r))
                self.invalidate()
                return "%s.2.2" % r
        raise Unsupported("call to %s" % fn)

    def opts_skip(self):
        return set(self.opts.get("skip", ()))

    # ------------------------------------------------------------------ assignments
    def assign(self, lhs, rhs, pre):
        lhs = self.strip(lhs)
        k = lhs["kind"]
        if k == "MemberExpr":
            # members without a model counterpart: nothing to do (the right side must be effect-free)
            sb = self.strip(lhs["inner"][0])
            pr = self.priv_of(sb)
            if pr and not isinstance(rhs, str):
                m = PRIV2[pr]["fields"].get(lhs["name"], SKIP)
                if m is SKIP:
                    raise Unsupported("private member %s" % lhs["name"])
                if m is None:
                    return
                if isinstance(m, tuple):
                    self.closure_env[lname(m[1])] = self.atom(self.expr(rhs, pre))
                    return
        if isinstance(rhs, str):
            v = rhs
        else:
            rk = self.kind_of(rhs)
            lk = self.kind_of(lhs)
            if rk == "null" and lk in ("fnopt", "arr"):
                v = "none"
            else:
                v = self.expr(rhs, pre)
        if k == "DeclRefExpr":
            n = lhs["referencedDecl"]["name"]
            if n not in self.vars:
                raise Unsupported("assignment to %s" % n)
            pre.append("let %s := %s" % (lname(n), v))
            self.invalidate(lname(n))
            return
        if k == "MemberExpr":
            hp = self.hdr_path(lhs)
            if hp is not None:
                if hp == "bucket.at":
                    pre.append("let s := s.setAt %s" % self.atom(v))
                    self.invalidate()
                    return
                if hp not in FIELDS:
                    raise Unsupported("assignment to table member %s" % hp)
                f = FIELDS[hp][0]
                if f in SETTERS:
                    pre.append("let s := s.%s %s" % (SETTERS[f], self.atom(v)))
                else:
                    pre.append("let s := { s with t := { s.t with %s := %s } }" % (f, v))
                if f == "cap":
                    self.invalidate()
                else:
                    self.invalidate("s.t.%s" % f)
                return
            base = lhs["inner"][0]
            f = lhs["name"]
            sb = self.strip(base)
            pr = self.priv_of(sb)
            if pr:
                m = PRIV2[pr]["fields"][f]
                b = self.expr(base, pre)
                pre.append("let %s := { %s with %s := %s }" % (b, b, m, v))
                return
            idx = None if lhs.get("isArrow") else self.at_index(base, pre)
            if idx is not None or (lhs.get("isArrow") and self.is_bucket_ptr(sb)):
                b = idx if idx is not None else self.expr(base, pre)
                self.check_bucket(b, pre)
                setter = {"n": "setHead", "cst": "setBcst"}.get(f)
                if setter is None:
                    raise Unsupported("bucket member %s" % f)
                pre.append("let s := s.%s %s %s" % (setter, self.atom(b), self.atom(v)))
                return
            if lhs.get("isArrow") and self.is_node_ptr(sb):
                b = self.expr(base, pre)
                setter = {"next": "setNxt", "key": "setKey"}.get(f)
                if setter is None:
                    raise Unsupported("node member %s" % f)
                pre.append("let s := s.%s %s %s" % (setter, self.atom(b), self.atom(v)))
                return
        if k == "UnaryOperator" and lhs["opcode"] == "*":
            inner = self.strip(lhs["inner"][0])
            if "struct cstl_hash_node **" in qt(inner):
                pre.append("let s := s.wrLoc %s %s" % (self.atom(self.expr(inner, pre)), self.atom(v)))
                return
        raise Unsupported("assignment target")

    # ------------------------------------------------------------------ conditions
    def ctree(self, e):
        """('and'|'or', l, r) | ('atom', lines to run first, test or None when constant true)"""
        e = self.strip(e)
        if e["kind"] == "BinaryOperator" and e["opcode"] in ("&&", "||"):
            l = self.ctree(e["inner"][0])
            r = self.ctree(e["inner"][1])
            if l[0] == "atom" and r[0] == "atom" and not l[1] and not r[1] and l[2] and r[2]:
                if e["opcode"] == "&&":
                    # pure conjunctions are flattened (∧ associates to the right)
                    return ("atom", [], "%s ∧ %s" % (self.patom(l[2], "∨"), self.patom(r[2], "∨")))
                return ("atom", [], "%s ∨ %s" % (self.patom(l[2], "∧"), self.patom(r[2], "∧")))
            return ("and" if e["opcode"] == "&&" else "or", l, r)
        pre = []
        t = self.expr(e, pre)
        if t == "TRUE":
            t = None
        elif self.kind_of(e) == "int" and e["kind"] not in ("BinaryOperator",):
            t = "%s ≠ 0" % self.atom(t)
        return ("atom", pre, t)

    @staticmethod
    def patom(t, other):
        depth = 0
        for i, ch in enumerate(t):
            depth += ch == "("
            depth -= ch == ")"
            if depth == 0 and t.startswith(" %s " % other, i):
                return "(%s)" % t
        return t

    def branch(self, tree, ind, then_lines, else_lines):
        pad = "  " * ind
        if tree[0] == "atom":
            out = [pad + l for l in tree[1]]
            if tree[2] is None:
                return out + then_lines(ind)
            out.append(pad + "if %s then" % tree[2])
            out += then_lines(ind + 1)
            out.append(pad + "else")
            out += else_lines(ind + 1)
            return out
        if tree[0] == "and":
            return self.branch(tree[1], ind, lambda i: self.branch(tree[2], i, then_lines, else_lines), else_lines)
        return self.branch(tree[1], ind, then_lines, lambda i: self.branch(tree[2], i, then_lines, else_lines))

    # ------------------------------------------------------------------ static scans
    def escapes(self, n, in_loop=False):
        if not isinstance(n, dict):
            return False
        k = n.get("kind")
        if k == "ReturnStmt":
            return True
        if k == "BreakStmt":
            return not in_loop
        if k == "CallExpr" and self.callee(n) == "abort":
            return True
        if k in ("WhileStmt", "ForStmt"):
            return any(self.escapes(c, True) for c in n.get("inner", []))
        return any(self.escapes(c, in_loop) for c in n.get("inner", []))

    def effects(self, n):
        """(writes the state, touches the private data, set of assigned local names)"""
        st, pv, loc = False, False, set()
        for x in walk(n):
            k = x.get("kind")
            tgt = None
            if k == "BinaryOperator" and x.get("opcode") == "=":
                tgt = self.strip(x["inner"][0])
            elif k == "UnaryOperator" and x.get("opcode") in ("++", "--"):
                tgt = self.strip(x["inner"][0])
            elif k == "CompoundAssignOperator":
                tgt = self.strip(x["inner"][0])
            if tgt is not None:
                if tgt["kind"] == "DeclRefExpr":
                    loc.add(tgt["referencedDecl"]["name"])
                elif tgt["kind"] == "MemberExpr" and self.is_priv(self.strip(tgt["inner"][0])):
                    b = self.strip(tgt["inner"][0])
                    if b["kind"] == "DeclRefExpr":
                        loc.add(b["referencedDecl"]["name"])
                else:
                    st = True
            if k == "CallExpr":
                c0 = self.strip(x["inner"][0])
                cn = self.callee(x)
                if cn in IDENT:
                    continue
                if c0["kind"] == "MemberExpr" and self.is_priv(self.strip(c0["inner"][0])):
                    b = self.strip(c0["inner"][0])
                    if b["kind"] == "DeclRefExpr":
                        loc.add(b["referencedDecl"]["name"])
                    continue
                g = self.known.get(cn)
                if g is not None and g.kind == "value":
                    continue
                st = True
                if cn == self.visit or (g is not None and g.kind == "foreach"):
                    pv = True
                    for a in x["inner"][1:]:
                        a = self.strip(a)
                        if a["kind"] == "UnaryOperator" and a["opcode"] == "&":
                            i = self.strip(a["inner"][0])
                            if i["kind"] == "DeclRefExpr" and self.is_priv(i):
                                loc.add(i["referencedDecl"]["name"])
        return st, pv, loc

    # ------------------------------------------------------------------ statements
    def state_vars(self):
        vs = ["s"]
        if self.pvar is not None:
            vs.append(self.lvar(self.pvar))
        return vs + [self.lvar(v) for v in self.locals]

    def state_types(self):
        ts = ["LS"]
        if self.pvar is not None:
            ts.append(self.ptype)
        return ts + [self.vars[v] for v in self.locals]

    def result(self, retv):
        rp = self.opts.get("ret_priv")
        if self.kind == "value":
            return "pure %s" % self.atom(retv)
        if self.kind == "state":
            return "pure (s, %s)" % lname(rp) if rp else "pure s"
        if self.kind == "stateval":
            return "pure (s, %s, %s)" % (lname(rp), retv) if rp else "pure (s, %s)" % retv
        return "pure (s, %s, %s)" % (self.lvar(self.pvar), retv)

    @staticmethod
    def tuple_of(vs):
        return vs[0] if len(vs) == 1 else "(%s)" % ", ".join(vs)

    def declare(self, v, pad, out):
        n = v["name"]
        t = qt(v)
        pr = [p for p in PRIV2 if ("struct " + p) in t]
        if pr and "*" in t:
            init = self.strip(v["inner"][0])
            if init["kind"] == "DeclRefExpr" and init["referencedDecl"]["name"] == self.pvar:
                self.alias[n] = self.lvar(self.pvar)
                return
            raise Unsupported("private-data pointer")
        if pr:
            if n == self.opts.get("ret_priv"):
                return                       # declared at the top of the function
            self.vars[n] = PRIV2[pr[0]]["type"]
            self.vkind[n] = "priv"
            self.locals.append(n)
            out.append(pad + "let %s : %s := %s" % (lname(n), PRIV2[pr[0]]["type"], PRIV2[pr[0]]["init"]))
            return
        tt = t.replace("const", "").strip()
        if tt == "int":
            ty, kd, zero = "Int", "int", "0"
        elif "struct cstl_hash_node **" in t:
            ty, kd, zero = "Loc", "loc", "Loc.head 0"
        elif "cstl_hash_func_t" in t:
            ty, kd, zero = "Option HashId", "fnopt", "none"
        elif tt == "struct cstl_hash_bucket *" and "inner" in v and self.strip(v["inner"][0])["kind"] == "NULL":
            ty, kd, zero = "Option Nat", "arr", "none"       # a pointer to a bucket ARRAY (set_capacity)
        else:
            ty, kd, zero = "Nat", "nat", "0"
        self.vars[n] = ty
        self.vkind[n] = kd
        self.locals.append(n)
        if "inner" not in v or self.strip(v["inner"][0])["kind"] == "NULL" and kd in ("arr", "fnopt"):
            out.append(pad + "let %s : %s := %s" % (lname(n), ty, zero))
            return
        pre = []
        val = self.expr(v["inner"][0], pre)
        out += [pad + l for l in pre]
        out.append(pad + "let %s%s := %s" % (lname(n), " : Int" if ty == "Int" else "", val))

    def stmts(self, lst, ind, k):
        pad = "  " * ind
        out = []
        for idx, st in enumerate(lst):
            rest = lst[idx + 1:]
            kind = st["kind"]
            if kind == "NullStmt":
                continue
            if kind == "CompoundStmt":
                return out + self.stmts(st.get("inner", []) + rest, ind, k)
            if kind == "DeclStmt":
                for v in st["inner"]:
                    if v["kind"] != "VarDecl":
                        raise Unsupported("declaration")
                    self.declare(v, pad, out)
                continue
            if kind == "BinaryOperator" and st["opcode"] == ",":
                return out + self.stmts([st["inner"][0], st["inner"][1]] + rest, ind, k)
            if kind == "BinaryOperator" and st["opcode"] == "=":
                pre = []
                self.assign(st["inner"][0], st["inner"][1], pre)
                out += [pad + l for l in pre]
                continue
            if kind == "UnaryOperator" and st["opcode"] in ("++", "--"):
                pre = []
                cur = self.expr(st["inner"][0], pre)
                self.assign(st["inner"][0], "(%s %s 1)" % (cur, "+" if st["opcode"] == "++" else "-"), pre)
                out += [pad + l for l in pre]
                continue
            if kind in ("CallExpr", "CStyleCastExpr", "ParenExpr", "ImplicitCastExpr"):
                ce = self.strip(st)
                if ce["kind"] != "CallExpr":
                    raise Unsupported("expression statement")
                if self.callee(ce) == "abort":
                    out.append(pad + "stop .abort")
                    return out
                pre = []
                self.expr(ce, pre)
                out += [pad + l for l in pre]
                continue
            if kind == "ReturnStmt":
                pre = []
                v = self.expr(st["inner"][0], pre) if st.get("inner") else None
                out += [pad + l for l in pre]
                out.append(pad + self.result(v))
                return out
            if kind == "BreakStmt":
                if self.loop_exit is None:
                    raise Unsupported("break outside a loop")
                out.append(pad + self.loop_exit())
                return out
            if kind == "IfStmt":
                tree = self.ctree(st["inner"][0])
                then = st["inner"][1]
                els = st["inner"][2] if len(st["inner"]) > 2 else None
                saved = (list(self.locals), set(self.checked))
                terminal = self.escapes(st) or not [r for r in rest if r["kind"] != "NullStmt"]
                if terminal:
                    def then_lines(i):
                        self.locals, self.checked = list(saved[0]), set(saved[1]) | set(self.checked)
                        return self.stmts([then] + rest, i, k)

                    def else_lines(i):
                        self.locals, self.checked = list(saved[0]), set(saved[1])
                        return self.stmts(([els] if els else []) + rest, i, k)
                    out += self.branch(tree, ind, then_lines, else_lines)
                    return out
                # join: the branches return the variables they assign
                wst, wpv, wloc = self.effects(st)
                vs = (["s"] if wst else []) + ([self.lvar(self.pvar)] if (wpv and self.pvar) else []) \
                    + [self.lvar(v) for v in self.locals if v in wloc]
                if not vs:
                    raise Unsupported("if statement without an effect")
                tup = self.tuple_of(vs)
                self.tmp += 1
                j = "j%d" % self.tmp if len(vs) > 1 else vs[0]
                fin = lambda i: ["  " * i + "pure %s" % tup]      # noqa: E731

                def then_lines(i):
                    self.locals, self.checked = list(saved[0]), set(saved[1]) | set(self.checked)
                    return self.stmts([then], i, fin)

                def else_lines(i):
                    self.locals, self.checked = list(saved[0]), set(saved[1])
                    return self.stmts([els] if els else [], i, fin)
                out.append(pad + "let %s ← do" % j)
                out += self.branch(tree, ind + 1, then_lines, else_lines)
                if len(vs) > 1:
                    for i_, v in enumerate(vs):
                        proj = ".2" * i_ + (".1" if i_ < len(vs) - 1 else "")
                        out.append(pad + "let %s := %s%s" % (v, j, proj))
                self.locals = list(saved[0])
                self.checked = set()
                continue
            if kind in ("WhileStmt", "ForStmt"):
                out += self.loop(st, rest, ind, k)
                return out
            raise Unsupported("statement kind %s" % kind)
        return out + k(ind)

    def loop(self, st, rest, ind, k):
        pad = "  " * ind
        out = []
        if st["kind"] == "ForStmt":
            init, _cv, cond, incr, body = st["inner"]
            if init and init.get("kind"):
                out += self.stmts([init], ind, lambda i: [])
            body_list = [body] + ([incr] if incr and incr.get("kind") else [])
            for x in walk(body):
                if x.get("kind") == "ContinueStmt":
                    raise Unsupported("continue in a for loop")
        else:
            cond, body = st["inner"][0], st["inner"][1]
            body_list = [body]
        self.nloops += 1
        fname = "%s_loop%d" % (self.lean_name(), self.nloops)
        wst, wpv, wloc = self.effects(st)
        all_locals = list(self.locals)
        loop_locals = [v for v in all_locals if v in wloc]
        vs = ["s"] + ([self.lvar(self.pvar)] if self.pvar is not None else []) + [self.lvar(v) for v in loop_locals]
        ts = ["LS"] + ([self.ptype] if self.pvar is not None else []) + [self.vars[v] for v in loop_locals]
        consts = [(a, t) for a, t in self.args if a not in vs] \
            + [(self.lvar(v), self.vars[v]) for v in all_locals if v not in loop_locals and (self.lvar(v), self.vars[v]) not in self.args]
        tup = "(%s)" % ", ".join(vs) if len(vs) > 1 else vs[0]
        rty = " × ".join(ts)
        nloc = len(self.locals)
        hp = []
        ca = []
        if self.uses_hf:
            hp.append("(hf : HashId → Nat → Nat → Nat)")
            ca.append("hf")
        if self.uses_oracle:
            hp.append("(oracle : Nat → Bool)")
            ca.append("oracle")
        if self.visit:
            hp.append("(%s : LS → π → Nat → LR (LS × π × Int))" % lname(self.visit))
            ca.append(lname(self.visit))
        for (cn, ct) in self.closure:
            hp.append("(%s : %s)" % (cn, ct))
            ca.append(cn)
        if self.uses_fuel:
            hp.append("(fuel : Nat)")
            ca.append("fuel")
        for (a, t) in consts:
            hp.append("(%s : %s)" % (a, t))
            ca.append(a)
        call_args = "«ARGS» "
        outer_exit = self.loop_exit
        self.loop_exit = lambda: "pure %s" % tup
        self.checked = set()
        zero = self.branch(self.ctree(cond), 2, lambda i: ["  " * i + "hang"], lambda i: ["  " * i + "pure %s" % tup])
        self.checked = set()
        self.locals = self.locals[:nloc]
        tree = self.ctree(cond)

        def body_lines(i):
            return self.stmts(body_list, i, lambda j: ["  " * j + "%s %slf %s" % (fname, call_args, " ".join(vs))])
        succ = self.branch(tree, 2, body_lines, lambda i: ["  " * i + "pure %s" % tup])
        self.locals = self.locals[:nloc]
        self.loop_exit = outer_exit
        self.checked = set()
        # parameters the loop does not mention are dropped
        import re as _re
        used = set(_re.findall(r"[A-Za-z_«»][A-Za-z0-9_«»']*", "\n".join(zero + succ)))
        keep = [i for i, c in enumerate(ca) if c in used]
        hp = [hp[i] for i in keep]
        ca = [ca[i] for i in keep]
        call_args = "".join(c + " " for c in ca)
        zero = [l.replace("«ARGS» ", call_args) for l in zero]
        succ = [l.replace("«ARGS» ", call_args) for l in succ]
        pi = "{π : Type} " if (self.visit and lname(self.visit) in ca) or self.ptype == "π" else ""
        d = ["def %s %s%s : Nat → %s → LR (%s)" % (fname, pi, " ".join(hp), " → ".join(ts), rty),
             "  | 0, %s => do" % ", ".join(vs)] + zero + ["  | lf + 1, %s => do" % ", ".join(vs)] + succ
        self.prelude.append("\n".join(d) + "\n")
        self.tmp += 1
        r = "l%d" % self.tmp
        out.append(pad + "let %s ← %s %slf %s" % (r, fname, call_args, " ".join(vs)))
        for i, v in enumerate(vs):
            proj = ".2" * i + (".1" if i < len(vs) - 1 else "")
            out.append(pad + "let %s := %s%s" % (v, r, proj))
        return out + self.stmts(rest, ind, k)

    # ------------------------------------------------------------------ whole function
    def render(self):
        self.locals = list(self.mut_params)
        self.checked = set()
        self.loop_exit = None
        self.closure_env = {}
        if self.kind == "visit":
            self.alias[self.pvar] = "p"
        top = []
        rp = self.opts.get("ret_priv")
        if rp:
            pr = None
            for x in walk(self.body):
                if x.get("kind") == "VarDecl" and x.get("name") == rp:
                    pr = self.priv_of(x)
            if pr is None:
                raise Unsupported("private structure %s not found" % rp)
            self.vars[rp] = PRIV2[pr]["type"]
            self.vkind[rp] = "priv"
            self.locals.append(rp)
            top.append("  let %s : %s := %s" % (lname(rp), PRIV2[pr]["type"], PRIV2[pr]["init"]))
        default = "0" if self.ret != "void" else None
        body = top + self.stmts(self.body.get("inner", []), 1, lambda i: ["  " * i + self.result(default)])
        ps = []
        if self.uses_hf:
            ps.append("(hf : HashId → Nat → Nat → Nat)")
        if self.uses_oracle:
            ps.append("(oracle : Nat → Bool)")
        if self.kind == "foreach":
            ps.append("{π : Type} (%s : LS → π → Nat → LR (LS × π × Int))" % lname(self.visit))
        for (cn, ct) in self.closure:
            ps.append("(%s : %s)" % (cn, ct))
        if self.uses_fuel:
            ps.append("(fuel : Nat)")
        if self.uses_lf:
            ps.append("(lf : Nat)")
        ps.append("(s : LS)")
        if self.kind == "visit":
            ps.append("(p : %s)" % self.ptype)
        ps += ["(%s : %s)" % a for a in self.args]
        if self.kind == "foreach":
            ps.append("(%s : π)" % self.lvar(self.pvar))
        vt = self.opts.get("ret_type") or ("Int" if self.ret.replace("const", "").strip() == "int" else "Nat")
        rpt = self.vars.get(rp) if rp else None
        if self.kind == "value":
            rty = "LR (%s)" % vt if " " in vt else "LR %s" % vt
        elif self.kind == "state":
            rty = "LR (LS × %s)" % rpt if rp else "LR LS"
        elif self.kind == "stateval":
            rty = "LR (LS × %s × %s)" % (rpt, vt) if rp else "LR (LS × %s)" % vt
        else:
            rty = "LR (LS × %s × Int)" % self.ptype
        return "".join(p + "\n" for p in self.prelude) + "def %s %s : %s := do\n%s\n" % (
            self.lean_name(), " ".join(ps), rty, "\n".join(body))


def translate_swap(decl):
    """`cstl_hash_swap(a, b)`: `cstl_swap(a, b, &t, sizeof(t))` on the two table structures"""
    ps = [p for p in decl["inner"] if p["kind"] == "ParmVarDecl"]
    body = [c for c in decl["inner"] if c["kind"] == "CompoundStmt"][0]
    if len(ps) != 2 or not all("struct cstl_hash *" in qt(p) for p in ps):
        raise Unsupported("parameters of cstl_hash_swap")
    h = HFn.__new__(HFn)
    st = [x for x in body.get("inner", []) if x["kind"] not in ("NullStmt",)]
    if len(st) != 2 or st[0]["kind"] != "DeclStmt" or qt(st[0]["inner"][0]).strip() != "struct cstl_hash":
        raise Unsupported("body of cstl_hash_swap")
    t = st[0]["inner"][0]["name"]
    ce = h.strip(st[1])
    if ce["kind"] != "CallExpr" or h.strip(ce["inner"][0]).get("referencedDecl", {}).get("name") != "cstl_swap":
        raise Unsupported("body of cstl_hash_swap")
    a = [h.strip(x) for x in ce["inner"][1:]]
    names = [x.get("referencedDecl", {}).get("name") if x["kind"] == "DeclRefExpr" else None for x in a[:2]]
    if sorted(n or "" for n in names) != sorted(p["name"] for p in ps):
        raise Unsupported("cstl_swap arguments")
    tmp_ok = a[2]["kind"] == "UnaryOperator" and a[2]["opcode"] == "&" \
        and h.strip(a[2]["inner"][0]).get("referencedDecl", {}).get("name") == t
    sz = a[3]
    sz_ok = sz["kind"] == "UnaryExprOrTypeTraitExpr" and sz.get("name") == "sizeof" and (
        (sz.get("argType", {}).get("qualType", "").strip() == "struct cstl_hash")
        or (sz.get("inner") and qt(h.strip(sz["inner"][0])).strip() == "struct cstl_hash"))
    if not (tmp_ok and sz_ok):
        raise Unsupported("cstl_swap scratch / size arguments")
    x, y = names
    return ("-- cstl_swap(x, y, &t, sizeof(t)) exchanges the sizeof(struct cstl_hash) bytes of the two tables\n"
            "def c_cstl_hash_swap (%s %s : LT) : LT × LT :=\n  let %s := %s\n  let %s := %s\n  let %s := %s\n  (%s, %s)\n"
            % (ps[0]["name"], ps[1]["name"], t, x, x, y, y, t, ps[0]["name"], ps[1]["name"]))


def translate_hash2(repo):
    decls, bsz = clang_tu(repo)
    known, chunks, report = {}, [], {}

    def run(name, make):
        if name not in decls:
            report[name] = "not found in source"
            return
        try:
            f = make(decls[name])
            txt = f.render()
            known[name] = f
            chunks.append(txt)
            report[name] = "translated"
        except Unsupported as e:
            report[name] = "not translated: %s" % e
        except (KeyError, IndexError, TypeError, AttributeError, ValueError) as e:
            report[name] = "not translated: unexpected AST shape (%s: %s)" % (type(e).__name__, e)
    for name, kind in BASE:
        def mk(d, kind=kind):
            f = HFn(d, kind, known)
            f.uses_lf = False
            f.uses_oracle = False
            f.opts_skip = lambda: set()
            return f
        run(name, mk)
    for name, kind, opts in NEW:
        run(name, lambda d, kind=kind, opts=opts: HFn2(d, kind, known, opts, bsz))
    if "cstl_hash_swap" in decls:
        try:
            chunks.append(translate_swap(decls["cstl_hash_swap"]))
            report["cstl_hash_swap"] = "translated"
        except Unsupported as e:
            report["cstl_hash_swap"] = "not translated: %s" % e
        except (KeyError, IndexError, TypeError, AttributeError, ValueError) as e:
            report["cstl_hash_swap"] = "not translated: unexpected AST shape (%s: %s)" % (type(e).__name__, e)
    else:
        report["cstl_hash_swap"] = "not found in source"
    out = ("-- GENERATED by tools/c2lean_hash2.py from /repo's src/hash.c and include/cstl/hash.h on every check run; "
           "do not edit.\n" + HEADER + "set_option linter.unusedVariables false\n" + "namespace Cstl.Gen.%s\n" % MODULE
           + OPENS + "\n" + "/-- `sizeof(struct cstl_hash_bucket)` as clang lays it out -/\ndef sizeof_bucket : Nat := %d\n\n" % bsz
           + "\n".join(chunks) + "\nend Cstl.Gen.%s\n" % MODULE)
    return out, report


ORDER = [n for n, _ in BASE] + [n for n, _, _ in NEW] + ["cstl_hash_swap"]

# make the area known to tools/c2lean.py's `translate` (used by vlib.translator_tie) without editing that file
c2lean.AREAS["hashl2"] = dict(src="hash.c + include/cstl/hash.h", module=MODULE, custom=translate_hash2,
                              order=ORDER, header=HEADER, opens=OPENS)


if __name__ == "__main__":
    repo_ = sys.argv[1] if len(sys.argv) > 1 else "/repo"
    txt_, rep_ = translate_hash2(repo_)
    sys.stdout.write(txt_)
    for k_, v_ in rep_.items():
        sys.stderr.write("%s: %s\n" % (k_, v_))
