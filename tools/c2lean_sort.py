#!/usr/bin/env python3
"""
Translator for the raw-array algorithms of src/array.c (everything above the `cstl_array_*`
views)  ->  Lean 4, in the vocabulary of lean/Cstl/Sort/Model.lean (+ lean/Cstl/Sort/CSem.lean).
Uses the AST reader and the type helpers of tools/c2lean.py / c2lean_heap.py (imported, not edited).

  python3 tools/c2lean_sort.py [repo]      prints the generated module Cstl.Gen.SortC

lean/Cstl/Sort/Tie.lean (hand-written, fixed) ties the hand-written model of property C11 to these
translations; the kernel re-checks the ties against the regenerated module on every check run
(tools/areas/sortmap_tie.py, tie_run(chk, "sort")).

What is translated, and how.  Every function becomes ONE Lean term in the monad `R = Except Stop`
of the model, statement by statement, in `do` notation; the state `s : St` (array, scratch cell,
draw stream, callback log) is threaded through, every C assignment shadows the variable it assigns:

  (char *)arr + i * size                     the body of `__cstl_raw_array_at` is CHECKED to be exactly
                                             `(void *)((uintptr_t)arr + (at * size))`; a call
                                             `__cstl_raw_array_at(arr, size, e)` is then the element
                                             pointer `Ptr.el e` (an INDEX relative to the function's own
                                             `arr`, whose position in the global array is the Lean
                                             parameter `lo`); `arr` itself is `Ptr.el 0`; NULL is
                                             `Ptr.null`; `p == q` / `p != q` on pointers is (in)equality of
                                             `Ptr`s; `size` may only be handed on (to `at`, `swap`, callees)
  cmp(a, b, priv)                            `cmpP s lo count a b` — the model's logged, bounds-checked
                                             comparison `cmpAt` on the indices (CSem.cmpP_el); with the
                                             sought element `ex` first: `cmpProbeP s lo count ex b`
  swap(a, b, t, size)                        `swapP s lo count a b` — the model's logged `swapAt`
  rand()                                     `draw s` — the model's draw stream
  callee(arr' , count', size, …)             the translated callee on `lo' = lo + index of arr'`; `cmp`,
                                             `priv`, `swap`, `t`/`tmp`, `size` must be handed on unchanged
  size_t                                     `Nat`; `+ - *` and `++ --` are `uadd usub umul` (wrap at 2^64
                                             written out), `/ %` and comparisons are the `Nat` ones
  int, ssize_t                               `Int`; `+ - *`, `++ --` are checked: `i32 (a + b)` resp.
                                             `i64 …` (signed overflow = `Stop.ovf`); `/` is `Int.tdiv`
  integer conversions                        constants are folded; otherwise `castU64`, `castI32`, `castI64`
  enum constants                             their values (read from the EnumDecl)
  a && b with a callback call in b           a `Bool` computed by a conditional block (b is evaluated only
                                             when a holds)
  if without return                          `let (assigned vars) ← (if c then do … pure (vars) else …)`
                                             (plain `let … := if …` when the branches have no effects)
  if / loop with a `return` inside           continuation style: the rest of the function is the tail of
                                             both branches, resp. of the loop's exit branch
  while / for / do-while                     an auxiliary definition by recursion on a fuel argument
                                             (`.error .fuel` at 0) over the tuple of variables the loop
                                             assigns; loop number k of the MODULE (numbered in order of
                                             definition) runs on `fu k count` where `count` is the `count`
                                             argument of the enclosing function
  switch                                     an if-chain over the case groups (every group must end in
                                             `break`)
  a function that calls itself               recursion on a call-depth budget `rf` (`.error .fuel` at 0);
                                             callees that take a budget get the caller's remaining one

Anything else raises c2lean.Unsupported and the function is reported as not translated.

Conventions that are trusted (DESIGN 7): the reading of the clang AST; pointer = base + index * size
with `size ≥ 1`; the callbacks are the harness's (`cmp` compares keys and logs, `swap` is
`cstl_swap`); a non-`arr` pointer parameter of an exported function is an object outside the array
(`ex`), of a static function an element pointer of the same array (checked at every call site).
"""
import json
import os
import re
import subprocess
import sys

sys.path.insert(0, os.path.dirname(os.path.abspath(__file__)))
import c2lean  # noqa: E402
from c2lean import Unsupported  # noqa: E402
from c2lean_heap import is_signed, width  # noqa: E402

MODULE = "SortC"
HEADER = "import Cstl.Sort.CSem\n"
OPENS = "open Cstl.Sort Cstl.Sort.CSem\n"
ORDER = ["cstl_raw_array_reverse", "cstl_raw_array_search", "cstl_raw_array_find", "cstl_raw_array_qsort_p",
         "cstl_raw_array_qsort", "cstl_raw_array_hsort_b", "cstl_raw_array_hsort", "cstl_raw_array_sort"]
AT_FN = "__cstl_raw_array_at"
RESERVED = {"s", "lo", "fu", "rf", "fuel", "pure", "none", "some", "if", "then", "else", "let", "do", "match",
            "with", "fun", "R", "St", "Ptr", "Elem"} | c2lean.KEYWORDS
LEAN_TY = {"st": "St", "nat": "Nat", "int": "Int", "long": "Int", "ptr": "Ptr", "probe": "Elem"}
U64 = 2 ** 64


def ctype(n):
    t = n.get("type", {})
    t = t.get("desugaredQualType") or t.get("qualType") or ""
    return re.sub(r"\s+", " ", re.sub(r"\bconst\b", "", t)).replace("* ", "*").strip()


def kind_of_type(t):
    if t == "unsigned long":
        return "nat"
    if t in ("unsigned int", "cstl_sort_algorithm_t") or t.startswith("enum "):
        return "nat"
    if t == "int":
        return "int"
    if t == "long":
        return "long"
    if t in ("void *", "char *", "unsigned char *"):
        return "ptr"
    return None


def parse_tu(repo, src):
    cmd = ["clang-14", "-std=c99", "-DNDEBUG", "-D_POSIX_C_SOURCE=199309L",
           "-I", os.path.join(repo, "include"), "-fsyntax-only",
           "-Xclang", "-ast-dump=json", os.path.join(repo, "src", src)]
    r = subprocess.run(cmd, stdout=subprocess.PIPE, stderr=subprocess.PIPE, universal_newlines=True)
    if r.returncode != 0:
        raise Unsupported("clang failed on %s: %s" % (src, r.stderr[-500:]))
    tu = json.loads(r.stdout)
    fns, enums = {}, {}
    for d in tu.get("inner", []):
        if d.get("kind") == "FunctionDecl" and any(c.get("kind") == "CompoundStmt" for c in d.get("inner", [])):
            fns[d["name"]] = d
        if d.get("kind") == "EnumDecl":
            nxt = 0
            for c in d.get("inner", []):
                if c.get("kind") != "EnumConstantDecl":
                    continue
                v = None
                for x in c.get("inner", []):
                    if x.get("kind") == "ConstantExpr" and "value" in x:
                        v = int(x["value"])
                    elif x.get("kind") == "IntegerLiteral":
                        v = int(x["value"])
                if v is None:
                    v = nxt
                enums[c["name"]] = v
                nxt = v + 1
    return fns, enums


def skip(e, kinds=("ImplicitCastExpr", "ParenExpr", "CStyleCastExpr", "ConstantExpr")):
    while e.get("kind") in kinds and e.get("castKind") not in ("IntegralCast", "NullToPointer"):
        e = e["inner"][0]
    return e


def check_at_helper(decl):
    """`__cstl_raw_array_at(arr, size, at)` must be `return (void *)((uintptr_t)arr + (at * size));`"""
    ps = [p["name"] for p in decl["inner"] if p["kind"] == "ParmVarDecl"]
    body = [c for c in decl["inner"] if c["kind"] == "CompoundStmt"][0].get("inner", [])
    if len(ps) != 3 or len(body) != 1 or body[0]["kind"] != "ReturnStmt":
        raise Unsupported("%s: unexpected shape" % AT_FN)
    e = skip(body[0]["inner"][0])
    if e.get("kind") != "BinaryOperator" or e.get("opcode") != "+":
        raise Unsupported("%s: not base + offset" % AT_FN)
    a, b = skip(e["inner"][0]), skip(e["inner"][1])
    if a.get("kind") != "DeclRefExpr" or a["referencedDecl"]["name"] != ps[0]:
        raise Unsupported("%s: base is not the array argument" % AT_FN)
    if b.get("kind") != "BinaryOperator" or b.get("opcode") != "*":
        raise Unsupported("%s: offset is not index * size" % AT_FN)
    fs = sorted(skip(x).get("referencedDecl", {}).get("name", "?") for x in b["inner"])
    if fs != sorted(ps[1:]):
        raise Unsupported("%s: offset is not index * size" % AT_FN)
    return {"arr": 0, "size": 1, "at": 2}


def atom(s):
    s = str(s)
    if re.match(r"^[A-Za-z_«][A-Za-z0-9_.»«']*$", s) or s.isdigit() or (s.startswith("(") and s.endswith(")") and balanced(s)):
        return s
    return "(%s)" % s


def balanced(s):
    d = 0
    for i, ch in enumerate(s):
        if ch == "(":
            d += 1
        elif ch == ")":
            d -= 1
            if d == 0 and i != len(s) - 1:
                return False
    return d == 0


def lname(n):
    return "«%s»" % n if n in c2lean.KEYWORDS else (n + "_" if n in RESERVED else n)


class Sig:
    """interface of a translated function as seen by its callers"""

    def __init__(self, lean, roles, ret, takes_rf):
        self.lean, self.roles, self.ret, self.takes_rf = lean, roles, ret, takes_rf


class SFn:
    def __init__(self, decl, known, enums, loop_base):
        self.decl = decl
        self.name = decl["name"]
        self.known = known
        self.enums = enums
        self.loop_base = loop_base
        self.static = decl.get("storageClass") == "static"
        self.params = [p for p in decl["inner"] if p["kind"] == "ParmVarDecl"]
        self.body = [c for c in decl["inner"] if c["kind"] == "CompoundStmt"][0]
        self.lean = "c_" + self.name
        self.prelude = []
        self.nloops = 0
        self.tmp = 0
        self.pre = []                 # binding lines of the expression being translated
        self.assigned = set()         # lean names assigned since the last reset
        self.scope = {}               # lean name -> kind ('st' 'nat' 'int' 'long' 'ptr' 'probe')
        self.cname = {}               # C name -> lean name
        self.roles = []               # per parameter
        self.role_of = {}             # C parameter name -> role
        rt = ctype({"type": {"qualType": decl["type"]["qualType"].split("(")[0]}})
        if rt == "void":
            self.ret = None
        else:
            rk = {"size_t": "nat", "ssize_t": "long"}.get(rt, kind_of_type(rt))
            if rk not in ("nat", "int", "long"):
                raise Unsupported("return type %s" % rt)
            self.ret = rk
        self.classify()
        self.self_rec = any(x.get("kind") == "CallExpr" and self.callee(x) == self.name for x in self.walk(self.body))
        self.takes_rf = self.self_rec or any(
            x.get("kind") == "CallExpr" and self.callee(x) in known and known[self.callee(x)].takes_rf
            for x in self.walk(self.body))

    # ---- AST helpers
    def walk(self, n):
        if isinstance(n, dict):
            yield n
            for c in n.get("inner", []):
                for x in self.walk(c):
                    yield x

    def callee(self, e):
        f = e["inner"][0]
        while f["kind"] in ("ImplicitCastExpr", "ParenExpr"):
            f = f["inner"][0]
        return f.get("referencedDecl", {}).get("name")

    def bare(self, e):
        """C name when `e` is (a cast of) a plain variable reference"""
        e = skip(e)
        if e.get("kind") == "DeclRefExpr":
            return e["referencedDecl"]["name"]
        return None

    def contains(self, n, kinds):
        return any(x.get("kind") in kinds for x in self.walk(n))

    # ---- parameter roles
    def classify(self):
        uses = {}
        for x in self.walk(self.body):
            if x.get("kind") != "CallExpr":
                continue
            fn = self.callee(x)
            args = x["inner"][1:]
            pos = None
            if fn in [p["name"] for p in self.params]:
                t = ctype([p for p in self.params if p["name"] == fn][0])
                if "cstl_compare_func_t" in t:
                    pos = ["elem", "elem", "priv"]
                elif "cstl_swap_func_t" in t:
                    pos = ["elem", "elem", "tmp", "esize"]
            elif fn in self.known:
                pos = self.known[fn].roles
            elif fn == self.name:
                pos = None      # resolved below (same roles)
            if pos:
                for a, r in zip(args, pos):
                    b = self.bare(a)
                    if b:
                        uses.setdefault(b, set()).add(r)
        first_ptr = True
        for p in self.params:
            t = ctype(p)
            n = p["name"]
            if "cstl_compare_func_t" in t:
                r = "cmp"
            elif "cstl_swap_func_t" in t:
                r = "swap"
            elif kind_of_type(t) == "ptr":
                u = uses.get(n, set())
                if first_ptr:
                    r = "arr"
                elif "priv" in u:
                    r = "priv"
                elif "tmp" in u:
                    r = "tmp"
                elif self.static:
                    r = "ptr"
                else:
                    r = "probe"
                first_ptr = False
            elif kind_of_type(t) == "nat":
                r = "esize" if ("esize" in uses.get(n, set()) or n == "size") else "nat"
            elif kind_of_type(t) in ("int", "long"):
                r = kind_of_type(t)
            else:
                raise Unsupported("parameter %s of type %s" % (n, t))
            self.roles.append(r)
            self.role_of[n] = r
        if self.roles.count("arr") != 1:
            raise Unsupported("no array parameter")

    # ---- names
    def declare(self, cname, kind):
        if cname in self.cname and self.cname[cname] in self.scope and not getattr(self, "dry", False):
            pass
        ln = lname(cname)
        self.cname[cname] = ln
        self.scope[ln] = kind
        return ln

    def fresh(self, base):
        self.tmp += 1
        return "%s%d" % (base, self.tmp)

    def count_name(self):
        return self.cname.get("count", "0") if "count" in self.role_of else "0"

    # ---- constants
    def const_value(self, e):
        k = e.get("kind")
        if k in ("ParenExpr", "ConstantExpr"):
            return self.const_value(e["inner"][0])
        if k in ("ImplicitCastExpr", "CStyleCastExpr"):
            if e.get("castKind") not in ("IntegralCast", "NoOp"):
                return None
            v = self.const_value(e["inner"][0])
            if v is None:
                return None
            t = ctype(e)
            if e.get("castKind") == "IntegralCast" and not is_signed(t) and width(t):
                return v % (2 ** width(t))
            return v
        if k == "IntegerLiteral":
            return int(e["value"])
        if k == "DeclRefExpr" and e["referencedDecl"].get("kind") == "EnumConstantDecl":
            n = e["referencedDecl"]["name"]
            if n not in self.enums:
                raise Unsupported("enum constant %s" % n)
            return self.enums[n]
        if k == "UnaryOperator" and e.get("opcode") == "-":
            v = self.const_value(e["inner"][0])
            return None if v is None else -v
        return None

    @staticmethod
    def lit(v):
        return str(v) if v >= 0 else "(%d)" % v

    # ---- expressions: -> (lean text, kind); bindings go to self.pre
    def effect(self):
        self.assigned.add("s")

    def expr(self, e):
        k = e.get("kind")
        if k in ("ParenExpr", "ConstantExpr"):
            return self.expr(e["inner"][0])
        if k in ("ImplicitCastExpr", "CStyleCastExpr"):
            ck = e.get("castKind")
            if ck == "NullToPointer":
                return ".null", "ptr"
            if ck in ("LValueToRValue", "NoOp", "BitCast", "FunctionToPointerDecay"):
                return self.expr(e["inner"][0])
            if ck == "IntegralCast":
                cv = self.const_value(e)
                dst = kind_of_type(ctype(e))
                if dst is None:
                    raise Unsupported("conversion to %s" % ctype(e))
                if cv is not None:
                    return self.lit(cv), dst
                txt, src = self.expr(e["inner"][0])
                st, dt = ctype(e["inner"][0]), ctype(e)
                if src == dst:
                    if src == "nat" and width(dt) and width(st) and width(dt) < width(st):
                        raise Unsupported("narrowing unsigned conversion")
                    return txt, dst
                if src == "nat" and dst == "int":
                    return "(castI32 %s)" % atom(txt), "int"
                if src == "nat" and dst == "long":
                    return "(castI64 %s)" % atom(txt), "long"
                if src in ("int", "long") and dst == "nat":
                    if dt != "unsigned long":
                        raise Unsupported("conversion of a signed value to %s" % dt)
                    return "(castU64 %s)" % atom(txt), "nat"
                if src == "int" and dst == "long":
                    return txt, "long"
                raise Unsupported("conversion %s -> %s" % (st, dt))
            raise Unsupported("cast %s" % ck)
        if k == "IntegerLiteral":
            return e["value"], kind_of_type(ctype(e)) or "int"
        if k == "LeanCond":
            return e["text"], "prop"
        if k == "DeclRefExpr":
            rd = e["referencedDecl"]
            if rd.get("kind") == "EnumConstantDecl":
                return self.lit(self.const_value(e)), "nat"
            n = rd["name"]
            r = self.role_of.get(n)
            if r == "arr":
                return "(.el 0)", "ptr"
            if r in ("cmp", "swap", "priv", "tmp", "esize"):
                raise Unsupported("`%s` used other than by handing it on" % n)
            if n not in self.cname:
                raise Unsupported("reference to %s" % n)
            ln = self.cname[n]
            return ln, self.scope[ln]
        if k == "UnaryOperator":
            op = e["opcode"]
            if op == "-":
                cv = self.const_value(e)
                if cv is not None:
                    return self.lit(cv), kind_of_type(ctype(e))
            if op in ("++", "--"):
                return self.incdec(e)
            if op == "!":
                t, kd = self.expr(e["inner"][0])
                if kd in ("prop", "bool"):
                    return "(¬ %s)" % self.as_prop(t, kd), "prop"
                if kd == "ptr":
                    return "(%s = .null)" % t, "prop"
                return "(%s = 0)" % t, "prop"
            raise Unsupported("unary operator %s" % op)
        if k == "BinaryOperator":
            return self.binop(e)
        if k == "CompoundAssignOperator":
            op = e["opcode"][:-1]
            lhs, rhs = e["inner"]
            cur, kd = self.expr(lhs)
            tr, _ = self.expr(rhs)
            val = self.arith(op, cur, tr, kd)
            return self.assign(lhs, val, kd)
        if k == "CallExpr":
            return self.call(e)
        raise Unsupported("expression kind %s" % k)

    def as_prop(self, t, kd):
        return "(%s = true)" % t if kd == "bool" else t

    def arith(self, op, a, b, kd):
        """value of `a op b` at kind kd (may add a checked binding to self.pre)"""
        if kd == "nat":
            if op in ("+", "-", "*"):
                return "(%s %s %s)" % ({"+": "uadd", "-": "usub", "*": "umul"}[op], atom(a), atom(b))
            if op in ("/", "%"):
                return "(%s %s %s)" % (a, op, b)
        if kd in ("int", "long"):
            chk = "i32" if kd == "int" else "i64"
            if op in ("+", "-", "*"):
                r = self.fresh("t")
                self.pre.append("let %s ← %s (%s %s %s)" % (r, chk, a, op, b))
                return r
            if op == "/":
                return "(Int.tdiv %s %s)" % (atom(a), atom(b))
            if op == "%":
                return "(Int.tmod %s %s)" % (atom(a), atom(b))
        raise Unsupported("operator %s on %s" % (op, kd))

    def expr_stmt(self, e):
        """an expression whose value is discarded"""
        x = e
        while x.get("kind") == "ParenExpr":
            x = x["inner"][0]
        if x.get("kind") == "UnaryOperator" and x.get("opcode") in ("++", "--"):
            self.incdec(x, want=False)
        elif x.get("kind") == "BinaryOperator" and x.get("opcode") == ",":
            self.expr_stmt(x["inner"][0])
            self.expr_stmt(x["inner"][1])
        else:
            self.expr(x)

    def incdec(self, e, want=True):
        op = e["opcode"]
        cur, kd = self.expr(e["inner"][0])
        if kd not in ("nat", "int", "long"):
            raise Unsupported("++/-- on %s" % kd)
        new = self.arith("+" if op == "++" else "-", cur, "1", kd)
        old = None
        if e.get("isPostfix") and want:
            old = self.fresh("o")
            self.pre.append("let %s : %s := %s" % (old, LEAN_TY[kd], cur))
        v, _ = self.assign(e["inner"][0], new, kd)
        return (old if old else v), kd

    def assign(self, lhs, txt, kd):
        n = self.bare(lhs)
        if n is None or n not in self.cname or self.role_of.get(n) in ("arr", "cmp", "swap", "priv", "tmp", "esize"):
            raise Unsupported("assignment target")
        ln = self.cname[n]
        if self.scope[ln] != kd:
            raise Unsupported("assignment of a %s to the %s `%s`" % (kd, self.scope[ln], n))
        self.pre.append("let %s : %s := %s" % (ln, LEAN_TY[kd], txt))
        self.assigned.add(ln)
        return ln, kd

    def binop(self, e):
        op = e["opcode"]
        a, b = e["inner"]
        if op == "=":
            txt, kd = self.expr(b)
            return self.assign(a, txt, kd)
        if op == ",":
            self.expr(a)
            return self.expr(b)
        if op in ("&&", "||"):
            ta, ka = self.expr(a)
            mark = len(self.pre)
            asg0 = set(self.assigned)
            self.assigned = set()
            tb, kb = self.expr(b)
            inner = self.pre[mark:]
            asg = sorted(self.assigned, key=lambda v: list(self.scope).index(v))
            self.assigned |= asg0
            pa, pb = self.as_prop(ta, ka), self.as_prop(tb, kb)
            if not inner:
                return "(%s %s %s)" % (pa, "∧" if op == "&&" else "∨", pb), "prop"
            # the right operand has effects: evaluate it only when the left one asks for it
            del self.pre[mark:]
            r = self.fresh("c")
            tup = ", ".join(asg + [r])
            tys = " × ".join([LEAN_TY[self.scope[v]] for v in asg] + ["Bool"])
            tupo = ", ".join(asg + ["true" if op == "||" else "false"])
            cond = pa if op == "&&" else "¬ %s" % atom(pa)
            self.pre.append("let (%s) ← (if %s then do" % (tup, cond))
            self.pre += ["    " + l for l in inner]
            self.pre.append("    pure (%s)" % ", ".join(asg + ["decide %s" % atom(pb)]))
            self.pre.append("  else pure (%s) : R (%s))" % (tupo, tys))
            return r, "bool"
        ta, ka = self.expr(a)
        tb, kb = self.expr(b)
        if op in ("==", "!=", "<", ">", "<=", ">="):
            if ka != kb and not ({ka, kb} <= {"int", "long"}):
                raise Unsupported("comparison of %s with %s" % (ka, kb))
            if ka == "ptr" and op not in ("==", "!="):
                raise Unsupported("ordering of pointers")
            return "(%s %s %s)" % (ta, {"==": "=", "!=": "≠", "<=": "≤", ">=": "≥"}.get(op, op), tb), "prop"
        kd = kind_of_type(ctype(e))
        if kd in ("nat", "int", "long") and ka == kb == kd:
            return self.arith(op, ta, tb, kd), kd
        raise Unsupported("binary operator %s on %s, %s" % (op, ka, kb))

    def arr_arg(self, a):
        """an argument in the `arr` position of a callee: the new `lo`, and whether it is the caller's own base"""
        b = self.bare(a)
        if b is not None and self.role_of.get(b) == "arr":
            return self.cname["@lo"], True
        x = skip(a)
        if x.get("kind") == "CallExpr" and self.callee(x) == AT_FN:
            t, _ = self.at_index(x)
            return "(%s + %s)" % (self.cname["@lo"], t), False
        raise Unsupported("array argument of a call")

    def at_index(self, x):
        args = x["inner"][1:]
        if len(args) != 3 or self.role_of.get(self.bare(args[0])) != "arr" or self.role_of.get(self.bare(args[1])) != "esize":
            raise Unsupported("%s not applied to (arr, size, index)" % AT_FN)
        t, kd = self.expr(args[2])
        if kd != "nat":
            raise Unsupported("index of kind %s" % kd)
        return t, kd

    def call(self, e):
        fn = self.callee(e)
        args = e["inner"][1:]
        lo, cnt = self.cname["@lo"], self.count_name()
        if fn == AT_FN:
            t, _ = self.at_index(e)
            return "(.el %s)" % atom(t), "ptr"
        if fn == "rand" and not args:
            r = self.fresh("r")
            self.pre.append("let (s, %s) := draw s" % r)
            self.effect()
            return "(Int.ofNat %s)" % r, "int"
        role = self.role_of.get(fn)
        if role == "cmp":
            if len(args) != 3 or self.role_of.get(self.bare(args[2])) != "priv":
                raise Unsupported("comparison callback not called as cmp(a, b, priv)")
            ta, ka = self.expr(args[0])
            tb, kb = self.expr(args[1])
            r = self.fresh("r")
            if ka == "probe" and kb == "ptr":
                self.pre.append("let (s, %s) ← cmpProbeP s %s %s %s %s" % (r, lo, cnt, ta, atom(tb)))
            elif ka == kb == "ptr":
                self.pre.append("let (s, %s) ← cmpP s %s %s %s %s" % (r, lo, cnt, atom(ta), atom(tb)))
            else:
                raise Unsupported("comparison callback on %s, %s" % (ka, kb))
            self.effect()
            return r, "int"
        if role == "swap":
            if len(args) != 4 or self.role_of.get(self.bare(args[2])) != "tmp" or self.role_of.get(self.bare(args[3])) != "esize":
                raise Unsupported("swap callback not called as swap(a, b, t, size)")
            ta, ka = self.expr(args[0])
            tb, kb = self.expr(args[1])
            if not (ka == kb == "ptr"):
                raise Unsupported("swap callback on %s, %s" % (ka, kb))
            self.pre.append("let s ← swapP s %s %s %s %s" % (lo, cnt, atom(ta), atom(tb)))
            self.effect()
            return None, None
        if fn == self.name:
            sig = Sig(self.lean, self.roles, self.ret, True)
        else:
            sig = self.known.get(fn)
        if sig is None:
            raise Unsupported("call to untranslated function %s" % fn)
        if len(args) != len(sig.roles):
            raise Unsupported("arity of %s" % fn)
        out = [sig.lean, "fu"] + (["rf"] if sig.takes_rf else []) + ["s"]
        same_base = True
        for a, r in zip(args, sig.roles):
            if r == "arr":
                t, same_base = self.arr_arg(a)
                out.append(atom(t))
            elif r in ("cmp", "swap", "priv", "tmp", "esize"):
                if self.role_of.get(self.bare(a)) != r:
                    raise Unsupported("argument `%s` of %s is not handed on unchanged" % (r, fn))
            elif r == "probe":
                t, kd = self.expr(a)
                if kd != "probe":
                    raise Unsupported("probe argument of %s" % fn)
                out.append(t)
            else:
                t, kd = self.expr(a)
                want = "ptr" if r == "ptr" else r
                if kd != want:
                    raise Unsupported("argument of kind %s where %s takes %s" % (kd, fn, want))
                if r == "ptr" and not same_base:
                    raise Unsupported("element pointer handed to %s together with a different base" % fn)
                out.append(atom(t))
        self.effect()
        if sig.ret is None:
            self.pre.append("let s ← %s" % " ".join(out))
            return None, None
        r = self.fresh("r")
        self.pre.append("let (s, %s) ← %s" % (r, " ".join(out)))
        return r, sig.ret

    # ---- statements
    def flush(self):
        p, self.pre = self.pre, []
        return p

    def snapshot(self):
        return (self.tmp, len(self.prelude), self.nloops, dict(self.scope), dict(self.cname), set(self.assigned))

    def restore(self, sn):
        self.tmp, npre, self.nloops, self.scope, self.cname, self.assigned = sn[0], sn[1], sn[2], dict(sn[3]), dict(sn[4]), set(sn[5])
        del self.prelude[npre:]

    def tuple_of(self, vs):
        return "(%s)" % ", ".join(vs) if len(vs) != 1 else vs[0]

    def types_of(self, vs):
        return " × ".join(LEAN_TY[self.scope[v]] for v in vs) if vs else "Unit"

    def final(self, value=None):
        if self.ret is None:
            return ["pure s"]
        if value is None:
            raise Unsupported("control reaches the end of a non-void function")
        return ["pure (s, %s)" % value]

    def probe_assigned(self, gen):
        """variables of the current scope that `gen()` assigns (dry run)"""
        sn = self.snapshot()
        outer = list(self.scope)
        self.assigned = set()
        self.dry = True
        try:
            gen()
            asg = [v for v in outer if v in self.assigned]
        finally:
            self.dry = False
            self.restore(sn)
        return asg

    @staticmethod
    def ind(lines, n=1):
        return ["  " * n + l for l in lines]

    def flatten(self, stmts):
        out = []
        for s in stmts:
            if s.get("kind") == "CompoundStmt":
                out += self.flatten(s.get("inner", []))
            elif s.get("kind"):
                out.append(s)
        return out

    def block(self, stmts, kont):
        """lines of `stmts` followed by `kont()` (the lines of whatever comes after them)"""
        stmts = self.flatten(stmts)
        if not stmts:
            return kont()
        s, rest = stmts[0], stmts[1:]
        k = s["kind"]

        def then_rest():
            return self.block(rest, kont)
        if k == "NullStmt" or (k == "CStyleCastExpr" and ctype(s) == "void"):
            return then_rest()
        if k == "DeclStmt":
            lines = []
            for v in s["inner"]:
                if v["kind"] != "VarDecl":
                    raise Unsupported("declaration")
                kd = kind_of_type(ctype(v))
                if kd is None:
                    raise Unsupported("variable %s of type %s" % (v["name"], ctype(v)))
                if "inner" in v and v["inner"] and v["inner"][-1].get("kind", "").endswith(("Expr", "Operator", "Literal")):
                    txt, ke = self.expr(v["inner"][-1])
                    if ke != kd:
                        raise Unsupported("initialiser of kind %s for the %s `%s`" % (ke, kd, v["name"]))
                else:
                    txt = ".null" if kd == "ptr" else "0"       # uninitialised
                lines += self.flush()
                ln = self.declare(v["name"], kd)
                lines.append("let %s : %s := %s" % (ln, LEAN_TY[kd], txt))
            return lines + then_rest()
        if k == "ReturnStmt":
            if s.get("inner"):
                txt, kd = self.expr(s["inner"][0])
                if kd != self.ret and not (kd == "int" and self.ret == "long"):
                    raise Unsupported("return of kind %s" % kd)
                return self.flush() + self.final(txt)
            return self.final(None)
        if k == "IfStmt":
            return self.if_stmt(s, rest, kont)
        if k == "SwitchStmt":
            return self.block([self.switch_to_if(s)] + rest, kont)
        if k in ("WhileStmt", "ForStmt", "DoStmt"):
            return self.loop(s, rest, kont)
        if k in ("BinaryOperator", "UnaryOperator", "CompoundAssignOperator", "CallExpr", "ParenExpr"):
            self.expr_stmt(s)
            return self.flush() + then_rest()
        if k == "BreakStmt":
            raise Unsupported("break outside a switch group")
        raise Unsupported("statement kind %s" % k)

    def switch_to_if(self, s):
        cond, body = s["inner"][0], s["inner"][1]
        c0 = cond
        while c0.get("kind") in ("ImplicitCastExpr", "ParenExpr"):
            c0 = c0["inner"][0]
        b = c0["referencedDecl"]["name"] if c0.get("kind") == "DeclRefExpr" else None
        if b is None or b not in self.cname or self.scope[self.cname[b]] != "nat":
            raise Unsupported("switch on an expression")
        var = self.cname[b]
        groups, cur_labels, cur = [], [], []
        items = list(body.get("inner", []))

        def unlabel(st):
            labels = []
            while st.get("kind") in ("CaseStmt", "DefaultStmt"):
                if st["kind"] == "CaseStmt":
                    v = self.const_value(st["inner"][0])
                    if v is None:
                        raise Unsupported("case label")
                    labels.append(v)
                    st = st["inner"][-1]
                else:
                    labels.append("default")
                    st = st["inner"][-1]
            return labels, st
        for st in items:
            labels, inner = unlabel(st)
            if labels:
                if cur:
                    raise Unsupported("switch group without break")
                cur_labels += labels
            if inner.get("kind") == "BreakStmt":
                groups.append((cur_labels, cur))
                cur_labels, cur = [], []
            else:
                if self.contains(inner, ("BreakStmt",)):
                    raise Unsupported("nested break")
                cur.append(inner)
        if cur or cur_labels:
            raise Unsupported("switch group without break")
        default = [g for g in groups if "default" in g[0]]
        cases = [g for g in groups if "default" not in g[0]]
        if len(default) > 1 or any(len(g[0]) > 1 for g in default):
            raise Unsupported("default shared with case labels")
        node = {"kind": "CompoundStmt", "inner": default[0][1]} if default else None
        for labels, stmts in reversed(cases):
            txt = " ∨ ".join("%s = %s" % (var, self.lit(v)) for v in labels)
            node = {"kind": "IfStmt", "inner": [{"kind": "LeanCond", "text": "(%s)" % txt},
                                               {"kind": "CompoundStmt", "inner": stmts}] + ([node] if node else [])}
        return node

    def if_stmt(self, s, rest, kont):
        parts = s["inner"]
        cond, then = parts[0], parts[1]
        els = parts[2] if len(parts) > 2 else None
        ct, ck = self.expr(cond)
        lines = self.flush()
        c = self.as_prop(ct, ck) if ck in ("prop", "bool") else ("(%s ≠ .null)" % ct if ck == "ptr" else "(%s ≠ 0)" % ct)
        if self.contains(s, ("ReturnStmt",)):
            # continuation style: both branches run on into the rest of the function
            sn = (dict(self.scope), dict(self.cname))
            lt = self.block([then] + rest, kont)
            self.scope, self.cname = dict(sn[0]), dict(sn[1])
            le = self.block(([els] if els else []) + rest, kont)
            self.scope, self.cname = sn
            return lines + ["if %s then do" % c] + self.ind(lt) + ["else do"] + self.ind(le)
        asg = self.probe_assigned(lambda: (self.block([then], lambda: []), self.block([els] if els else [], lambda: [])))
        tup = self.tuple_of(asg)

        def branch(b):
            sn = (dict(self.scope), dict(self.cname))
            ls = self.block([b] if b else [], lambda: [])
            self.scope, self.cname = sn
            return ls
        lt, le = branch(then), branch(els)
        self.assigned |= set(asg)
        if not asg:
            if lt or le:
                raise Unsupported("branch with effects on no variable")
            return lines + self.block(rest, kont)
        monadic = any("←" in l for l in lt + le)
        if monadic:
            lines.append("let %s ← (if %s then do" % (tup, c))
            lines += self.ind(lt, 2) + ["    pure %s" % tup, "  else do"] + self.ind(le, 2)
            lines.append("    pure %s : R (%s))" % (tup, self.types_of(asg)))
        else:
            ty = self.types_of(asg)
            lines.append("let %s : %s := if %s then (" % (tup, ty, c) if len(asg) == 1 else "let %s := if %s then (" % (tup, c))
            lines += self.ind(lt, 2) + ["    %s)" % tup, "  else ("] + self.ind(le, 2) + ["    %s)" % tup]
        return lines + self.block(rest, kont)

    def loop(self, s, rest, kont):
        k = s["kind"]
        if k == "ForStmt":
            init, _, cond, incr, body = s["inner"]
            if init and init.get("kind"):
                return self.block([init, {"kind": "ForStmt", "inner": [{}, {}, cond, incr, body]}] + rest, kont)
            incr = [incr] if incr and incr.get("kind") else []
            if not (cond and cond.get("kind")):
                raise Unsupported("for without a condition")
        elif k == "WhileStmt":
            cond, body = s["inner"]
            incr = []
        else:
            body, cond = s["inner"]
            incr = []
        if self.contains(body, ("BreakStmt", "ContinueStmt", "GotoStmt")):
            raise Unsupported("break / continue in a loop")
        cps = self.contains(body, ("ReturnStmt",))
        is_do = k == "DoStmt"

        def cond_lines():
            ct, ck = self.expr(cond)
            ls = self.flush()
            c = self.as_prop(ct, ck) if ck in ("prop", "bool") else ("(%s ≠ .null)" % ct if ck == "ptr" else "(%s ≠ 0)" % ct)
            return ls, c

        def iteration(rec, done):
            """lines of one iteration at loop head; `rec()` = lines of the recursive call, `done()` = exit lines"""
            sn = (dict(self.scope), dict(self.cname))
            try:
                if is_do:
                    def tail():
                        ls, c = cond_lines()
                        return ls + ["if %s then" % c] + self.ind(rec()) + ["else"] + self.ind(done())
                    return self.block([body], tail)
                ls, c = cond_lines()
                inner = self.block([body] + incr, rec)
                return ls + ["if %s then do" % c] + self.ind(inner) + ["else do" if cps else "else"] + self.ind(done())
            finally:
                self.scope, self.cname = sn
        state = self.probe_assigned(lambda: iteration(lambda: [], lambda: []))
        if not state:
            raise Unsupported("loop without state")
        tup = self.tuple_of(state)
        # generate once with placeholders to learn which outer variables are read
        sn = self.snapshot()
        self.dry = True
        try:
            text = "\n".join(iteration(lambda: [], (lambda: self.block(rest, kont)) if cps else (lambda: [])))
        finally:
            self.dry = False
            self.restore(sn)
        toks = set(re.findall(r"[A-Za-z_«][A-Za-z0-9_»']*", text))
        consts = [v for v in self.scope if v not in state and v in toks]
        outer_scope = dict(self.scope)
        lp_holder = {}

        def rec():
            return ["%s fu %s" % (lp_holder["name"], " ".join((["rf"] if lp_holder["rf"] else []) + consts + ["fuel"] + state))]
        # does the loop (or, in continuation style, the rest) need the call-depth budget?
        uses_rf = "rf" in toks
        lp_holder["rf"] = uses_rf
        # the auxiliary definition is numbered when it is emitted: inner loops first
        lp_holder["name"] = "@LOOP@"
        if cps:
            lines_it = iteration(rec, lambda: self.block(rest, kont))
            rty = "St" if self.ret is None else "St × %s" % LEAN_TY[self.ret]
        else:
            lines_it = iteration(rec, lambda: ["pure %s" % tup])
            rty = " × ".join(LEAN_TY[outer_scope[v]] for v in state)
        self.nloops += 1
        number = self.loop_base + self.nloops - 1
        name = "%s_loop%d" % (self.lean, self.nloops)
        lines_it = [l.replace("@LOOP@", name) for l in lines_it]
        cpar = "".join(" (%s : %s)" % (c, LEAN_TY[outer_scope[c]]) for c in consts)
        hdr = "def %s (fu : Nat → Nat → Nat)%s%s : Nat → %s → R (%s)" % (
            name, " (rf : Nat)" if uses_rf else "", cpar, " → ".join(LEAN_TY[outer_scope[v]] for v in state), rty)
        d = ["/-- loop %d of the module (runs on `fu %d count`): the %s of `%s` -/" % (
            number, number, {"WhileStmt": "while", "ForStmt": "for", "DoStmt": "do/while"}[k], self.name),
             hdr, "  | 0, %s => .error .fuel" % ", ".join("_" for _ in state),
             "  | fuel + 1, %s => do" % ", ".join(state)] + self.ind(lines_it, 2)
        if not getattr(self, "dry", False):
            self.prelude.append("\n".join(d) + "\n")
        call = "%s fu %s" % (name, " ".join((["rf"] if uses_rf else []) + consts + ["(fu %d %s)" % (number, self.count_name())] + state))
        self.assigned |= set(state)
        if cps:
            return [call]
        return ["let %s ← %s" % (tup, call)] + self.block(rest, kont)

    # ---- whole function
    def render(self):
        self.scope = {"s": "st", "lo": "nat"}
        self.cname = {"@lo": "lo"}
        pars = [("s", "St"), ("lo", "Nat")]
        for p, r in zip(self.params, self.roles):
            if r in ("nat", "int", "long", "ptr", "probe"):
                ln = self.declare(p["name"], r)
                pars.append((ln, LEAN_TY[r]))
        body = self.block(self.body.get("inner", []), lambda: self.final(None))
        rty = "R St" if self.ret is None else "R (St × %s)" % LEAN_TY[self.ret]
        doc = "/-- `%s` -/\n" % self.name
        if self.self_rec:
            hdr = "def %s (fu : Nat → Nat → Nat) : Nat → %s → %s" % (self.lean, " → ".join(t for _, t in pars), rty)
            lines = [hdr, "  | 0, %s => .error .fuel" % ", ".join("_" for _ in pars),
                     "  | rf + 1, %s => do" % ", ".join(n for n, _ in pars)] + self.ind(body, 2)
        else:
            hdr = "def %s (fu : Nat → Nat → Nat)%s%s : %s := do" % (
                self.lean, " (rf : Nat)" if self.takes_rf else "", "".join(" (%s : %s)" % p for p in pars), rty)
            lines = [hdr] + self.ind(body, 1)
        return "".join(p + "\n" for p in self.prelude) + doc + "\n".join(lines) + "\n"

    def sig(self):
        return Sig(self.lean, self.roles, self.ret, self.takes_rf)


def translate(repo):
    """-> (text of lean/Cstl/Gen/SortC.lean, report {function: status})"""
    fns, enums = parse_tu(repo, "array.c")
    report = {}
    chunks = []
    known = {}
    nloops = 0
    try:
        if AT_FN not in fns:
            raise Unsupported("%s not found" % AT_FN)
        check_at_helper(fns[AT_FN])
        report[AT_FN] = "translated (checked: base + index * size; calls become element indices)"
        at_ok = True
    except Unsupported as e:
        report[AT_FN] = "not translated: %s" % e
        at_ok = False
    for name in ORDER:
        if name not in fns:
            report[name] = "not found in source"
            continue
        if not at_ok:
            report[name] = "not translated: element addressing helper not recognised"
            continue
        try:
            f = SFn(fns[name], known, enums, nloops)
            txt = f.render()
            known[name] = f.sig()
            nloops += f.nloops
            chunks.append(txt)
            report[name] = "translated" + (" (%d loop%s)" % (f.nloops, "" if f.nloops == 1 else "s") if f.nloops else "") \
                + (" (recursion on a call-depth budget)" if f.self_rec else "")
        except Unsupported as e:
            report[name] = "not translated: %s" % e
    out = ("-- GENERATED by tools/c2lean_sort.py from /repo's src/array.c on every check run; do not edit.\n"
           + HEADER + "set_option linter.unusedVariables false\n" + "namespace Cstl.Gen.%s\n" % MODULE + OPENS + "\n"
           + "\n".join(chunks) + "\nend Cstl.Gen.%s\n" % MODULE)
    return out, report


c2lean.AREAS["sortc"] = dict(src="array.c", module=MODULE, custom=translate)


if __name__ == "__main__":
    repo = sys.argv[1] if len(sys.argv) > 1 else os.environ.get("VERIF_REPO", "/repo")
    txt, rep = translate(repo)
    sys.stdout.write(txt)
    for k, v in rep.items():
        sys.stderr.write("%s: %s\n" % (k, v))
