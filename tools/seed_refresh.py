#!/usr/bin/env python3
"""Re-run the property check against seeded changes and refresh the verif_* fields of their meta.json.

usage: tools/seed_refresh.py [--prop Cnn] <seed id> ...      (no ids = all seeds)
Each seed is applied to a scratch copy of /repo (removed afterwards); /repo itself is never touched."""
import json
import os
import re
import shutil
import subprocess
import sys
import tempfile
from concurrent.futures import ThreadPoolExecutor

HERE = os.path.dirname(os.path.abspath(__file__))
VERIF = os.path.dirname(HERE)


def one(sid, prop_override=None, tier="quick"):
    sdir = os.path.join(VERIF, "seeded", sid)
    meta = json.load(open(os.path.join(sdir, "meta.json")))
    prop = prop_override or meta.get("property") or sid.split("-")[0]
    d = tempfile.mkdtemp(prefix="seedrefresh_")
    try:
        dst = os.path.join(d, "repo")
        shutil.copytree("/repo", dst, ignore=shutil.ignore_patterns(".git", "build"))
        r = subprocess.run(["patch", "-p1", "-s", "-i", os.path.join(sdir, "patch.diff")], cwd=dst,
                           stdout=subprocess.PIPE, stderr=subprocess.STDOUT)
        if r.returncode != 0:
            return sid, "PATCH FAILED"
        env = dict(os.environ, VERIF_REPO=dst)
        r = subprocess.run([sys.executable, os.path.join(HERE, "check.py"), prop, "--tier", tier], env=env, cwd=VERIF,
                           stdout=subprocess.PIPE, stderr=subprocess.DEVNULL, universal_newlines=True)
        lines = [l for l in r.stdout.split("\n") if re.match(r"^(OK|VIOLATION|KNOWN-FINDING)", l)]
        concrete = [l for l in lines if l.startswith("VIOLATION") and "no-failing-input-found" not in l]
        nofail = [l for l in lines if l.startswith("VIOLATION") and "no-failing-input-found" in l]
        detail = ""
        if concrete or nofail:
            p = (concrete or nofail)[0].split("replay=")[1].split()[0]
            try:
                rep = json.load(open(p))
                if concrete:
                    detail = "ops=%s; oracle: %s" % (json.dumps(rep.get("ops"))[:600], str(rep.get("oracle"))[:400])
                else:
                    detail = "no longer checks: %s" % str(rep.get("no_longer_checks"))[:300]
            except Exception as e:
                detail = "replay unreadable: %s" % e
        res = ("caught by %s %s with a concrete failing input: %s" % (prop, tier, detail) if concrete else
               "reported by %s %s as no-failing-input-found: %s" % (prop, tier, detail) if nofail else
               "MISSED by %s %s (exit %d)" % (prop, tier, r.returncode))
        if prop_override and prop_override != meta.get("property"):
            meta.setdefault("also", {})[prop_override] = res
        else:
            if meta.get("verif_result") and meta["verif_result"] != res and "verif_result_before" not in meta \
                    and not str(meta["verif_result"]).startswith("caught"):
                meta["verif_result_before"] = meta["verif_result"]
            meta["verif_result"] = res
            meta["verif_exit"] = r.returncode
            meta["how_run"] = "python3 tools/seedtest.py seeded/%s/patch.diff %s %s" % (sid, prop, tier)
        with open(os.path.join(sdir, "meta.json"), "w") as fh:
            json.dump(meta, fh, indent=1)
            fh.write("\n")
        return sid, res[:160]
    finally:
        shutil.rmtree(d, ignore_errors=True)


def main():
    args = sys.argv[1:]
    prop = None
    if args[:1] == ["--prop"]:
        prop = args[1]
        args = args[2:]
    ids = args or sorted(x for x in os.listdir(os.path.join(VERIF, "seeded"))
                         if os.path.exists(os.path.join(VERIF, "seeded", x, "patch.diff")) and not x.startswith("harmless"))
    jobs = int(os.environ.get("SEED_JOBS", "3"))
    with ThreadPoolExecutor(max_workers=jobs) as ex:
        for sid, res in ex.map(lambda s: one(s, prop), ids):
            print(sid, "|", res, flush=True)


if __name__ == "__main__":
    main()
