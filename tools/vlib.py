"""
Shared machinery of the libcstl proof checks (see DESIGN.md section 3).

  build_harness   compile /repo's *current working tree* + a C harness (ASan)
  lake_build      build the Lean library / model drivers (under flock)
  audit           kernel-side audit of the property theorems (#print axioms)
  run_pair        run the same scripts on the real code and on the Lean model
  Check           verdict protocol, evidence, replay files, known findings
"""
import fcntl
import hashlib
import json
import os
import random
import re
import shutil
import subprocess
import sys
import tempfile
import time
from concurrent.futures import ThreadPoolExecutor

VERIF = os.path.dirname(os.path.dirname(os.path.abspath(__file__)))
REPO = os.environ.get("VERIF_REPO", "/repo")
LEAN = os.path.join(VERIF, "lean")
HARNESS = os.path.join(VERIF, "harness")
EVIDENCE = os.path.join(VERIF, "evidence")
REPLAYS = os.path.join(VERIF, "replays")
CORPUS = os.path.join(VERIF, "corpus")
KNOWN = os.path.join(VERIF, "known_findings.txt")

ALLOWED_AXIOMS = {"propext", "Classical.choice", "Quot.sound"}
FORBIDDEN = re.compile(
    r"\bsorry\b|\badmit\b|^\s*axiom\s|native_decide|bv_decide|implemented_by|"
    r"\bunsafe\s|maxHeartbeats\s+0|ofReduceBool|@\[extern")

TRUSTED_BASE = [
    "Lean 4.33 kernel (thorough tier: re-checked with leanchecker)",
    "axioms allowed in property theorems: propext, Classical.choice, Quot.sound (audited by #print axioms on every run)",
    "Lean compiler/runtime for the executable model driver (same definitions the theorems are about)",
    "correspondence check: C harness abstraction functions, script generators, gcc, glibc, AddressSanitizer",
    "hand-written models are tied to the C code by differential execution on every run and, for the functions covered, by translator ties: Lean definitions regenerated from the clang AST of the current source and kernel-checked equal to the model (trusting the translator's reading of the AST and its primitive vocabulary)",
]

_tmpdirs = []


def mktmp(prefix):
    d = tempfile.mkdtemp(prefix="cstlverif_" + prefix + "_")
    _tmpdirs.append(d)
    return d


def cleanup():
    cov = os.environ.get("VERIF_COV")
    for d in _tmpdirs:
        if cov and os.path.basename(d).startswith("cstlverif_h_"):
            # coverage of the library sources by this harness (diagnostic: tools/covmap.py)
            try:
                gcda = [f for f in os.listdir(d) if f.endswith(".gcda")]
                if gcda:
                    out = os.path.join(cov, os.path.basename(d))
                    os.makedirs(out, exist_ok=True)
                    subprocess.run(["gcov", "-b", "-p"] + gcda, cwd=d, stdout=subprocess.DEVNULL, stderr=subprocess.DEVNULL)
                    for f in os.listdir(d):
                        if f.endswith(".gcov"):
                            shutil.move(os.path.join(d, f), os.path.join(out, f))
            except Exception:
                pass
        shutil.rmtree(d, ignore_errors=True)
    del _tmpdirs[:]


def sh(cmd, **kw):
    return subprocess.run(cmd, stdout=subprocess.PIPE, stderr=subprocess.STDOUT,
                          universal_newlines=True, **kw)


# ---------------------------------------------------------------------------
# building


LIB_SRCS = ["array.c", "bintree.c", "common.c", "dlist.c", "hash.c", "heap.c",
            "map.c", "memory.c", "rbtree.c", "slist.c", "string.c", "vector.c"]

WRAP = "-Wl,--wrap=malloc,--wrap=realloc,--wrap=free,--wrap=calloc"


class BuildError(Exception):
    pass


def build_harness(name, harness_srcs, repo_srcs=None, cflags=None, wrap_alloc=True,
                  sanitize=True, extra_includes_first=None, out_name=None):
    """Compile harness + the repo's current sources into one executable.
    Returns the path of the executable (in a temp dir removed at exit)."""
    d = mktmp("h_" + name)
    exe = os.path.join(d, out_name or name)
    srcs = [os.path.join(HARNESS, s) for s in harness_srcs]
    srcs += [os.path.join(HARNESS, "common.c")]
    if wrap_alloc:
        srcs += [os.path.join(HARNESS, "alloc.c")]
    srcs += [os.path.join(REPO, "src", s) for s in (repo_srcs if repo_srcs is not None else LIB_SRCS)]
    cmd = ["gcc", "-std=gnu99", "-O1", "-g", "-DNDEBUG", "-D_POSIX_C_SOURCE=200809L",
           "-fno-omit-frame-pointer", "-Wno-unused-function"]
    if sanitize:
        cmd += ["-fsanitize=address"]
    if os.environ.get("VERIF_COV"):
        cmd += ["--coverage", "-DVERIF_COVERAGE"]
    for inc in (extra_includes_first or []):
        cmd += ["-I", inc]
    cmd += ["-I", os.path.join(REPO, "include"), "-I", HARNESS]
    cmd += (cflags or [])
    # compile in parallel
    objs = []
    jobs = []
    for i, s in enumerate(srcs):
        o = os.path.join(d, "o%d_%s.o" % (i, os.path.basename(s)))
        objs.append(o)
        jobs.append(cmd + ["-c", s, "-o", o])
    with ThreadPoolExecutor(max_workers=8) as ex:
        rs = list(ex.map(sh, jobs))
    for r, j in zip(rs, jobs):
        if r.returncode != 0:
            raise BuildError("harness compile failed: %s\n%s" % (" ".join(j), r.stdout))
    link = ["gcc"] + (["-fsanitize=address"] if sanitize else []) + (["--coverage"] if os.environ.get("VERIF_COV") else []) + objs + ["-o", exe, "-lm"]
    if wrap_alloc:
        link.append(WRAP)
    r = sh(link)
    if r.returncode != 0:
        raise BuildError("harness link failed:\n" + r.stdout)
    return exe


HARNESS_ENV = dict(os.environ,
                   ASAN_OPTIONS="exitcode=99:abort_on_error=0:detect_leaks=0:"
                                "allocator_may_return_null=1:handle_segv=0:handle_abort=0:"
                                "handle_sigbus=0:detect_stack_use_after_return=0:"
                                "max_allocation_size_mb=20480",
                   UBSAN_OPTIONS="print_stacktrace=0")


def lake_build(targets, timeout=3600):
    """Build Lean targets; serialised across processes with a lock file."""
    os.makedirs(os.path.join(LEAN, ".lake"), exist_ok=True)
    with open(os.path.join(LEAN, ".lake", "verif.lock"), "w") as lk:
        fcntl.flock(lk, fcntl.LOCK_EX)
        r = sh(["lake", "build"] + list(targets), cwd=LEAN, timeout=timeout)
        fcntl.flock(lk, fcntl.LOCK_UN)
    return r.returncode == 0, r.stdout


def model_exe(area):
    return os.path.join(LEAN, ".lake", "build", "bin", "m_" + area)


def module_closure(modules):
    """files of the given Cstl.* modules and everything under Cstl/ they import, transitively"""
    seen = {}
    todo = list(modules)
    while todo:
        mod = todo.pop()
        if mod in seen or not mod.startswith("Cstl"):
            continue
        path = os.path.join(LEAN, mod.replace(".", "/") + ".lean")
        if not os.path.exists(path):
            seen[mod] = None
            continue
        seen[mod] = path
        for line in open(path):
            m = re.match(r"\s*import\s+([A-Za-z0-9_.]+)", line)
            if m:
                todo.append(m.group(1))
    return [p for p in seen.values() if p]


def grep_forbidden(modules):
    """Scan the Lean sources the property depends on (the given modules and
    their transitive Cstl.* imports; everything under Cstl/ when modules is
    None) for escape hatches; hits inside comments are discarded."""
    hits = []
    if modules is None:
        files = []
        for root, _, fs in os.walk(os.path.join(LEAN, "Cstl")):
            files += [os.path.join(root, f) for f in fs if f.endswith(".lean")]
    else:
        files = module_closure(modules)
    for p in sorted(files):
        txt = open(p).read()
        # strip block comments (non-nested is enough for our files) and line comments
        txt2 = re.sub(r"/-.*?-/", lambda m: "\n" * m.group(0).count("\n"), txt, flags=re.S)
        for ln, line in enumerate(txt2.split("\n"), 1):
            line = line.split("--")[0]
            if FORBIDDEN.search(line):
                hits.append("%s:%d: %s" % (os.path.relpath(p, LEAN), ln, line.strip()))
    return hits


def audit(theorems, imports, leanchecker=False):
    """theorems: list of fully qualified names.  Returns dict name -> (ok, detail)."""
    res = {}
    if not theorems:
        return res
    d = mktmp("audit")
    f = os.path.join(d, "Audit.lean")
    with open(f, "w") as fh:
        for imp in imports:
            fh.write("import %s\n" % imp)
        for t in theorems:
            fh.write("#print axioms %s\n" % t)
    r = sh(["lake", "env", "lean", f], cwd=LEAN)
    out = r.stdout
    for t in theorems:
        res[t] = (False, "no #print axioms output (theorem missing or file failed to elaborate)")
    # outputs: 'X' depends on axioms: [a, b]   /   'X' does not depend on any axioms
    for m in re.finditer(r"'([^']+)' depends on axioms: \[([^\]]*)\]", out, flags=re.S):
        name = m.group(1)
        axs = [a.strip() for a in m.group(2).replace("\n", " ").split(",") if a.strip()]
        bad = [a for a in axs if a not in ALLOWED_AXIOMS]
        if name in res:
            res[name] = (not bad, "axioms: " + ", ".join(axs))
    for m in re.finditer(r"'([^']+)' does not depend on any axioms", out):
        if m.group(1) in res:
            res[m.group(1)] = (True, "axioms: none")
    if r.returncode != 0:
        # elaboration errors: attach them to the theorems that did not print
        errs = [l for l in out.split("\n") if "error" in l]
        for t in theorems:
            if not res[t][0] and res[t][1].startswith("no #print"):
                res[t] = (False, res[t][1] + " :: " + " | ".join(errs[:3]))
    if leanchecker:
        for imp in imports:
            rc = sh(["lake", "env", "leanchecker", imp], cwd=LEAN)
            if rc.returncode != 0:
                for t in theorems:
                    res[t] = (False, "leanchecker rejected %s: %s" % (imp, rc.stdout[-300:]))
    return res


# ---------------------------------------------------------------------------
# running scripts


def write_batch(path, scripts):
    with open(path, "w") as fh:
        for i, sc in enumerate(scripts):
            fh.write("script %d\n" % i)
            for op in sc:
                fh.write(op + "\n")


def parse_batch(text, n):
    """Split the output of a batch into per-script line lists."""
    outs = [[] for _ in range(n)]
    cur = None
    for line in text.split("\n"):
        if line.startswith("script "):
            try:
                cur = int(line.split()[1])
            except (ValueError, IndexError):
                cur = None
            continue
        if cur is not None and line != "" and cur < n:
            outs[cur].append(line)
    return outs


def run_exe(exe, scripts, env=None, timeout=3600, workdir=None):
    d = workdir or mktmp("run")
    inp = os.path.join(d, "in_%d.txt" % random.getrandbits(30))
    write_batch(inp, scripts)
    with open(inp) as fh:
        r = subprocess.run([exe], stdin=fh, stdout=subprocess.PIPE, stderr=subprocess.DEVNULL,
                           universal_newlines=True, env=env, timeout=timeout)
    os.unlink(inp)
    return parse_batch(r.stdout, len(scripts)), r.returncode


def run_pair(c_exe, m_exe, scripts, jobs=8):
    """Run scripts on both sides (in parallel chunks). Returns (c_outs, m_outs)."""
    if not scripts:
        return [], []
    d = mktmp("pair")
    n = len(scripts)
    chunk = max(1, (n + jobs - 1) // jobs)
    chunks = [scripts[i:i + chunk] for i in range(0, n, chunk)]

    def one(args):
        exe, env, ch = args
        return run_exe(exe, ch, env=env, workdir=d)[0]

    work = [(c_exe, HARNESS_ENV, ch) for ch in chunks] + [(m_exe, None, ch) for ch in chunks]
    with ThreadPoolExecutor(max_workers=2 * jobs) as ex:
        rs = list(ex.map(one, work))
    c_outs = [o for r in rs[:len(chunks)] for o in r]
    m_outs = [o for r in rs[len(chunks):] for o in r]
    return c_outs, m_outs


def first_diff(c_lines, m_lines):
    """index of the first differing line, or None"""
    for i in range(max(len(c_lines), len(m_lines))):
        a = c_lines[i] if i < len(c_lines) else "<missing>"
        b = m_lines[i] if i < len(m_lines) else "<missing>"
        if a != b:
            return i
    return None


# ---------------------------------------------------------------------------
# known findings


def load_known():
    """lines 'known: property=<id> witness=<key> <text>' suppress exactly that witness;
    'fixed: ...' lines suppress nothing."""
    known = []
    if os.path.exists(KNOWN):
        for line in open(KNOWN):
            line = line.strip()
            m = re.match(r"known:\s+property=(\S+)\s+witness=(\S+)\s+(.*)", line)
            if m:
                known.append({"property": m.group(1), "witness": m.group(2), "text": m.group(3)})
    return known


# ---------------------------------------------------------------------------
# the check object


class Check:
    """Collects what one run of one property covered and renders the verdict."""

    def __init__(self, prop, tier, seed):
        self.prop = prop
        self.tier = tier
        self.seed = seed
        self.t0 = time.time()
        self.rng = random.Random((seed << 8) ^ int(hashlib.sha1(prop.encode()).hexdigest()[:6], 16))
        self.theorems = {}          # name -> (ok, detail)
        self.forbidden = []
        self.build_problems = []
        self.mismatches = []        # dicts: area, script, index, c, m
        self.oracle_failures = []   # dicts: area, script, what
        self.notes = []
        self.stats = {"evaluations": 0, "scripts": 0, "states": 0, "transitions": 0,
                      "traces_validated_against_impl": 0}
        self.distinct = set()
        self.dist = {}              # op name -> count
        self.stops = {}             # stop kind -> count
        self.samples = []
        self.exhaustive = None
        self.extra = {}
        self.known_hits = []

    # -- bookkeeping of explored cases
    def count_script(self, area, script, c_lines):
        self.stats["scripts"] += 1
        self.stats["traces_validated_against_impl"] += 1
        prev = ""
        for op, line in zip(script, c_lines):
            self.stats["evaluations"] += 1
            w = op.split()[0]
            self.dist[w] = self.dist.get(w, 0) + 1
            state = line.split("|", 1)[1] if "|" in line else ""
            # distinct non-trivial: distinct (pre-state, operation) pairs, pre-state non-initial
            key = hashlib.sha1((area + "\0" + prev + "\0" + op).encode()).digest()[:10]
            if prev != "":
                self.distinct.add(key)
            prev = state
            if line.startswith("STOP"):
                self.stops[line] = self.stops.get(line, 0) + 1
        if len(c_lines) > len(script):
            for line in c_lines[len(script):]:
                if line.startswith("STOP"):
                    self.stops[line] = self.stops.get(line, 0) + 1
        if len(self.samples) < 3 and len(script) >= 3:
            self.samples.append({"area": area, "ops": script[:12], "impl_output": c_lines[:12]})

    def compare(self, area, scripts, c_outs, m_outs, oracle=None):
        for sc, c, m in zip(scripts, c_outs, m_outs):
            self.count_script(area, sc, c)
            i = first_diff(c, m)
            if i is not None and len(self.mismatches) < 50:
                self.mismatches.append({"area": area, "script": sc, "index": i,
                                        "impl": c[i] if i < len(c) else "<missing>",
                                        "model": m[i] if i < len(m) else "<missing>"})
            if oracle is not None:
                w = oracle(self.prop, sc, c)
                if w and len(self.oracle_failures) < 50:
                    self.oracle_failures.append({"area": area, "script": sc, "what": w, "impl_output": c})

    # -- verdict
    def finish(self, level="proof", checker_cmd=None, assumptions=None):
        wall = time.time() - self.t0
        known = [k for k in load_known() if k["property"] == self.prop]
        violations = []

        def witness_key(script):
            return hashlib.sha1("\n".join(script).encode()).hexdigest()[:12]

        # 1. concrete failing inputs (oracle on the real code)
        for f in self.oracle_failures:
            wk = witness_key(f["script"])
            hit = [k for k in known if k["witness"] == wk]
            if hit:
                self.known_hits.append((hit[0], f))
                continue
            violations.append(("concrete", f))
        # 2. broken correspondence / theorems without failing input
        broken_thms = [(t, d) for t, (ok, d) in sorted(self.theorems.items()) if not ok]
        nofail = []
        if not violations:
            for m in self.mismatches[:1]:
                nofail.append({"kind": "correspondence", "broken": "model-vs-implementation correspondence of area %s" % m["area"],
                               "detail": m})
            for t, d in broken_thms:
                nofail.append({"kind": "theorem", "broken": t, "detail": d})
            for h in self.forbidden:
                nofail.append({"kind": "escape-hatch", "broken": "forbidden construct in Lean sources", "detail": h})
            for b in self.build_problems:
                nofail.append({"kind": "build", "broken": b[0], "detail": b[1]})

        # runs against a scratch copy (VERIF_REPO, used for seeded-change tests) must not
        # overwrite the evidence of the real tree
        evdir = EVIDENCE if os.path.realpath(REPO) == "/repo" else mktmp("evidence")
        os.makedirs(evdir, exist_ok=True)
        obligations = len(self.theorems)
        discharged = sum(1 for ok, _ in self.theorems.values() if ok)
        cov = {
            "obligations": obligations,
            "discharged": discharged,
            "checker_cmd": checker_cmd or "cd lean && lake build && lake env lean <generated Audit.lean with #print axioms per theorem>",
            "trusted_base": TRUSTED_BASE + (assumptions or []),
            "theorems": {t: d for t, (ok, d) in sorted(self.theorems.items())},
            "evaluations": self.stats["evaluations"],
            "distinct_nontrivial": len(self.distinct),
            "rule": "one evaluation = one operation executed on the real code and on the Lean model with equal "
                    "canonical output required; distinct_nontrivial counts distinct (canonical pre-state, operation) "
                    "pairs whose pre-state is not the initial state",
            "scripts": self.stats["scripts"],
            "states": self.stats["states"],
            "transitions": self.stats["transitions"],
            "traces_validated_against_impl": self.stats["traces_validated_against_impl"],
            "operation_distribution": dict(sorted(self.dist.items())),
            "stop_kinds": dict(sorted(self.stops.items())),
            "samples": self.samples or [{"note": "no script executed"}],
            "correspondence_mismatches": len(self.mismatches),
            "oracle_failures": len(self.oracle_failures),
        }
        if self.exhaustive is not None:
            cov["exhaustive"] = self.exhaustive
        cov.update(self.extra)
        if self.notes:
            cov["notes"] = self.notes
        ev = {"property_id": self.prop, "tier": self.tier, "seed": self.seed, "level": level,
              "coverage": cov, "assumptions": assumptions or [], "wall_s": round(wall, 2),
              "violations": len(violations) + len(nofail)}
        with open(os.path.join(evdir, self.prop + ".json"), "w") as fh:
            json.dump(ev, fh, indent=1, sort_keys=True)
            fh.write("\n")

        for k, f in self.known_hits:
            print("KNOWN-FINDING: property=%s %s" % (self.prop, k["text"]))
        rc = 0
        if violations or nofail:
            os.makedirs(os.path.join(REPLAYS, self.prop), exist_ok=True)
        for kind, f in violations[:5]:
            p = os.path.join(REPLAYS, self.prop, "fail_%s.json" % witness_key(f["script"]))
            with open(p, "w") as fh:
                json.dump({"property": self.prop, "kind": "failing-input", "area": f["area"],
                           "ops": f["script"], "impl_output": f.get("impl_output"),
                           "oracle": f["what"], "seed": self.seed, "tier": self.tier}, fh, indent=1)
            print("VIOLATION property=%s replay=%s" % (self.prop, p))
            rc = 1
        for i, nf in enumerate(nofail[:5]):
            p = os.path.join(REPLAYS, self.prop, "broken_%d.json" % i)
            with open(p, "w") as fh:
                json.dump({"property": self.prop, "kind": "no-failing-input-found",
                           "no_longer_checks": nf["broken"], "what": nf["kind"], "detail": nf["detail"],
                           "searched": "independent oracle of the property on %d scripts / %d operations of the real code"
                                       % (self.stats["scripts"], self.stats["evaluations"]),
                           "seed": self.seed, "tier": self.tier}, fh, indent=1)
            print("VIOLATION property=%s replay=%s no-failing-input-found" % (self.prop, p))
            rc = 1
        if rc == 0:
            print("OK property=%s tier=%s theorems=%d/%d ops=%d distinct=%d wall=%.1fs"
                  % (self.prop, self.tier, discharged, obligations, self.stats["evaluations"],
                     len(self.distinct), wall))
        return rc


# ---------------------------------------------------------------------------
# generic exploration helpers


def closure(check, area, c_exe, m_exe, init_ops, alphabet, max_depth, max_states, oracle=None,
            state_of=None):
    """Breadth-first closure over canonical model states.

    alphabet(state_line) -> list of op lines enabled in that state (state_line is
    the model's output line after the last op, or "" initially).  Every
    (state, op) transition is executed on the real code and on the model
    (each as a script from the initial state).  Returns True if closed."""
    state_of = state_of or (lambda line: line.split("|", 1)[1] if "|" in line else line)
    seen = {}
    frontier = [(list(init_ops), "")]
    if init_ops:
        c, m = run_pair(c_exe, m_exe, [list(init_ops)])
        check.compare(area, [list(init_ops)], c, m, oracle)
        last = m[0][-1] if m[0] else ""
        frontier = [(list(init_ops), last)]
        seen[state_of(last)] = True
    else:
        seen[""] = True
    depth = 0
    closed = False
    truncated = False
    while frontier and depth < max_depth:
        scripts = []
        for path, last in frontier:
            for op in alphabet(last):
                scripts.append(path + [op])
        if not scripts:
            closed = True
            break
        c, m = run_pair(c_exe, m_exe, scripts)
        check.compare(area, scripts, c, m, oracle)
        check.stats["transitions"] += len(scripts)
        nxt = []
        for sc, mo in zip(scripts, m):
            if len(mo) != len(sc) or (mo and mo[-1].startswith("STOP")):
                continue
            st = state_of(mo[-1])
            if st not in seen:
                seen[st] = True
                if len(seen) <= max_states:
                    nxt.append((sc, mo[-1]))
                else:
                    truncated = True
        frontier = nxt
        depth += 1
        if not frontier:
            closed = True
    check.stats["states"] += len(seen)
    return closed and not truncated


# ---------------------------------------------------------------------------
# standard flow for an area with a C harness and a Lean model driver


def all_exes():
    """lean_exe targets declared in the lakefile"""
    txt = open(os.path.join(LEAN, "lakefile.toml")).read()
    out = []
    for name, root in re.findall(r'^name = "(m_[a-z0-9_]+)"\nroot = "([A-Za-z0-9_.]+)"', txt, flags=re.M):
        if os.path.exists(os.path.join(LEAN, root.replace(".", "/") + ".lean")):
            out.append(name)
    return out


def prepare_area(chk, area, theorems=None, leanchecker=False):
    """lake build, escape-hatch grep, axiom audit, harness build.
    Returns (c_exe, m_exe) or (None, None) when something could not be built
    (recorded in chk)."""
    ok, out = lake_build(area.LEAN_TARGETS)
    if not ok:
        errs = [l for l in out.split("\n") if "error" in l][:5]
        chk.build_problems.append(("lake build %s" % " ".join(area.LEAN_TARGETS), " | ".join(errs) or out[-500:]))
    for h in grep_forbidden(list(area.IMPORTS) + [t for t in area.LEAN_TARGETS if t.startswith("Cstl.")] + ["Cstl.%s.Main" % os.path.basename(os.path.dirname(os.path.join(LEAN, area.IMPORTS[0].replace(".", "/"))))]):
        if h not in chk.forbidden:
            chk.forbidden.append(h)
    thms = theorems if theorems is not None else area.THEOREMS.get(chk.prop, [])
    res = audit(thms, area.IMPORTS, leanchecker=leanchecker and chk.tier == "thorough")
    chk.theorems.update(res)
    try:
        c_exe = build_harness(area.NAME, area.HARNESS_SRCS, getattr(area, "REPO_SRCS", None),
                              cflags=getattr(area, "CFLAGS", None),
                              wrap_alloc=getattr(area, "WRAP_ALLOC", True),
                              extra_includes_first=getattr(area, "INCLUDES_FIRST", None))
    except BuildError as e:
        chk.build_problems.append(("harness build for area %s against /repo working tree" % area.NAME, str(e)[-1500:]))
        return None, None
    m_exe = model_exe(area.NAME)
    if not os.path.exists(m_exe):
        return None, None
    return c_exe, m_exe


def run_scripts(chk, area, c_exe, m_exe, scripts, oracle=None, batch=4000):
    for i in range(0, len(scripts), batch):
        if len(chk.oracle_failures) >= 20:
            # the verdict is settled (concrete failing inputs found); do not
            # spend time on further exploration of a broken implementation
            chk.notes.append("exploration stopped early after %d failing inputs" % len(chk.oracle_failures))
            return
        part = scripts[i:i + batch]
        c, m = run_pair(c_exe, m_exe, part, jobs=int(os.environ.get("VERIF_JOBS", str(min(16, os.cpu_count() or 8)))))
        chk.compare(area.NAME, part, c, m, oracle)


def run_impl_only(chk, area, c_exe, scripts, oracle):
    """scripts with operations the model does not have: executed on the real code only and judged
    by the independent oracle"""
    jobs = int(os.environ.get("VERIF_JOBS", str(min(16, os.cpu_count() or 8))))
    chunk = max(1, (len(scripts) + jobs - 1) // jobs)
    chunks = [scripts[i:i + chunk] for i in range(0, len(scripts), chunk)]
    d = mktmp("impl")
    with ThreadPoolExecutor(max_workers=jobs) as ex:
        rs = list(ex.map(lambda ch: run_exe(c_exe, ch, env=HARNESS_ENV, workdir=d)[0], chunks))
    outs = [o for r in rs for o in r]
    for sc, c in zip(scripts, outs):
        chk.count_script(area.NAME, sc, c)
        w = oracle(chk.prop, sc, c)
        if w and len(chk.oracle_failures) < 50:
            chk.oracle_failures.append({"area": area.NAME, "script": sc, "what": w, "impl_output": c})


def minimise(area, c_exe, m_exe, script, enabled=None):
    """shrink a script on which implementation and model differ: cut after the
    first differing line, then delta-debugging (drop chunks of halving size,
    all candidates of one granularity in one parallel batch) while the
    difference stays and the script stays inside the documented domain."""
    def differs_many(cands):
        if not cands:
            return []
        c, m = run_pair(c_exe, m_exe, cands, jobs=min(16, len(cands)))
        return [first_diff(a, b) for a, b in zip(c, m)]
    i = differs_many([script])[0]
    if i is None:
        return script
    cur = script[:i + 1]
    chunk = max(1, len(cur) // 2)
    rounds = 0
    while len(cur) > 1 and rounds < 400:
        rounds += 1
        cands = []
        for k in range(0, len(cur), chunk):
            cand = cur[:k] + cur[k + chunk:]
            if cand and (enabled is None or enabled(cand)):
                cands.append(cand)
        res = differs_many(cands[:256])
        hit = None
        for cand, r in zip(cands, res):
            if r is not None:
                hit = cand[:r + 1]
                break
        if hit is not None:
            cur = hit
            chunk = max(1, min(chunk, len(cur) // 2))
        elif chunk == 1:
            break
        else:
            chunk = max(1, chunk // 2)
    return cur


def extend_search(chk, area, c_exe, m_exe, prefix, continuation, oracle, count=1500, enabled=None):
    """directed search after a model/implementation difference: the minimised
    script reaches a state in which the two disagree; continue from it with
    `count` random continuations (continuation(rng) -> op list) and let the
    independent oracle judge the real code's output."""
    scripts = []
    for _ in range(count):
        sc = list(prefix) + continuation(chk.rng)
        if enabled is None or enabled(sc):
            scripts.append(sc)
    chk.notes.append("directed search: %d random continuations of the minimised difference (%d ops)" % (len(scripts), len(prefix)))
    run_scripts(chk, area, c_exe, m_exe, scripts, oracle)


# ---------------------------------------------------------------------------
# translator tie (tools/c2lean.py): regenerate, re-check the equalities


def translator_tie(chk, area, tie_module, tie_theorems):
    """Regenerate the Lean translation of the loop-free C functions of `area`
    from REPO's current source, compile it in a scratch directory that shadows
    the committed Cstl/Gen copy, and re-check the fixed tie theorems
    (`generated = hand-written model`) against it, with the axiom audit."""
    import c2lean
    a = c2lean.AREAS[area]
    try:
        txt, report = c2lean.translate(area, REPO)
    except Exception as e:      # Unsupported construct, or any failure of the translator on changed code
        for t in tie_theorems:
            chk.theorems[t] = (False, "translator could not read the source (%s): %s" % (type(e).__name__, e))
        return
    chk.extra.setdefault("translator", {})[area] = report
    d = mktmp("tie")
    # scratch module GenTmp.<X>: same namespace and definitions as the committed
    # Cstl.Gen.<X>, but built from the current source; the tie file's import is
    # redirected to it
    gdir = os.path.join(d, "GenTmp")
    os.makedirs(gdir)
    gfile = os.path.join(gdir, a["module"] + ".lean")
    with open(gfile, "w") as fh:
        fh.write(txt)
    committed = os.path.join(LEAN, "Cstl", "Gen", a["module"] + ".lean")
    if os.path.exists(committed) and open(committed).read() != txt:
        chk.notes.append("translation of src/%s differs from the committed copy lean/Cstl/Gen/%s.lean" % (a["src"], a["module"]))
    r = sh(["lake", "env", "lean", "--root=" + d, "-o", gfile[:-5] + ".olean", gfile], cwd=LEAN)
    if r.returncode != 0:
        for t in tie_theorems:
            chk.theorems[t] = (False, "generated translation does not elaborate: " + r.stdout[-400:])
        return
    base_path = sh(["lake", "env", "printenv", "LEAN_PATH"], cwd=LEAN).stdout.strip()
    tie_src = open(os.path.join(LEAN, tie_module.replace(".", "/") + ".lean")).read()
    tie_src = tie_src.replace("import Cstl.Gen.%s" % a["module"], "import GenTmp.%s" % a["module"])
    tfile = os.path.join(d, "TieCheck.lean")
    with open(tfile, "w") as fh:
        fh.write(tie_src)
        fh.write("\n")
        for t in tie_theorems:
            fh.write("#print axioms %s\n" % t)
    env = dict(os.environ, LEAN_PATH=d + ":" + base_path)
    r = sh(["lean", "--root=" + d, tfile], cwd=LEAN, env=env)
    out = r.stdout
    res = {t: (False, "tie theorem does not check against the current source's translation") for t in tie_theorems}
    for m in re.finditer(r"'([^']+)' depends on axioms: \[([^\]]*)\]", out, flags=re.S):
        axs = [x.strip() for x in m.group(2).replace("\n", " ").split(",") if x.strip()]
        if m.group(1) in res:
            res[m.group(1)] = (all(x in ALLOWED_AXIOMS for x in axs), "axioms: " + ", ".join(axs))
    for m in re.finditer(r"'([^']+)' does not depend on any axioms", out):
        if m.group(1) in res:
            res[m.group(1)] = (True, "axioms: none")
    errs = [l for l in out.split("\n") if "error" in l]
    if errs:
        # a failed proof still gets a (sorry-free?) constant: be strict, mark the theorems whose
        # declaration line is mentioned in an error
        src_lines = tie_src.split("\n")
        for e in errs:
            m = re.search(r"TieCheck\.lean:(\d+):", e)
            if not m:
                continue
            ln = int(m.group(1))
            # find the enclosing theorem
            for k in range(min(ln, len(src_lines)) - 1, -1, -1):
                mm = re.match(r"theorem\s+(\S+)", src_lines[k])
                if mm:
                    ns = re.search(r"namespace\s+(\S+)", tie_src)
                    full = (ns.group(1) + "." if ns else "") + mm.group(1)
                    if full in res:
                        res[full] = (False, "does not check against the current translation: " + e.strip()[:300])
                    break
    chk.theorems.update(res)


def shrink_failures(chk, area, c_exe, oracle, enabled=None, limit=3):
    """delta-minimise the first few failing inputs: shortest failing prefix,
    then drop single operations while the independent oracle still rejects
    the implementation's output and the script stays inside the domain."""
    def fails(sc):
        if enabled is not None and not enabled(sc):
            return None
        outs, _ = run_exe(c_exe, [sc], env=HARNESS_ENV)
        w = oracle(chk.prop, sc, outs[0])
        return (w, outs[0]) if w else None
    done = []
    # prefer short witnesses
    order = sorted((i for i in range(len(chk.oracle_failures))
                    if chk.oracle_failures[i].get("area") == area.NAME
                    and "minimised_from" not in chk.oracle_failures[i]),
                   key=lambda i: len(chk.oracle_failures[i]["script"]))
    for i in order[:limit]:
        f = chk.oracle_failures[i]
        cur = list(f["script"])
        best = fails(cur)
        if best is None:
            continue
        lo, hi = 1, len(cur)
        while lo < hi:                      # shortest failing prefix
            mid = (lo + hi) // 2
            if fails(cur[:mid]):
                hi = mid
            else:
                lo = mid + 1
        if fails(cur[:lo]):
            cur = cur[:lo]
        changed = True
        while changed and len(cur) > 1:
            changed = False
            for k in range(len(cur) - 2, -1, -1):
                cand = cur[:k] + cur[k + 1:]
                if fails(cand):
                    cur = cand
                    changed = True
                    break
        r = fails(cur)
        if r:
            done.append({"area": f["area"], "script": cur, "what": r[0], "impl_output": r[1],
                         "minimised_from": len(f["script"])})
    if done:
        rest = [f for j, f in enumerate(chk.oracle_failures) if j not in order[:limit]]
        chk.oracle_failures = done + rest
