#!/usr/bin/env python3
"""
C18 translator: symbol / declaration tables of the public headers and of the
built libraries  ->  lean/Cstl/Gen/LinkTab.lean.

On every run

  * the working tree of the repository (vlib.REPO, honours VERIF_REPO) is copied
    to a scratch directory and `make build/libcstl.a build/libcstl.so` is run
    there with the project's own Makefile;
  * for every public header H under include/cstl (all except the guard-less
    template _string.h) a translation unit consisting of `#include "cstl/H"`
    is compiled with the project's CFLAGS:
        defs(H)  = strong external definitions in the object (`nm`)
        decls(H) = functions / objects with external linkage that the
                   translation unit declares in a cstl header and does not
                   define (clang-14 JSON AST; gcc -E + regex fallback)
  * lib = global definitions of the archive / dynamic symbols defined by the
    shared object (`nm`).

The tables are written as Lean data (symbols numbered, names kept in
`Cstl.Gen.symNames`); `Cstl.Link.Props` proves `TablesOK Cstl.Gen.tab` by
kernel evaluation on every run.
"""
import json
import os
import re
import shutil
import subprocess
import sys

sys.path.insert(0, os.path.dirname(os.path.abspath(__file__)))
import vlib  # noqa: E402

GEN_LEAN = os.path.join(vlib.LEAN, "Cstl", "Gen", "LinkTab.lean")
EXCLUDED_HEADERS = {"_string.h"}          # guard-less template, instantiated by string.h

STRONG = set("TDBRGSA")                   # nm types of strong global definitions
WEAK = set("WV")                          # weak definitions (resolve references, never clash)


def sh(cmd, **kw):
    return subprocess.run(cmd, stdout=subprocess.PIPE, stderr=subprocess.STDOUT,
                          universal_newlines=True, **kw)


class TranslatorError(Exception):
    pass


# ---------------------------------------------------------------------------
# the project's own flags, read from its Makefile


def make_var(makefile_text, name):
    """value of a `NAME := ...` assignment with backslash continuations"""
    m = re.search(r"^%s\s*:?=\s*((?:.*\\\n)*.*)$" % re.escape(name), makefile_text, flags=re.M)
    if not m:
        return []
    return m.group(1).replace("\\\n", " ").split()


def project_flags(repo):
    txt = open(os.path.join(repo, "Makefile")).read()
    cflags = [f for f in make_var(txt, "CFLAGS") if f != "-MMD"]
    rel = make_var(txt, "CRELFLAGS")
    if not cflags:
        raise TranslatorError("could not read CFLAGS from the Makefile")
    return cflags, rel


def public_headers(repo):
    d = os.path.join(repo, "include", "cstl")
    return sorted(h for h in os.listdir(d) if h.endswith(".h") and h not in EXCLUDED_HEADERS)


# ---------------------------------------------------------------------------
# scratch copy + library build


def scratch_copy(repo=None):
    repo = repo or vlib.REPO
    d = vlib.mktmp("link")
    dst = os.path.join(d, "repo")

    def ignore(path, names):
        rel = os.path.relpath(path, repo)
        if rel == ".":
            return [n for n in names if n == ".git"]
        if rel == "build" or rel.startswith("build" + os.sep):
            # keep the directory skeleton, drop every build product
            return [n for n in names if not os.path.isdir(os.path.join(path, n)) and n != ".gitkeep"]
        return []
    shutil.copytree(repo, dst, ignore=ignore, symlinks=True)
    for sub in ("build", "build/test", "build/benches"):
        os.makedirs(os.path.join(dst, sub), exist_ok=True)
    return dst


def build_libs(copy):
    r = sh(["make", "-j8", "build/libcstl.a", "build/libcstl.so"], cwd=copy)
    a = os.path.join(copy, "build", "libcstl.a")
    so = os.path.join(copy, "build", "libcstl.so")
    if r.returncode != 0 or not os.path.exists(a) or not os.path.exists(so):
        raise TranslatorError("`make build/libcstl.a build/libcstl.so` failed:\n" + r.stdout[-3000:])
    return a, so


# ---------------------------------------------------------------------------
# nm


def nm_defs(path, dynamic=False):
    """(strong, weak) lists of globally visible defined symbols, in nm order
    (duplicates kept: an archive defining a symbol in two members is a fact
    the table must show)"""
    cmd = ["nm", "-P", "--defined-only"] + (["-D"] if dynamic else ["-g"]) + [path]
    r = sh(cmd)
    if r.returncode != 0:
        raise TranslatorError("nm failed on %s:\n%s" % (path, r.stdout[-1000:]))
    strong, weak = [], []
    for line in r.stdout.split("\n"):
        w = line.split()
        if len(w) < 2 or line.endswith(":") or w[0].endswith(":"):
            continue
        name, typ = w[0], w[1]
        name = name.split("@")[0]
        if typ in STRONG:
            strong.append(name)
        elif typ in WEAK:
            weak.append(name)
    return strong, weak


# ---------------------------------------------------------------------------
# declarations: clang JSON AST


def _walk_locs(node, state):
    """clang prints "file" in a source location only when it differs from the
    previously printed location; replay that in document order"""
    if isinstance(node, dict):
        if "offset" in node or "line" in node or "file" in node or "spellingLoc" in node:
            # a bare location object
            for k in ("spellingLoc", "expansionLoc"):
                if k in node:
                    _walk_locs(node[k], state)
            if "file" in node:
                state["file"] = node["file"]
            node["__file"] = state["file"]
            return
        for k, v in node.items():
            if k == "inner":
                continue
            _walk_locs(v, state)
        for v in node.get("inner", []):
            _walk_locs(v, state)
    elif isinstance(node, list):
        for v in node:
            _walk_locs(v, state)


def _has_body(fn):
    return any(c.get("kind") == "CompoundStmt" for c in fn.get("inner", []))


def decls_clang(copy, header, cflags):
    """-> (declared-not-defined external functions/objects, all external
    function names declared in cstl headers) for a TU that includes only
    `header`, or None when clang-14 is not usable"""
    clang = shutil.which("clang-14") or shutil.which("clang")
    if not clang:
        return None
    d = os.path.join(os.path.dirname(copy), "ast")
    os.makedirs(d, exist_ok=True)
    src = os.path.join(d, "tu_%s.c" % header.replace(".", "_"))
    with open(src, "w") as fh:
        fh.write('#include "cstl/%s"\n' % header)
    flags = [f for f in cflags if not f.startswith("-W")]
    r = subprocess.run([clang] + flags + ["-I", os.path.join(copy, "include"), "-fsyntax-only",
                        "-Xclang", "-ast-dump=json", src],
                       stdout=subprocess.PIPE, stderr=subprocess.PIPE, universal_newlines=True)
    if r.returncode != 0:
        raise TranslatorError("clang could not parse a TU that includes only cstl/%s:\n%s"
                              % (header, r.stderr[-2000:]))
    ast = json.loads(r.stdout)
    _walk_locs(ast, {"file": ""})
    incdir = os.path.join(copy, "include", "cstl") + os.sep
    fns = {}
    objs = {}
    order = []
    for n in ast.get("inner", []):
        kind = n.get("kind")
        if kind not in ("FunctionDecl", "VarDecl") or n.get("isImplicit"):
            continue
        loc = n.get("loc", {})
        f = loc.get("__file") or (loc.get("expansionLoc") or {}).get("__file") or ""
        f = os.path.normpath(f) if f else ""
        if not (f + os.sep).startswith(incdir) and not f.startswith(incdir):
            continue
        name = n.get("name")
        sc = n.get("storageClass")
        if name not in order:
            order.append(name)
        if kind == "FunctionDecl":
            e = fns.setdefault(name, {"static": False, "defined": False})
            if sc == "static":
                e["static"] = True
            if _has_body(n):
                # C99: a plain `inline` definition (no static, no extern) provides no
                # external definition; a reference may still need one from elsewhere
                if not (n.get("inline") and sc is None):
                    e["defined"] = True
        else:
            e = objs.setdefault(name, {"static": False, "defined": False})
            if sc == "static":
                e["static"] = True
            if sc != "extern" or "init" in n:
                e["defined"] = True
    undefined = [nm for nm in order
                 if (nm in fns and not fns[nm]["static"] and not fns[nm]["defined"])
                 or (nm in objs and not objs[nm]["static"] and not objs[nm]["defined"])]
    is_fn = {nm: nm in fns for nm in undefined}
    return undefined, is_fn


# fallback: gcc -E with line markers + a regex for prototypes

def decls_regex(copy, header, cflags):
    d = os.path.join(os.path.dirname(copy), "ast")
    os.makedirs(d, exist_ok=True)
    src = os.path.join(d, "tu_%s.c" % header.replace(".", "_"))
    with open(src, "w") as fh:
        fh.write('#include "cstl/%s"\n' % header)
    r = sh(["gcc"] + [f for f in cflags if not f.startswith("-W")] +
           ["-I", os.path.join(copy, "include"), "-E", src])
    if r.returncode != 0:
        raise TranslatorError("gcc -E failed for cstl/%s:\n%s" % (header, r.stdout[-2000:]))
    incdir = os.path.join(copy, "include", "cstl") + os.sep
    text, keep = [], False
    for line in r.stdout.split("\n"):
        m = re.match(r'#\s*\d+\s+"([^"]*)"', line)
        if m:
            keep = os.path.normpath(m.group(1)).startswith(incdir)
            continue
        if keep:
            text.append(line)
    body = "\n".join(text)
    # drop function bodies / struct bodies at depth >= 1
    out, depth = [], 0
    for ch in body:
        if ch == "{":
            depth += 1
            if depth == 1:
                out.append("{")
        elif ch == "}":
            depth -= 1
            if depth == 0:
                out.append("}")
        elif depth == 0:
            out.append(ch)
    flat = "".join(out)
    names, is_fn = [], {}
    # statements at file scope: text between ';' / '{}' separators
    stmts = re.split(r";|\{\}", flat)
    ends = [m.group(0) for m in re.finditer(r";|\{\}", flat)]
    defined = set()
    protos = []
    for st, end in zip(stmts, ends + [";"]):
        st = " ".join(st.split())
        m = re.match(r"^(.*?[\s\*])([A-Za-z_]\w*)\s*\((.*)\)$", st)
        if not m or "(" in m.group(1):
            m2 = re.match(r"^extern\b[^()]*?([A-Za-z_]\w*)\s*(\[[^\]]*\])?$", st)
            if m2 and end == ";" and m2.group(1) not in names:
                protos.append((m2.group(1), False, ""))
            continue
        spec, name = m.group(1), m.group(2)
        if re.search(r"\btypedef\b", spec):
            continue
        if end == "{}":
            # C99: plain `inline` (no static / extern) provides no external definition
            if not (re.search(r"\binline\b", spec) and not re.search(r"\b(static|extern)\b", spec)):
                defined.add(name)
            if re.search(r"\bstatic\b", spec):
                defined.add(name)
            continue
        protos.append((name, True, spec))
    statics = set(n for n, f, spec in protos if f and re.search(r"\bstatic\b", spec))
    for name, f, spec in protos:
        if name in defined or name in statics or name in names:
            continue
        names.append(name)
        is_fn[name] = f
    return names, is_fn


# ---------------------------------------------------------------------------
# tables


def header_defs(copy, header, cflags, optflags=("-O0",)):
    d = os.path.join(os.path.dirname(copy), "obj")
    os.makedirs(d, exist_ok=True)
    src = os.path.join(d, "only_%s.c" % header.replace(".", "_"))
    obj = src[:-2] + ".o"
    with open(src, "w") as fh:
        fh.write('#include "cstl/%s"\n' % header)
    r = sh(["gcc"] + cflags + list(optflags) + ["-I", os.path.join(copy, "include"), "-c", src, "-o", obj])
    if r.returncode != 0:
        raise TranslatorError("a translation unit that includes only cstl/%s does not compile:\n%s"
                              % (header, r.stdout[-2000:]))
    strong, weak = nm_defs(obj)
    return strong, weak, r.stdout.strip()


def compute_tables(repo=None):
    """-> dict with everything C18 needs (python data) for the given repo"""
    repo = repo or vlib.REPO
    copy = scratch_copy(repo)
    cflags, relflags = project_flags(copy)
    a, so = build_libs(copy)
    headers = public_headers(copy)
    tab = {"repo": repo, "copy": copy, "cflags": cflags, "relflags": relflags, "lib_a": a, "lib_so": so,
           "headers": [], "decl_source": "clang-14 -Xclang -ast-dump=json", "compile_warnings": {},
           "decl_cross_check_differences": {}}
    a_strong, a_weak = nm_defs(a)
    so_strong, so_weak = nm_defs(so, dynamic=True)
    tab["libA"] = a_strong
    tab["libA_weak"] = a_weak
    tab["libSo"] = so_strong
    tab["libSo_weak"] = so_weak
    for h in headers:
        strong, weak, warn = header_defs(copy, h, cflags)
        if warn:
            tab["compile_warnings"][h] = warn[:500]
        got = decls_clang(copy, h, cflags)
        if got is None:
            tab["decl_source"] = "gcc -E + regex (clang not available)"
            got = decls_regex(copy, h, cflags)
        else:
            # second opinion (never authoritative): the preprocessor + regex reading
            try:
                alt, _ = decls_regex(copy, h, cflags)
                if sorted(alt) != sorted(got[0]):
                    tab["decl_cross_check_differences"][h] = sorted(set(alt) ^ set(got[0]))
            except TranslatorError as e:
                tab["decl_cross_check_differences"][h] = ["regex reading failed: %s" % str(e)[:200]]
        undefined, is_fn = got
        # a symbol the TU itself defines (strongly or weakly) needs nothing from the library
        undefined = [s for s in undefined if s not in strong and s not in weak]
        tab["headers"].append({"name": h, "defs": strong, "weak": weak, "decls": undefined,
                               "is_fn": {s: is_fn[s] for s in undefined}})
    return tab


def lean_text(tab):
    """the generated Lean module (deterministic: independent of scratch paths)"""
    names = []
    idx = {}

    def sid(s):
        if s not in idx:
            idx[s] = len(names)
            names.append(s)
        return idx[s]
    # number library symbols first (sorted), then whatever only headers mention
    for s in sorted(set(tab["libA"]) | set(tab["libSo"]) | set(tab["libA_weak"]) | set(tab["libSo_weak"])):
        sid(s)
    for h in tab["headers"]:
        for s in h["defs"] + h["decls"]:
            sid(s)

    def lst(xs):
        return "[" + ", ".join(str(sid(x)) for x in xs) + "]"
    out = []
    out.append("import Cstl.Link.Model")
    out.append("/-")
    out.append("GENERATED by tools/linktab.py on every run of the C18 check — do not edit.")
    out.append("Source: `make build/libcstl.a build/libcstl.so` + one translation unit per public")
    out.append("header, compiled with the project's CFLAGS (%s);" % " ".join(tab["cflags"]))
    out.append("declarations from: %s." % tab["decl_source"])
    out.append("A symbol's number is its index in `symNames`.")
    out.append("-/")
    out.append("namespace Cstl.Gen")
    out.append("open Cstl.Link")
    out.append("")
    out.append("def symNames : Array String := #[")
    for i in range(0, len(names), 4):
        out.append("  " + ", ".join('"%s"' % n for n in names[i:i + 4]) + ("," if i + 4 < len(names) else ""))
    out.append("]")
    out.append("")
    out.append("def tab : Tab where")
    out.append("  headers := [")
    for i, h in enumerate(tab["headers"]):
        out.append('    { name := "%s",' % h["name"])
        out.append("      defs := %s,   -- %s" % (lst(h["defs"]), " ".join(h["defs"]) or "none"))
        out.append("      decls := %s }%s" % (lst(h["decls"]), "," if i + 1 < len(tab["headers"]) else ""))
    out.append("  ]")
    # weak definitions resolve references as well (none are expected in libcstl)
    out.append("  libA := %s" % lst(tab["libA"] + [s for s in tab["libA_weak"] if s not in tab["libA"]]))
    out.append("  libSo := %s" % lst(tab["libSo"] + [s for s in tab["libSo_weak"] if s not in tab["libSo"]]))
    out.append("")
    out.append("end Cstl.Gen")
    return "\n".join(out) + "\n"


def write_lean(tab, path=GEN_LEAN):
    """refresh the committed copy; untouched when nothing changed (so that
    `lake build` stays a no-op)"""
    txt = lean_text(tab)
    os.makedirs(os.path.dirname(path), exist_ok=True)
    old = open(path).read() if os.path.exists(path) else None
    if old != txt:
        tmp = path + ".tmp%d" % os.getpid()
        with open(tmp, "w") as fh:
            fh.write(txt)
        os.replace(tmp, path)
        return True
    return False


# ---------------------------------------------------------------------------
# python reading of the obligation (to name the witness when `decide` fails)


def table_witnesses(tab):
    """programs the link model rejects, smallest first:
    [(description, [[headers of TU1], [headers of TU2]...], symbol, lib)]"""
    out = []
    for h in tab["headers"]:
        if h["defs"]:
            out.append(("header %s emits the strong external definition(s) %s: two translation units "
                        "that include it define them twice" % (h["name"], " ".join(h["defs"])),
                        [[h["name"]], [h["name"]]], h["defs"][0], "both"))
    for lib, key, wkey in (("a", "libA", "libA_weak"), ("so", "libSo", "libSo_weak")):
        have = set(tab[key]) | set(tab[wkey])
        dup = sorted(set(s for s in tab[key] if tab[key].count(s) > 1))
        if dup:
            out.append(("libcstl.%s defines %s more than once" % (lib, " ".join(dup)),
                        [[tab["headers"][0]["name"]]] if tab["headers"] else [[]], dup[0], lib))
        for h in tab["headers"]:
            for s in h["decls"]:
                if s not in have:
                    out.append(("%s declares %s, which libcstl.%s does not define" % (h["name"], s, lib),
                                [[h["name"]]], s, lib))
    return out


def main():
    tab = compute_tables()
    changed = write_lean(tab)
    print("%s %s: %d headers, %d symbols in libcstl.a, %d in libcstl.so; declarations via %s"
          % ("rewrote" if changed else "unchanged", GEN_LEAN, len(tab["headers"]),
             len(tab["libA"]), len(tab["libSo"]), tab["decl_source"]))
    for h in tab["headers"]:
        print("  %-10s defs=%-40s decls=%d" % (h["name"], ",".join(h["defs"]) or "-", len(h["decls"])))
    w = table_witnesses(tab)
    for d in w[:10]:
        print("  NOT OK:", d[0])
    vlib.cleanup()
    return 1 if w else 0


if __name__ == "__main__":
    sys.exit(main())
