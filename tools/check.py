#!/usr/bin/env python3
"""Entry point of every registered check:  tools/check.py <Cnn> --tier quick|thorough
(see DESIGN.md section 3.5 for the verdict protocol)."""
import argparse
import importlib
import json
import os
import sys
import traceback

sys.path.insert(0, os.path.dirname(os.path.abspath(__file__)))
import vlib  # noqa: E402
import signal
signal.signal(signal.SIGPIPE, signal.SIG_DFL)


def load_prop_module(pid):
    return importlib.import_module("props." + pid)


def main():
    ap = argparse.ArgumentParser()
    ap.add_argument("prop", nargs="?")
    ap.add_argument("--tier", default=os.environ.get("VERIF_TIER", "quick"), choices=["quick", "thorough"])
    ap.add_argument("--setup", action="store_true")
    ap.add_argument("--replay")
    a = ap.parse_args()
    seed = int(os.environ.get("VERIF_SEED", "1"))
    try:
        if a.setup:
            ok, out = vlib.lake_build(["Cstl"])
            if not ok:
                print(out[-4000:])
                return 2
            # model drivers: best effort here; a check that needs a driver
            # builds it again itself and reports if that fails
            for exe in vlib.all_exes():
                ok, out = vlib.lake_build([exe])
                print("setup: %s %s" % (exe, "ok" if ok else "FAILED"))
            print("setup ok")
            return 0
        mod = load_prop_module(a.prop)
        if a.replay:
            return mod.replay(a.replay)
        chk = vlib.Check(a.prop, a.tier, seed)
        try:
            return mod.run(chk)
        except Exception:
            # the machinery itself failed on this tree (e.g. a translator or parser met
            # code it cannot handle): the property is no longer shown to hold
            tb = traceback.format_exc()
            sys.stderr.write(tb)
            chk.build_problems.append(("the check machinery raised an exception before reaching a verdict", tb[-1500:]))
            return chk.finish()
    finally:
        vlib.cleanup()


if __name__ == "__main__":
    try:
        sys.exit(main())
    except SystemExit:
        raise
    except Exception:
        traceback.print_exc()
        # an internal error of the machinery is not a verdict about the property
        sys.exit(3)
