#!/usr/bin/env python3
"""Entry point of every registered check:  tools/check.py <Cnn> --tier quick|thorough
(see DESIGN.md section 3.5 for the verdict protocol)."""
import argparse
import importlib
import json
import os
import sys
import traceback

sys.path.insert(0, os.path.dirname(os.path.abspath(__file__)))
import vlib  # noqa: E402
import signal
signal.signal(signal.SIGPIPE, signal.SIG_DFL)


def load_prop_module(pid):
    return importlib.import_module("props." + pid)


def install_guards():
    """An exception inside a translator / tie stage (a translator that cannot read changed code) must
    not keep the rest of the check from running: the correspondence runs and the oracle are what can
    still exhibit a concrete failing input.  The exception is recorded as a problem of the run (the
    verdict is then a VIOLATION, with or without a failing input)."""
    import functools
    import types

    def guard(fn, label):
        @functools.wraps(fn)
        def wrapped(chk, *a, **kw):
            try:
                return fn(chk, *a, **kw)
            except Exception:
                tb = traceback.format_exc()
                sys.stderr.write(tb)
                chk.build_problems.append(("%s raised an exception on this source tree" % label, tb[-1500:]))
                return False
        wrapped._guarded = True
        return wrapped

    for name, mod in list(sys.modules.items()):
        if not isinstance(mod, types.ModuleType) or not (name.startswith("areas.") or name == "vlib"):
            continue
        for attr in ("tie_run", "tie2_run", "link_level_run", "translator_tie"):
            fn = getattr(mod, attr, None)
            if callable(fn) and not getattr(fn, "_guarded", False):
                setattr(mod, attr, guard(fn, "%s.%s" % (name, attr)))


def main():
    ap = argparse.ArgumentParser()
    ap.add_argument("prop", nargs="?")
    ap.add_argument("--tier", default=os.environ.get("VERIF_TIER", "quick"), choices=["quick", "thorough"])
    ap.add_argument("--setup", action="store_true")
    ap.add_argument("--replay")
    a = ap.parse_args()
    seed = int(os.environ.get("VERIF_SEED", "1"))
    try:
        if a.setup:
            ok, out = vlib.lake_build(["Cstl"])
            if not ok:
                print(out[-4000:])
                return 2
            # model drivers: best effort here; a check that needs a driver
            # builds it again itself and reports if that fails
            for exe in vlib.all_exes():
                ok, out = vlib.lake_build([exe])
                print("setup: %s %s" % (exe, "ok" if ok else "FAILED"))
            print("setup ok")
            return 0
        mod = load_prop_module(a.prop)
        if a.replay:
            return mod.replay(a.replay)
        chk = vlib.Check(a.prop, a.tier, seed)
        install_guards()
        try:
            return mod.run(chk)
        except Exception:
            # the machinery itself failed on this tree (e.g. a translator or parser met
            # code it cannot handle): the property is no longer shown to hold
            tb = traceback.format_exc()
            sys.stderr.write(tb)
            chk.build_problems.append(("the check machinery raised an exception before reaching a verdict", tb[-1500:]))
            return chk.finish()
    finally:
        vlib.cleanup()


if __name__ == "__main__":
    try:
        sys.exit(main())
    except SystemExit:
        raise
    except Exception:
        traceback.print_exc()
        # an internal error of the machinery is not a verdict about the property
        sys.exit(3)
