#!/bin/sh
# run the quick tier of every claimed check at several seeds (flakiness probe)
cd "$(dirname "$0")/.."
python3 tools/check.py --setup > /dev/null 2>&1
for seed in ${@:-1 2 3}; do
  for id in $(python3 -c "import json; print(' '.join(c['property_id'] for c in json.load(open('MANIFEST.json'))['checks']))"); do
    out=$(VERIF_SEED=$seed python3 tools/check.py $id --tier quick 2>&1 | grep -E "^(OK|VIOLATION|KNOWN-FINDING|Traceback)" | head -2)
    echo "seed=$seed $id $out"
  done
done
