#!/usr/bin/env python3
"""
Translator: loop-free pointer-manipulating C functions of libcstl  ->  Lean 4.

Reads the typed AST that clang produces for /repo's *current* source and emits
Lean definitions in the vocabulary of the hand-written link-level models
(`upd` on link-field memories, header structures).  `lean/Cstl/*/Tie.lean`
(hand-written, fixed) then states `generated = model` for each function and the
kernel re-checks these equalities on every run: a change to one of these C
functions changes the generated definition and the equality stops checking.

Supported C subset (everything else raises Unsupported and the function is
reported as "not translated"; the correspondence check remains the tie there):
assignments through `->` on node pointers and list headers, `&l->h`, NULL,
locals with initialisers, `if` (with early `return`), `++`/`--`/`+=` on header
counters, calls to other translated functions and to the identity-like
helpers (`__cstl_*_node`, `__cstl_*_element`, `cstl_*_size`, `cstl_*_init`).
"""
import json
import os
import subprocess
import sys


class Unsupported(Exception):
    pass


def clang_ast(repo, src, names):
    cmd = ["clang-14", "-std=c99", "-DNDEBUG", "-D_POSIX_C_SOURCE=199309L",
           "-I", os.path.join(repo, "include"), "-fsyntax-only",
           "-Xclang", "-ast-dump=json", os.path.join(repo, "src", src)]
    r = subprocess.run(cmd, stdout=subprocess.PIPE, stderr=subprocess.PIPE, universal_newlines=True)
    if r.returncode != 0:
        raise Unsupported("clang failed on %s: %s" % (src, r.stderr[-500:]))
    tu = json.loads(r.stdout)
    out = {}
    for d in tu.get("inner", []):
        if d.get("kind") == "FunctionDecl" and d.get("name") in names:
            if any(c.get("kind") == "CompoundStmt" for c in d.get("inner", [])):
                out[d["name"]] = d
    return out


class Cfg:
    """per-area vocabulary"""

    def __init__(self, hdr_struct, node_fields, hdr_fields, head_member, ident_fns, size_fn, init_fn, lean_ns):
        self.hdr_struct = hdr_struct          # 'cstl_slist'
        self.node_fields = node_fields        # C field -> Lean memory variable, e.g. {'n': 'm'}
        self.hdr_fields = hdr_fields          # C field -> Lean header field, e.g. {'t': 't', 'count': 'count'}
        self.head_member = head_member        # 'h'
        self.ident_fns = ident_fns            # functions returning their 2nd argument
        self.size_fn = size_fn                # (C function, header field)
        self.init_fn = init_fn                # C init function name
        self.lean_ns = lean_ns


KEYWORDS = {"in", "at", "from", "to", "end", "by", "do", "then", "else", "fun", "let", "have", "show", "open"}


def lname(n):
    return "«%s»" % n if n in KEYWORDS else n


class Fn:
    def __init__(self, cfg, decl, known):
        self.cfg = cfg
        self.decl = decl
        self.known = known      # name -> Fn (already translated callees)
        self.name = decl["name"]
        self.params = [p for p in decl["inner"] if p["kind"] == "ParmVarDecl"]
        self.body = [c for c in decl["inner"] if c["kind"] == "CompoundStmt"][0]
        self.hdrs = []
        self.vals = []
        for p in self.params:
            t = p["type"]["qualType"]
            if "struct %s *" % cfg.hdr_struct in t:
                self.hdrs.append(p["name"])
            else:
                self.vals.append(p["name"])
        rt = decl["type"]["qualType"].split("(")[0].strip()
        self.ret = None if rt == "void" else rt
        self.mems = sorted(set(cfg.node_fields.values()))
        self.tmp = 0
        self.locals = []        # mutable locals declared so far (in order)
        self.prelude = []       # auxiliary definitions (loops) emitted before the function
        self.nloops = 0
        self.cbs = []           # function-pointer parameters (callbacks with no result)
        for p in self.params:
            if "(*" in p["type"]["qualType"] or "_func_t" in p["type"]["qualType"]:
                self.cbs.append(p["name"])
        self.vals = [v for v in self.vals if v not in self.cbs]
        self.has_loop = self.contains_loop(self.body)

    def contains_loop(self, n):
        if not isinstance(n, dict):
            return False
        if n.get("kind") in ("WhileStmt", "ForStmt"):
            return True
        if n.get("kind") == "DoStmt":
            # `do { … } while (0)` (macro idiom) is not a loop
            return any(self.contains_loop(c) for c in n.get("inner", [])[:1])
        return any(self.contains_loop(c) for c in n.get("inner", []))

    # ---- state tuple
    def scope_vars(self):
        return self.mems + [lname(h) for h in self.hdrs] + [lname(v) for v in self.locals]

    def scope_types(self):
        return ["Mem"] * len(self.mems) + ["Hd"] * len(self.hdrs) + ["Nat"] * len(self.locals)

    def state(self):
        vs = self.scope_vars()
        return "(" + ", ".join(vs) + ")" if len(vs) > 1 else vs[0]

    def cb_type(self):
        return " → ".join(["Mem"] * len(self.mems) + ["Nat"]) + " → " + " × ".join(["Mem"] * len(self.mems))

    def result(self, retv):
        st = ", ".join(self.mems + [lname(h) for h in self.hdrs])
        r = "(%s, %s)" % (st, retv) if self.ret is not None else ("(%s)" % st if "," in st else st)
        return "some %s" % r if self.has_loop else r

    # ---- expressions
    def strip(self, e):
        while e["kind"] in ("ImplicitCastExpr", "ParenExpr", "CStyleCastExpr", "ConstantExpr"):
            if e["kind"] in ("ImplicitCastExpr", "CStyleCastExpr") and e.get("castKind") == "NullToPointer":
                return {"kind": "NULL"}
            e = e["inner"][0]
        return e

    def is_hdr_ref(self, e):
        e = self.strip(e)
        return e["kind"] == "DeclRefExpr" and e["referencedDecl"]["name"] in self.hdrs

    def expr(self, e):
        e = self.strip(e)
        k = e["kind"]
        if k == "NULL":
            return "0"
        if k == "IntegerLiteral":
            return e["value"]
        if k == "DeclRefExpr":
            n = e["referencedDecl"]["name"]
            if n in self.hdrs:
                # the head node is the first member of the list structure, so the
                # list's address is the address of its head node
                return "%s.h" % lname(n)
            return lname(n)
        if k == "UnaryOperator" and e["opcode"] == "&":
            inner = self.strip(e["inner"][0])
            if inner["kind"] == "MemberExpr" and inner["name"] == self.cfg.head_member and self.is_hdr_ref(inner["inner"][0]):
                return "%s.h" % lname(self.strip(inner["inner"][0])["referencedDecl"]["name"])
            raise Unsupported("address-of")
        if k == "MemberExpr":
            base = self.strip(e["inner"][0])
            f = e["name"]
            if e.get("isArrow"):
                if self.is_hdr_ref(base):
                    h = lname(base["referencedDecl"]["name"])
                    if f in self.cfg.hdr_fields:
                        return "%s.%s" % (h, self.cfg.hdr_fields[f])
                    if f == "off":
                        # all lists of one harness/model hold one element type: equal offsets
                        return "0"
                    raise Unsupported("header field %s" % f)
                if f in self.cfg.node_fields:
                    return "(%s %s)" % (self.cfg.node_fields[f], self.atom(self.expr(base)))
                raise Unsupported("node field %s" % f)
            # l->h.n : non-arrow member of the embedded head node
            if base["kind"] == "MemberExpr" and base["name"] == self.cfg.head_member and self.is_hdr_ref(base["inner"][0]) \
                    and f in self.cfg.node_fields:
                h = lname(self.strip(base["inner"][0])["referencedDecl"]["name"])
                return "(%s %s.h)" % (self.cfg.node_fields[f], h)
            raise Unsupported("member access")
        if k == "CallExpr":
            callee = self.strip(e["inner"][0])
            fn = callee["referencedDecl"]["name"]
            args = e["inner"][1:]
            if fn in self.cfg.ident_fns:
                return self.expr(args[1])
            if fn == self.cfg.size_fn[0]:
                return "%s.%s" % (lname(self.strip(args[0])["referencedDecl"]["name"]), self.cfg.size_fn[1])
            raise Unsupported("call in expression position: %s" % fn)
        if k == "BinaryOperator":
            op = e["opcode"]
            a, b = e["inner"]
            if op in ("==", "!=", ">", "<", ">=", "<="):
                lop = {"==": "=", "!=": "≠"}.get(op, op)
                return "(%s %s %s)" % (self.expr(a), lop, self.expr(b))
            if op == "&&":
                return "(%s ∧ %s)" % (self.expr(a), self.expr(b))
            if op in ("+", "-"):
                return "(%s %s %s)" % (self.expr(a), op, self.expr(b))
        raise Unsupported("expression kind %s" % k)

    @staticmethod
    def atom(s):
        return s if (s.isidentifier() or s.startswith("(") or s.startswith("«") or "." in s and " " not in s) else "(%s)" % s

    # ---- lvalues
    def assign(self, lhs, rhs_txt):
        lhs = self.strip(lhs)
        if lhs["kind"] != "MemberExpr":
            raise Unsupported("assignment target")
        f = lhs["name"]
        base = self.strip(lhs["inner"][0])
        if lhs.get("isArrow"):
            if self.is_hdr_ref(base):
                h = lname(base["referencedDecl"]["name"])
                if f not in self.cfg.hdr_fields:
                    raise Unsupported("header field %s" % f)
                return "let %s := { %s with %s := %s }" % (h, h, self.cfg.hdr_fields[f], rhs_txt)
            if f in self.cfg.node_fields:
                mem = self.cfg.node_fields[f]
                return "let %s := upd %s %s %s" % (mem, mem, self.atom(self.expr(base)), self.atom(rhs_txt))
            raise Unsupported("node field %s" % f)
        if base["kind"] == "MemberExpr" and base["name"] == self.cfg.head_member and self.is_hdr_ref(base["inner"][0]) \
                and f in self.cfg.node_fields:
            h = lname(self.strip(base["inner"][0])["referencedDecl"]["name"])
            mem = self.cfg.node_fields[f]
            return "let %s := upd %s %s.h %s" % (mem, mem, h, self.atom(rhs_txt))
        raise Unsupported("assignment target")

    def call_stmt(self, e, want_value):
        """call to a translated function or the init helper; returns (lines, value_expr)"""
        callee = self.strip(e["inner"][0])
        fn = callee["referencedDecl"]["name"]
        args = e["inner"][1:]
        if fn == self.cfg.init_fn:
            h = lname(self.strip(args[0])["referencedDecl"]["name"])
            if len(self.mems) == 1:
                return ["let (%s, %s) := init %s %s.h" % (self.mems[0], h, self.mems[0], h)], None
            self.tmp += 1
            r = "i%d" % self.tmp
            lines = ["let %s := init { %s } %s.h" % (r, ", ".join("%s := %s" % (m, m) for m in self.mems), h)]
            lines += ["let %s := %s.1.%s" % (m, r, m) for m in self.mems]
            lines += ["let %s := %s.2" % (h, r)]
            return lines, None
        if fn not in self.known:
            raise Unsupported("call to untranslated function %s" % fn)
        g = self.known[fn]
        if g.has_loop or g.cbs:
            raise Unsupported("call to a function with a loop or a callback: %s" % fn)
        hargs = []
        vargs = []
        for p, a in zip(g.params, args):
            if p["name"] in g.hdrs:
                hargs.append(lname(self.strip(a)["referencedDecl"]["name"]))
            else:
                vargs.append(self.atom(self.expr(a)))
        call = "%s %s %s %s" % (g.lean_name(), " ".join(self.mems), " ".join(hargs), " ".join(vargs))
        outs = self.mems + hargs
        if g.ret is not None:
            self.tmp += 1
            rv = "r%d" % self.tmp
            return ["let (%s, %s) := %s" % (", ".join(outs), rv, call)], rv
        pat = "(%s)" % ", ".join(outs) if len(outs) > 1 else outs[0]
        return ["let %s := %s" % (pat, call)], None

    # ---- statements: returns list of lines; `ret` terminates
    def stmts(self, lst, ind, tail=True):
        out = []
        pad = "  " * ind
        for idx, s in enumerate(lst):
            k = s["kind"]
            rest = lst[idx + 1:]
            if k in ("ParenExpr", "NullStmt"):       # assert() under NDEBUG
                continue
            if k == "DeclStmt":
                for v in s["inner"]:
                    if v["kind"] != "VarDecl":
                        raise Unsupported("declaration")
                    if "struct" in v["type"]["qualType"] and "*" not in v["type"]["qualType"]:
                        continue        # scratch structure for cstl_swap: no model state
                    if v["name"] not in self.locals:
                        self.locals.append(v["name"])
                    if "inner" not in v:
                        out.append(pad + "let %s := 0" % lname(v["name"]))   # uninitialised
                        continue
                    init = self.strip(v["inner"][0])
                    if init["kind"] == "CallExpr" and self.strip(init["inner"][0])["referencedDecl"]["name"] in self.known:
                        lines, rv = self.call_stmt(init, True)
                        out += [pad + l for l in lines]
                        out.append(pad + "let %s := %s" % (lname(v["name"]), rv))
                    else:
                        out.append(pad + "let %s := %s" % (lname(v["name"]), self.expr(v["inner"][0])))
                continue
            if k == "BinaryOperator" and s["opcode"] == ",":
                out += self.stmts([s["inner"][0], s["inner"][1]], ind, tail=False)
                continue
            if k == "BinaryOperator" and s["opcode"] == "=":
                lhs = self.strip(s["inner"][0])
                if lhs["kind"] == "DeclRefExpr" and lhs["referencedDecl"]["name"] in self.locals:
                    out.append(pad + "let %s := %s" % (lname(lhs["referencedDecl"]["name"]), self.expr(s["inner"][1])))
                    continue
                rhs = self.strip(s["inner"][1])
                if rhs["kind"] == "BinaryOperator" and rhs["opcode"] == "=":
                    # chained assignment a = b = v: the right assignment first, then a = v
                    out += self.stmts([rhs], ind, tail=False)
                    out.append(pad + self.assign(s["inner"][0], self.expr(rhs["inner"][1])))
                    continue
                out.append(pad + self.assign(s["inner"][0], self.expr(s["inner"][1])))
                continue
            if k == "DoStmt":
                cond = self.strip(s["inner"][1])
                if cond["kind"] == "IntegerLiteral" and cond["value"] == "0":
                    body = s["inner"][0]
                    out += self.stmts(body["inner"] if body["kind"] == "CompoundStmt" else [body], ind, tail=False)
                    continue
                raise Unsupported("do-while loop")
            if k in ("WhileStmt", "ForStmt"):
                if k == "ForStmt":
                    init, _, cond, incr, body = s["inner"]
                    if init and init.get("kind"):
                        out += self.stmts([init], ind, tail=False)
                else:
                    cond, body = s["inner"][0], s["inner"][1]
                    incr = None
                self.nloops += 1
                lname_ = "%s_loop%d" % (self.lean_name(), self.nloops)
                vs = self.scope_vars()
                tys = self.scope_types()
                consts = [lname(v) for v in self.vals]
                cbs = [lname(c) for c in self.cbs]
                nlocals = len(self.locals)
                condtxt = self.expr(cond)
                blines = self.stmts(body["inner"] if body["kind"] == "CompoundStmt" else [body], 3, tail=False)
                if incr and incr.get("kind"):
                    blines += self.stmts([incr], 3, tail=False)
                # locals declared inside the body do not survive an iteration
                self.locals = self.locals[:nlocals]
                tup = "(" + ", ".join(vs) + ")" if len(vs) > 1 else vs[0]
                hdr = "def %s %s%s: Nat → %s → Option (%s)" % (
                    lname_,
                    "".join("(%s : %s) " % (c, self.cb_type()) for c in cbs),
                    ("(" + " ".join(consts) + " : Nat) ") if consts else "",
                    " → ".join(tys), " × ".join(tys))
                args = " ".join(cbs + consts)
                d = [hdr,
                     "  | 0, %s => if %s then none else some %s" % (", ".join(vs), condtxt, tup),
                     "  | fuel + 1, %s =>" % ", ".join(vs),
                     "    if %s then" % condtxt]
                d += blines
                d.append("      %s %s fuel %s" % (lname_, args, " ".join(vs)))
                d.append("    else some %s" % tup)
                self.prelude.append("\n".join(d) + "\n")
                out.append(pad + "match %s %s fuel %s with" % (lname_, args, " ".join(vs)))
                out.append(pad + "| none => none")
                out.append(pad + "| some %s =>" % tup)
                out += self.stmts(rest, ind + 1)
                return out
            if k == "CompoundAssignOperator" and s["opcode"] in ("+=", "-="):
                cur = self.expr(s["inner"][0])
                out.append(pad + self.assign(s["inner"][0], "%s %s %s" % (cur, s["opcode"][0], self.expr(s["inner"][1]))))
                continue
            if k == "UnaryOperator" and s["opcode"] in ("++", "--"):
                cur = self.expr(s["inner"][0])
                out.append(pad + self.assign(s["inner"][0], "%s %s 1" % (cur, "+" if s["opcode"] == "++" else "-")))
                continue
            if k == "CallExpr":
                callee = self.strip(s["inner"][0])
                cname = callee.get("referencedDecl", {}).get("name")
                if cname in self.cbs:
                    # callback without result: an arbitrary effect on the link memories
                    a0 = self.strip(s["inner"][1])
                    if a0["kind"] == "CallExpr" and self.strip(a0["inner"][0])["referencedDecl"]["name"] in self.known:
                        lines, rv = self.call_stmt(a0, True)
                        out += [pad + l for l in lines]
                        arg = rv
                    else:
                        arg = self.atom(self.expr(s["inner"][1]))
                    pat = "(" + ", ".join(self.mems) + ")" if len(self.mems) > 1 else self.mems[0]
                    out.append(pad + "let %s := %s %s %s" % (pat, lname(cname), " ".join(self.mems), arg))
                    continue
                if cname == "cstl_swap":
                    a, b = s["inner"][1], s["inner"][2]
                    if self.is_hdr_ref(a) and self.is_hdr_ref(b):
                        ha = lname(self.strip(a)["referencedDecl"]["name"])
                        hb = lname(self.strip(b)["referencedDecl"]["name"])
                        for mem in self.mems:       # the embedded head nodes
                            out.append(pad + "let swp := %s %s.h" % (mem, ha))
                            out.append(pad + "let %s := upd %s %s.h (%s %s.h)" % (mem, mem, ha, mem, hb))
                            out.append(pad + "let %s := upd %s %s.h swp" % (mem, mem, hb))
                        flds = sorted(set(self.cfg.hdr_fields.values()))
                        out.append(pad + "let swh := %s" % ha)
                        out.append(pad + "let %s := { %s with %s }" % (ha, ha, ", ".join("%s := %s.%s" % (f, hb, f) for f in flds)))
                        out.append(pad + "let %s := { %s with %s }" % (hb, hb, ", ".join("%s := swh.%s" % (f, f) for f in flds)))
                        continue
                    ea, eb = self.atom(self.expr(a)), self.atom(self.expr(b))
                    for mem in self.mems:           # two nodes: exchange every link field
                        out.append(pad + "let swp := %s %s" % (mem, ea))
                        out.append(pad + "let %s := upd %s %s (%s %s)" % (mem, mem, ea, mem, eb))
                        out.append(pad + "let %s := upd %s %s swp" % (mem, mem, eb))
                    continue
                lines, _ = self.call_stmt(s, False)
                out += [pad + l for l in lines]
                continue
            if k == "ReturnStmt":
                if s.get("inner"):
                    e = self.strip(s["inner"][0])
                    if e["kind"] == "CallExpr":
                        fn = self.strip(e["inner"][0])["referencedDecl"]["name"]
                        if fn in self.cfg.ident_fns:
                            inner = self.strip(e["inner"][2])
                            if inner["kind"] == "CallExpr" and self.strip(inner["inner"][0])["referencedDecl"]["name"] in self.known:
                                lines, rv = self.call_stmt(inner, True)
                                out += [pad + l for l in lines]
                                out.append(pad + self.result(rv))
                                return out
                        elif fn in self.known:
                            lines, rv = self.call_stmt(e, True)
                            out += [pad + l for l in lines]
                            out.append(pad + self.result(rv))
                            return out
                    out.append(pad + self.result(self.expr(s["inner"][0])))
                else:
                    out.append(pad + self.result(None))
                return out
            if k == "IfStmt":
                cond = self.expr(s["inner"][0])
                then = s["inner"][1]
                els = s["inner"][2] if len(s["inner"]) > 2 else None
                tl = then["inner"] if then["kind"] == "CompoundStmt" else [then]
                el = (els["inner"] if els["kind"] == "CompoundStmt" else [els]) if els else []
                t_ret = self.ends_in_return(tl)
                e_ret = self.ends_in_return(el)
                if t_ret or e_ret or self.contains_loop(then) or (els is not None and self.contains_loop(els)):
                    # early return: the rest of the function belongs to the non-returning branch(es)
                    out.append(pad + "if %s then" % cond)
                    out += self.stmts(tl + ([] if t_ret else rest), ind + 1)
                    out.append(pad + "else")
                    out += self.stmts(el + ([] if e_ret else rest), ind + 1)
                    return out
                st = self.state()
                nloc = len(self.locals)
                out.append(pad + "let %s := if %s then (" % (st, cond))
                out += self.stmts(tl, ind + 2, tail=False)
                out.append(pad + "    %s)" % st)
                out.append(pad + "  else (")
                out += self.stmts(el, ind + 2, tail=False)
                out.append(pad + "    %s)" % st)
                self.locals = self.locals[:nloc]
                continue
            if k == "CompoundStmt":
                out += self.stmts(s["inner"], ind, tail=False)
                continue
            raise Unsupported("statement kind %s" % k)
        if tail:
            out.append(pad + self.result(None if self.ret is None else "0"))
        return out

    def ends_in_return(self, lst):
        return bool(lst) and lst[-1]["kind"] == "ReturnStmt"

    def lean_name(self):
        return "c_" + ("priv_" + self.name[2:] if self.name.startswith("__") else self.name)

    def render(self):
        body = self.stmts(self.body.get("inner", []), 1)
        cbs = "".join("(%s : %s) " % (lname(c), self.cb_type()) for c in self.cbs)
        fuel = "(fuel : Nat) " if self.has_loop else ""
        mems = " ".join("(%s : Mem)" % m for m in self.mems)
        hdrs = " ".join("(%s : Hd)" % lname(h) for h in self.hdrs)
        vals = (" (" + " ".join(lname(v) for v in self.vals) + " : Nat)") if self.vals else ""
        rty = " × ".join(["Mem"] * len(self.mems) + ["Hd"] * len(self.hdrs) + (["Nat"] if self.ret is not None else []))
        if self.has_loop:
            rty = "Option (%s)" % rty
        return "".join(p + "\n" for p in self.prelude) + "def %s %s%s%s %s%s : %s :=\n%s\n" % (
            self.lean_name(), cbs, fuel, mems, hdrs, vals, rty, "\n".join(body))


AREAS = {
    "slist": dict(
        src="slist.c",
        cfg=Cfg("cstl_slist", {"n": "m"}, {"t": "t", "count": "count"}, "h",
                ["__cstl_slist_node", "__cstl_slist_element"], ("cstl_slist_size", "count"), "cstl_slist_init",
                "Cstl.SList"),
        order=["__cstl_slist_insert_after", "__cstl_slist_erase_after", "cstl_slist_insert_after",
               "cstl_slist_erase_after", "cstl_slist_push_front", "cstl_slist_push_back", "cstl_slist_pop_front",
               "cstl_slist_front", "cstl_slist_back", "cstl_slist_concat", "cstl_slist_reverse", "cstl_slist_clear",
               "cstl_slist_swap"],
        header="import Cstl.SList.Model\n",
        opens="open Cstl.SList (Mem upd Hd init)\n",
        module="SListC",
    ),
    "dlist": dict(
        src="dlist.c",
        cfg=Cfg("cstl_dlist", {"n": "nx", "p": "pv"}, {"size": "size"}, "h",
                ["__cstl_dlist_node", "__cstl_dlist_element"], ("cstl_dlist_size", "size"), "cstl_dlist_init",
                "Cstl.DList"),
        order=["__cstl_dlist_insert", "__cstl_dlist_erase", "cstl_dlist_insert", "cstl_dlist_erase",
               "cstl_dlist_front", "cstl_dlist_back", "cstl_dlist_push_front", "cstl_dlist_push_back",
               "cstl_dlist_pop_front", "cstl_dlist_pop_back", "cstl_dlist_concat", "cstl_dlist_reverse",
               "cstl_dlist_clear", "cstl_dlist_swap"],
        header="import Cstl.DList.Model\n",
        opens="open Cstl.SList (Mem upd)\nopen Cstl.DList (Hd init)\n",
        module="DListC",
    ),
}


# ---------------------------------------------------------------------------
# trees (area `treel`): loop-free functions of src/bintree.c that manipulate
# `struct cstl_bintree_node` links, translated into the vocabulary of
# lean/Cstl/TreeL/Model.lean (`setP`/`setLf`/`setRt`/`setChL`/`setChR` on a
# `TM` memory, `chL`/`chR` for the `l`/`r` child-function parameters, `Hd`).
# The translation is a symbolic execution of the statement list: every
# assignment binds a fresh name, an `if` becomes one `if … then … else …` per
# variable it assigns (the condition is evaluated in the state before the `if`).
# A call to a function with a loop (e.g. `__cstl_bintree_next`) is not followed:
# its result becomes a parameter of the translated function.

import re as _re


class TreeFn:
    NODE_FIELDS = {"p": ("pr", "setP"), "l": ("lf", "setLf"), "r": ("rt", "setRt")}
    HDR_FIELDS = ("root", "size")

    def __init__(self, decl):
        self.decl = decl
        self.name = decl["name"]
        self.params = [p for p in decl["inner"] if p["kind"] == "ParmVarDecl"]
        self.body = [c for c in decl["inner"] if c["kind"] == "CompoundStmt"][0]
        self.hdr = None
        self.vals = []
        self.childfns = []
        for p in self.params:
            t = p["type"]["qualType"]
            if "struct cstl_bintree *" in t or "struct cstl_heap *" in t:
                self.hdr = p["name"]        # a heap is its embedded `bt` member
            elif "child_func_t" in t:
                self.childfns.append(p["name"])
            else:
                self.vals.append(p["name"])
        if self.hdr is None:
            raise Unsupported("no tree header parameter")
        if self.childfns not in ([], ["l", "r"]):
            raise Unsupported("child function parameters other than (l, r)")
        self.counter = {}
        self.extra_params = []      # results of calls that are not followed
        self.ret = decl["type"]["qualType"].split("(")[0].strip() != "void"

    # -- helpers
    def fresh(self, base):
        self.counter[base] = self.counter.get(base, 0) + 1
        return "%s%d" % (base, self.counter[base])

    def strip(self, e):
        while e["kind"] in ("ImplicitCastExpr", "ParenExpr", "CStyleCastExpr", "ConstantExpr"):
            if e["kind"] in ("ImplicitCastExpr", "CStyleCastExpr") and e.get("castKind") == "NullToPointer":
                return {"kind": "NULL"}
            e = e["inner"][0]
        return e

    @staticmethod
    def atom(s):
        return s if _re.match(r"^[A-Za-z_][A-Za-z0-9_.]*$", s) or s.startswith("(") or s.isdigit() else "(%s)" % s

    def hdr_field(self, e):
        """`bt->root` / `h->bt.root`: the header field name or None"""
        e = self.strip(e)
        if e["kind"] != "MemberExpr" or e["name"] not in self.HDR_FIELDS:
            return None
        base = self.strip(e["inner"][0])
        if e.get("isArrow"):
            if base["kind"] == "DeclRefExpr" and base["referencedDecl"]["name"] == self.hdr:
                return e["name"]
            return None
        if base["kind"] == "MemberExpr" and base["name"] == "bt" and base.get("isArrow"):
            b2 = self.strip(base["inner"][0])
            if b2["kind"] == "DeclRefExpr" and b2["referencedDecl"]["name"] == self.hdr:
                return e["name"]
        return None

    def child_call(self, e):
        """`*l(a)` / `*r(a)`: returns ('l'|'r', a) or None"""
        e = self.strip(e)
        if e["kind"] == "UnaryOperator" and e["opcode"] == "*":
            c = self.strip(e["inner"][0])
            if c["kind"] == "CallExpr":
                f = self.strip(c["inner"][0])
                if f["kind"] == "DeclRefExpr" and f["referencedDecl"]["name"] in self.childfns:
                    return f["referencedDecl"]["name"], c["inner"][1]
        return None

    def expr(self, e, env):
        e = self.strip(e)
        k = e["kind"]
        if k == "NULL":
            return "0"
        if k == "IntegerLiteral":
            return e["value"]
        cc = self.child_call(e)
        if cc:
            return "(%s %s d %s)" % ("chL" if cc[0] == "l" else "chR", env["m"], self.atom(self.expr(cc[1], env)))
        if k == "DeclRefExpr":
            n = e["referencedDecl"]["name"]
            if n not in env:
                raise Unsupported("reference to %s" % n)
            return env[n]
        if k == "MemberExpr" and self.hdr_field(e):
            return "%s.%s" % (env[self.hdr], self.hdr_field(e))
        if k == "MemberExpr" and e.get("isArrow"):
            base = self.strip(e["inner"][0])
            f = e["name"]
            if base["kind"] == "DeclRefExpr" and base["referencedDecl"]["name"] == self.hdr:
                raise Unsupported("header field %s" % f)
            if f in self.NODE_FIELDS:
                return "(%s.%s %s)" % (env["m"], self.NODE_FIELDS[f][0], self.atom(self.expr(base, env)))
            raise Unsupported("node field %s" % f)
        if k == "BinaryOperator":
            op = e["opcode"]
            a, b = e["inner"]
            if op in ("==", "!="):
                return "(%s %s %s)" % (self.expr(a, env), "=" if op == "==" else "≠", self.expr(b, env))
            if op == "&&":
                return "(%s ∧ %s)" % (self.expr(a, env), self.expr(b, env))
            if op == "||":
                return "(%s ∨ %s)" % (self.expr(a, env), self.expr(b, env))
        if k == "CallExpr":
            fn = self.strip(e["inner"][0]).get("referencedDecl", {}).get("name")
            nm = "call%d" % (len(self.extra_params) + 1)
            self.extra_params.append((nm, "%s(%s)" % (fn, ", ".join(self.expr(a, env) for a in e["inner"][1:]))))
            return nm
        raise Unsupported("expression kind %s" % k)

    def is_struct(self, e):
        t = e.get("type", {}).get("qualType", "")
        return "struct cstl_bintree_node" in t and "*" not in t

    # -- statements: symbolic execution; `lines` collects (name, expr)
    def assign(self, lhs, rhs, env, lines):
        lhs = self.strip(lhs)
        cc = self.child_call(lhs)
        if cc:
            v = self.atom(self.expr(rhs, env)) if not isinstance(rhs, str) else rhs
            n = self.fresh("m")
            lines.append((n, "%s %s d %s %s" % ("setChL" if cc[0] == "l" else "setChR", env["m"],
                                               self.atom(self.expr(cc[1], env)), v)))
            env["m"] = n
            return
        if lhs["kind"] == "DeclRefExpr":
            v = lhs["referencedDecl"]["name"]
            if self.strip(rhs)["kind"] == "DeclRefExpr" or True:
                n = self.fresh(v)
                lines.append((n, self.expr(rhs, env)))
                env[v] = n
            return
        if lhs["kind"] == "MemberExpr" and self.hdr_field(lhs):
            n = self.fresh(self.hdr)
            lines.append((n, "{ %s with %s := %s }" % (env[self.hdr], self.hdr_field(lhs), self.expr(rhs, env))))
            env[self.hdr] = n
            return
        if lhs["kind"] == "MemberExpr" and lhs.get("isArrow"):
            base = self.strip(lhs["inner"][0])
            f = lhs["name"]
            if f in self.NODE_FIELDS:
                n = self.fresh("m")
                lines.append((n, "%s %s %s %s" % (self.NODE_FIELDS[f][1], env["m"], self.atom(self.expr(base, env)),
                                                 self.atom(self.expr(rhs, env)))))
                env["m"] = n
                return
        raise Unsupported("assignment target")

    def exec(self, lst, env, lines):
        """returns True if the list ended in a return"""
        for s in lst:
            k = s["kind"]
            if k in ("ParenExpr", "NullStmt"):        # assert() under NDEBUG
                continue
            if k == "CompoundStmt":
                if self.exec(s.get("inner", []), env, lines):
                    return True
                continue
            if k == "DeclStmt":
                for v in s["inner"]:
                    if v["kind"] != "VarDecl":
                        raise Unsupported("declaration")
                    nm = v["name"]
                    if self.is_struct(v):
                        # `struct cstl_bintree_node t = *a;`  ->  three saved fields
                        if "inner" not in v:
                            raise Unsupported("uninitialised node structure")
                        src = self.strip(v["inner"][0])
                        if not (src["kind"] == "UnaryOperator" and src["opcode"] == "*"):
                            raise Unsupported("node structure initialiser")
                        a = self.atom(self.expr(src["inner"][0], env))
                        for f in ("p", "l", "r"):
                            n = self.fresh(nm + f)
                            lines.append((n, "%s.%s %s" % (env["m"], self.NODE_FIELDS[f][0], a)))
                            env[nm + "." + f] = n
                        continue
                    if "inner" not in v:
                        env[nm] = "0"                   # uninitialised pointer
                        continue
                    n = self.fresh(nm)
                    lines.append((n, self.expr(v["inner"][0], env)))
                    env[nm] = n
                continue
            if k == "BinaryOperator" and s["opcode"] == "=":
                lhs, rhs = s["inner"]
                if self.is_struct(s):
                    # struct copy through pointers / from a saved structure
                    dst = self.strip(lhs)
                    if not (dst["kind"] == "UnaryOperator" and dst["opcode"] == "*"):
                        raise Unsupported("structure assignment target")
                    d_ = self.atom(self.expr(dst["inner"][0], env))
                    src = self.strip(rhs)
                    if src["kind"] == "UnaryOperator" and src["opcode"] == "*":
                        a = self.atom(self.expr(src["inner"][0], env))
                        vals = ["(%s.%s %s)" % (env["m"], self.NODE_FIELDS[f][0], a) for f in ("p", "l", "r")]
                    elif src["kind"] == "DeclRefExpr" and (src["referencedDecl"]["name"] + ".p") in env:
                        t = src["referencedDecl"]["name"]
                        vals = [env[t + "." + f] for f in ("p", "l", "r")]
                    else:
                        raise Unsupported("structure assignment source")
                    n = self.fresh("m")
                    lines.append((n, "setRt (setLf (setP %s %s %s) %s %s) %s %s"
                                  % (env["m"], d_, vals[0], d_, vals[1], d_, vals[2])))
                    env["m"] = n
                    continue
                self.assign(lhs, rhs, env, lines)
                continue
            if k == "UnaryOperator" and s["opcode"] in ("++", "--"):
                t = self.strip(s["inner"][0])
                if t["kind"] == "MemberExpr" and t["name"] == "size":
                    n = self.fresh(self.hdr)
                    lines.append((n, "{ %s with size := %s.size %s 1 }"
                                  % (env[self.hdr], env[self.hdr], "+" if s["opcode"] == "++" else "-")))
                    env[self.hdr] = n
                    continue
                raise Unsupported("increment")
            if k == "IfStmt":
                c = self.expr(s["inner"][0], env)
                envT, envE = dict(env), dict(env)
                linesT, linesE = [], []
                rT = self.exec([s["inner"][1]], envT, linesT)
                rE = self.exec([s["inner"][2]], envE, linesE) if len(s["inner"]) > 2 else False
                if rT or rE:
                    raise Unsupported("return inside if")
                for v in sorted(set(list(envT) + list(envE)), key=lambda x: (x != "m", x != self.hdr, x)):
                    if v not in env:
                        continue                          # block-local
                    if envT.get(v) == envE.get(v):
                        continue
                    base = v.replace(".", "")
                    n = self.fresh(base)
                    lines.append((n, "if %s then %s else %s" % (c, self.block(linesT, envT[v]), self.block(linesE, envE[v]))))
                    env[v] = n
                continue
            if k == "ReturnStmt":
                self.retval = self.expr(s["inner"][0], env) if s.get("inner") else None
                return True
            if k == "CallExpr" and self.strip(s["inner"][0]).get("referencedDecl", {}).get("name") == "cstl_swap":
                # cstl_swap(&a->f, &b->f, &t, sizeof(t)): t = a->f; a->f = b->f; b->f = t
                tgt = []
                for a in s["inner"][1:3]:
                    a = self.strip(a)
                    if not (a["kind"] == "UnaryOperator" and a["opcode"] == "&"):
                        raise Unsupported("cstl_swap argument")
                    me = self.strip(a["inner"][0])
                    if not (me["kind"] == "MemberExpr" and me.get("isArrow") and me["name"] in self.NODE_FIELDS):
                        raise Unsupported("cstl_swap argument")
                    tgt.append((me["name"], self.atom(self.expr(me["inner"][0], env))))
                if tgt[0][0] != tgt[1][0]:
                    raise Unsupported("cstl_swap of different fields")
                fld, setter = self.NODE_FIELDS[tgt[0][0]]
                sw = self.fresh("sw")
                lines.append((sw, "%s.%s %s" % (env["m"], fld, tgt[0][1])))
                n1 = self.fresh("m")
                lines.append((n1, "%s %s %s (%s.%s %s)" % (setter, env["m"], tgt[0][1], env["m"], fld, tgt[1][1])))
                n2 = self.fresh("m")
                lines.append((n2, "%s %s %s %s" % (setter, n1, tgt[1][1], sw)))
                env["m"] = n2
                continue
            raise Unsupported("statement kind %s" % k)
        return False

    @staticmethod
    def toks(s):
        return set(_re.findall(r"[A-Za-z_][A-Za-z0-9_]*", s))

    def block(self, lines, final):
        """the lets `final` depends on, then `final`"""
        need = self.toks(final)
        keep = []
        for n, e in reversed(lines):
            if n in need:
                keep.append((n, e))
                need |= self.toks(e)
        keep.reverse()
        if not keep:
            return final
        return "(" + " ".join("let %s := %s;" % (n, e) for n, e in keep) + " " + final + ")"

    def lean_name(self):
        return "c_" + ("priv_" + self.name[2:] if self.name.startswith("__") else self.name)

    def render(self):
        env = {"m": "m", self.hdr: self.hdr}
        for v in self.vals:
            env[v] = v
        lines = []
        self.retval = None
        self.exec(self.body.get("inner", []), env, lines)
        res = [env["m"], env[self.hdr]] + ([self.retval] if self.ret else [])
        need_lines = []
        need = set()
        for r in res:
            need |= self.toks(r)
        for n, e in reversed(lines):
            if n in need:
                need_lines.append((n, e))
                need |= self.toks(e)
        need_lines.reverse()
        params = "(m : TM) (%s : Hd)" % self.hdr
        if self.vals:
            params += " (%s : Nat)" % " ".join(self.vals)
        if self.childfns:
            params += " (d : Bool)"
        for nm, what in self.extra_params:
            params += " (%s : Nat)" % nm
        rty = "TM × Hd" + (" × Nat" if self.ret else "")
        doc = "".join("-- %s = the value of `%s`\n" % (nm, what) for nm, what in self.extra_params)
        body = "\n".join("  let %s := %s" % (n, e) for n, e in need_lines)
        return "%sdef %s %s : %s :=\n%s\n  (%s)\n" % (doc, self.lean_name(), params, rty, body, ", ".join(res))


def translate_tree(repo, area="treel"):
    a = AREAS[area]
    decls = clang_ast(repo, a["src"], set(a["order"]))
    chunks, report = [], {}
    for name in a["order"]:
        if name not in decls:
            report[name] = "not found in source"
            continue
        try:
            f = TreeFn(decls[name])
            chunks.append(f.render())
            report[name] = "translated" + ("".join("; %s := %s" % p for p in f.extra_params))
        except Unsupported as e:
            report[name] = "not translated: %s" % e
    out = ("-- GENERATED by tools/c2lean.py from /repo's src/%s on every check run; do not edit.\n" % a["src"]
           + a["header"] + "set_option linter.unusedVariables false\n" + "namespace Cstl.Gen.%s\n" % a["module"] + a["opens"] + "\n"
           + "\n".join(chunks) + "\nend Cstl.Gen.%s\n" % a["module"])
    return out, report


AREAS["treel"] = dict(
    src="bintree.c",
    order=["__cstl_bintree_rotate", "__cstl_bintree_erase", "cstl_bintree_insert", "cstl_bintree_find"],
    header="import Cstl.TreeL.Model\n",
    opens="open Cstl.TreeL\n",
    module="TreeLC",
    custom=translate_tree,
)


def translate(area, repo):
    a = AREAS[area]
    if "custom" in a:
        return a["custom"](repo)
    decls = clang_ast(repo, a["src"], set(a["order"]))
    known = {}
    chunks = []
    report = {}
    for name in a["order"]:
        if name not in decls:
            report[name] = "not found in source"
            continue
        try:
            f = Fn(a["cfg"], decls[name], known)
            txt = f.render()
            known[name] = f
            chunks.append(txt)
            report[name] = "translated"
        except Unsupported as e:
            report[name] = "not translated: %s" % e
    out = ("-- GENERATED by tools/c2lean.py from /repo's src/%s on every check run; do not edit.\n" % a["src"]
           + a["header"] + "set_option linter.unusedVariables false\n" + "namespace Cstl.Gen.%s\n" % a["module"] + a["opens"] + "\n"
           + "\n".join(chunks) + "\nend Cstl.Gen.%s\n" % a["module"])
    return out, report


AREAS["heapl"] = dict(
    src="heap.c",
    order=["cstl_heap_promote_child"],
    header="import Cstl.TreeL.Model\n",
    opens="open Cstl.TreeL\n",
    module="HeapLC",
    custom=lambda repo: translate_tree(repo, "heapl"),
)


if __name__ == "__main__":
    area = sys.argv[1]
    repo = sys.argv[2] if len(sys.argv) > 2 else "/repo"
    txt, rep = translate(area, repo)
    sys.stdout.write(txt)
    for k, v in rep.items():
        sys.stderr.write("%s: %s\n" % (k, v))
