#!/usr/bin/env python3
"""Run a property check against a scratch copy of /repo with a seeded patch applied.
usage: tools/seedtest.py <patch.diff> <Cnn> [tier]"""
import os
import shutil
import subprocess
import sys
import tempfile

patch, prop = sys.argv[1], sys.argv[2]
tier = sys.argv[3] if len(sys.argv) > 3 else "quick"
d = tempfile.mkdtemp(prefix="seedtest_")
try:
    dst = os.path.join(d, "repo")
    shutil.copytree("/repo", dst, ignore=shutil.ignore_patterns(".git", "build"))
    r = subprocess.run(["patch", "-p1", "-s", "-i", os.path.abspath(patch)], cwd=dst)
    if r.returncode != 0:
        print("PATCH FAILED")
        sys.exit(2)
    env = dict(os.environ, VERIF_REPO=dst)
    r = subprocess.run([sys.executable, os.path.join(os.path.dirname(os.path.abspath(__file__)), "check.py"), prop, "--tier", tier],
                       env=env, stdout=subprocess.PIPE, stderr=subprocess.STDOUT, universal_newlines=True)
    print(r.stdout[-3000:])
    print("exit", r.returncode)
finally:
    shutil.rmtree(d, ignore_errors=True)
