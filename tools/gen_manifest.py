#!/usr/bin/env python3
"""Writes /verif/MANIFEST.json from the table below (kept in one place so the
manifest is always valid and current)."""
import json
import os

VERIF = os.path.dirname(os.path.dirname(os.path.abspath(__file__)))

# property -> (design_ref, level text, level note, technique) for every claimed check
TB = ("Trusted: Lean 4.33 kernel; axioms propext/Classical.choice/Quot.sound only (audited by #print axioms on every run; "
      "no sorry/native_decide/bv_decide); Lean compiler for the model driver; the hand-written model is tied to the C code "
      "(a) by the correspondence check (differential execution on every run, exact internal state), whose scopes are finite, "
      "and (b) by translator ties (Lean definitions regenerated from the clang AST of the current source on every run and "
      "kernel-checked equal to the model), which trust the translator's reading of the AST and its primitive vocabulary; "
      "gcc/glibc/ASan; the C harness's abstraction functions and the script generators.")

CLAIMED = {
    "C09": {
        "design_ref": "DESIGN.md 4/C09",
        "text": "Lean 4 theorems over a vector model with explicit 64-bit wrap-around (set_capacity requests ((sz+1) mod 2^64 * esz) mod "
                "2^64 bytes exactly as the C expression, with the overflow guard of the repaired code and glibc's realloc(p,0) "
                "behaviour; realloc answers are parameters; ctor/dtor and realloc events logged): Inv (count <= cap, block bytes = "
                "(cap+1)*esz without wrap) for every history, every requested size < 2^64 and every allocator answer (run_inv over two "
                "vectors + heap ledger), at succeeds iff index < count and then stays inside the block (at_ok_iff, vget_vset_safe), "
                "contents preserved across reallocation, reserve failure is a no-op, resize failure aborts (resize_abort_iff), "
                "constructor/destructor exactly once per slot entering/leaving [0,count), sort/reverse use only the scratch slot. "
                "Tied to /repo by differential execution (boundary values incl. SIZE_MAX neighbours x element sizes 1-64 x with/"
                "without xtors, closure over small sizes, random histories, allocation plans) comparing size, capacity, contents, the "
                "realloc request log and per-slot xtor events under ASan; storage-ledger oracle.",
        "note": TB + " The harness decides allocation outcomes itself (plan string; every request above 64 KiB fails) and the model driver applies the same rule. Translator tie (tools/c2lean_vec.py, Vec/Tie.lean): set_capacity (overflow guard and byte count), at, reserve, shrink, resize with both xtor loops, swap, clear are regenerated from the C AST on every run with explicit wrap-around only where the clang type is a 64-bit unsigned type and proved equal to the model (21 theorems); the sort/reverse/search/find wrappers are translated too (Vec/Tie2.lean: they pass base, count, element size and the scratch slot at index cap; vsort_tie/vreverse_tie under Inv).",
        "technique": "Lean 4 proof (invariant over operation lists with explicit 64-bit arithmetic, all allocator answers) + model/implementation correspondence check",
    },
    "C10": {
        "design_ref": "DESIGN.md 4/C10",
        "text": "Lean 4 theorems over the string layer (generic in the code-unit width) on top of the vector model: every edit refines "
                "a reference list of code units (run_refines over two strings: set, insert_ch/str_n, append, erase, substr, resize, "
                "swap, clear), NUL termination invariant (str_nul_terminated), a position beyond the end aborts iff documented "
                "(pos_abort_iff, insert_abort_iff), counts are truncated for every n < 2^64 incl. 2^64-1 (count_truncated), growth that "
                "cannot be satisfied aborts without writing (growth_abort_no_write), find_ch/find_str/compare equal a libc model whose "
                "strchr/strstr/strcmp specifications are proved. Tied to /repo by differential execution on narrow and wide strings "
                "(closure over short strings incl. embedded NUL, positions/counts from the boundary set, random histories) comparing "
                "size, capacity, every unit incl. the terminator, results and abort/segv; libc itself is the reference for find/compare "
                "in the harness; reference-string oracle.",
        "note": TB + " Translator tie (Vec/Tie.lean, 80 theorems): the string functions of both instantiations (narrow, wide) incl. the repaired guards of substr_prep, __resize and prep_insert, the NUL-fill and character-fill loops, erase/substr/insert/append are regenerated from the C AST on every run and proved equal to the model; str, find_ch, find_str, find, compare, compare_str and the strlen-based entry points are translated as calls of the libc functions on str() and tied to the model's libc models (Vec/Tie2.lean, 84 theorems incl. the vector wrappers; libc functions and memcpy are vocabulary primitives). reserve on a string that holds nothing followed by str() returns storage without a terminator (reserve is outside C10's operation list; generators keep observers away from that state; recorded as an observation in DESIGN section 5).",
        "technique": "Lean 4 proof (refinement to a reference sequence over operation lists, explicit 64-bit arithmetic) + model/implementation correspondence check",
    },
    "C16": {
        "design_ref": "DESIGN.md 4/C16",
        "text": "The allocation-failure theorems of the areas, all of which quantify over EVERY allocator answer because the allocator is "
                "a parameter of the models: map insert failure returns -1 with the state unchanged (Tree.mapInsert_fail, run_refines "
                "with the live-block ledger), hash resize/shrink failure is a no-op (Hash.resize_exact: not satisfiable -> t' = t), "
                "vector/string reserve and shrink failure no-op and growth failure abort (Vec.reserve_fail_noop, resize_fail_abort, "
                "growth_abort_no_write), smart-pointer and array allocation failure leaves the object empty, nothing leaked or freed "
                "twice (Mem.alloc_fail_empty, no_leak, free_at_most_once, step_never_asan). Tied to /repo by fault enumeration on the "
                "real code and the models: per script all allocations succeed, every single one fails, every suffix fails, every pair "
                "fails, every triple for scripts with <= 6 allocations, each followed by continued use and the ledger audit of the "
                "area's oracle.",
        "note": TB,
        "technique": "Lean 4 proof (theorems universally quantified over allocator answers) + fault enumeration with model/implementation correspondence",
    },
    "C05": {
        "design_ref": "DESIGN.md 4/C05",
        "text": "Lean 4 theorems over a model of memory.c's unique/shared/weak pointers (object store with self-address stamps, "
                "blocks with hard/soft counts, every public entry point as its C sequence, malloc answers as parameters, event "
                "log): ownership invariant for arbitrary operation lists on arbitrarily many objects and blocks (counts_exact, "
                "mem_live_iff, data_live_iff), clear-then-free of the managed memory exactly in the operation that removes the "
                "last owner and never twice (destroy/clear_exactly_at_last_owner, free_at_most_once), co-owners' get equal, lock "
                "yields an owner iff one exists, unique() iff no other reference, no_leak when every pointer is reset, unique "
                "pointer clear-then-free exactly once. Tied to /repo by differential execution (closure over 3 shared + 2 weak + 2 "
                "unique objects / 2 allocations, random histories over larger pools) comparing get/unique results, counters and the "
                "interleaved malloc/free/clear-callback event log; ownership-ledger oracle.",
        "note": TB + " Translator tie (tools/c2lean_mem.py, Mem/Tie.lean, TieExec.lean): all 39 entry points of memory.h/memory.c and the array views are regenerated from the C AST on every run in the vocabulary of Mem/CPrim.lean and proved equal to the model, lifted to run_tie: every history of the model equals the history of the translated functions (side conditions NoSelfUp, SoftSmall, ManagedLive proved from the C05 invariant). The harness mirrors the two private structs to dump the counters.",
        "technique": "Lean 4 proof (ownership invariant by induction over operation lists, event-log structure) + model/implementation correspondence check",
    },
    "C14": {
        "design_ref": "DESIGN.md 4/C14",
        "text": "Lean 4 theorems over the array-view model (object {ptr, off, len}, descriptor {sz, nm, inline|external buffer}, 64-bit "
                "wrap-around written explicitly in nm*sz, off+end, off+i): invariant off+len <= nm and header+nm*sz = block size "
                "without wrap for every history (run_ainv), at returns an address inside the live buffer iff index < size and aborts "
                "otherwise (at_in_buffer, at_abort_iff), slice aborts iff end < beg or off+end > nm as mathematical sums "
                "(slice_abort_iff), lifetime of the underlying allocation, release only to the sole user, failed allocation leaves "
                "the object empty. Tied to /repo by differential execution (closure over 3 objects / 2 buffers incl. an external one, "
                "bounds from the boundary set incl. SIZE_MAX neighbours, allocation failures) comparing size, at/data as (block, "
                "offset), abort/segv and the allocation log; in-bounds + lifetime oracle.",
        "note": TB + " Translator ties for all cstl_array_* functions (aAlloc_tie, aSlice_tie, aAt_tie, ...; Mem/Tie.lean); aSlice/aUnslice ties hold for live descriptors (the model checks liveness first), which the invariant provides on every reachable state.",
        "technique": "Lean 4 proof (invariant over operation lists with explicit 64-bit arithmetic) + model/implementation correspondence check",
    },
    "C20": {
        "design_ref": "DESIGN.md 4/C20",
        "text": "Lean 4 theorems over the guarded-pointer store (address -> {self stamp, pointer}): for every public entry point and "
                "every argument position that reads, transfers or releases through the object, a stray bitwise copy (stamp != "
                "address) aborts before anything is read, transferred or released through it (stray_aborts, stray_untouched), "
                "overwrite-only positions never read it, the original keeps working, properly moved objects never abort "
                "(stamped_preserved, properly_moved_never_abort) over all C05/C14 histories. Tied to /repo by running the property's "
                "own finite table on the real code (every entry point x argument position x object state {empty, owning, shared, "
                "weak-only} x copy by assignment / memcpy: 40 aborting pairs) plus random histories; SIGABRT-expected oracle.",
        "note": TB + " Translator ties for the guarded-pointer functions and every entry point that uses them (gGet_tie, gSwap_tie, ...; unconditional). A bitwise copy moved back to the address stamped in its bytes is undetectable by construction and outside the property's domain (excluded by Op.dom and the generators).",
        "technique": "Lean 4 proof (stamp invariant, per-entry-point guard analysis) + exhaustive table execution on the implementation",
    },
    "C03": {
        "design_ref": "DESIGN.md 4/C03",
        "text": "Lean 4 theorems over a model of hash.c that keeps the mechanism (bucket array with clean bits, sweep index, pending "
                "geometry, first-resize shortcut, capacity retention, realloc oracle with the 64-bit byte count, ONE uninterpreted "
                "hash function parameter): an inductive invariant (every node is new-placed or old-placed in a dirty bucket below the "
                "count, clean buckets hold only new-placed nodes, ...) preserved by every operation; insert/find/erase/size/resize/"
                "rehash/shrink are exact against the multiset-of-(key,id) spec; find offers each live element with the key at most "
                "once and returns the first accepted; run_exact over arbitrary histories on two tables (incl. swap, enumeration, "
                "clear) for every in-range hash function. Tied to /repo by exact-state differential execution (closure over all "
                "reachable table states in a small scope incl. resize during a pending resize, boundary bucket counts, random "
                "histories to 64 buckets) comparing every chain in order with clean bits, counters, results, offers and the "
                "hash-call log; address-keyed membership-ledger oracle. Second layer (lean/Cstl/HashL): the chains as singly linked lists "
                "through the node field embedded in the elements, the pointer-to-pointer erase walk, clean_bucket's relink loop, bucket "
                "bounds checks — modelled at link level and proved to refine the list-level model operation by operation and for every "
                "history of two tables (history_refines, history_exact: equal results, hash-call log, relocation count, events; never a "
                "NULL dereference, out-of-bounds bucket or hang), compared with the real code on the same scripts; getBucket, the "
                "relink loop, clean_bucket, the bucket foreach, erase and insert tails are regenerated from the C AST on every run and "
                "tied by kernel-checked equalities (HashL.Tie).",
        "note": TB + " A second translator (tools/c2lean_hash2.py, HashL/Tie2.lean, 56 theorems) covers the rest of hash.c: find with its visit function, insert, erase, both sweep loops of __cstl_hash_rehash and the adoption of the pending geometry, the keyed lookup sequence, foreach/foreach_const (pending-count bound rule)/clear, resize with set_capacity (overflow guard, byte count), shrink_to_fit, swap, size and load. The bucket array's realloc/free are oracle/event steps; unsigned loop indices are not wrapped; (float) a / b is kept as the pair (a, b).",
        "technique": "Lean 4 proof (inductive invariant, refinement to a multiset spec over operation lists) + exact-state correspondence check",
    },
    "C04": {
        "design_ref": "DESIGN.md 4/C04",
        "text": "Lean 4 theorems on the same hash model: foreach, foreach_const and clear refine a list-level specification in every "
                "table state incl. every stage of a pending grow or shrink: each live element exactly once (until the visit function "
                "asks to stop, whose value is returned), also when visited elements erase themselves; clear hands every live element "
                "to the callback once, empties the table, and clear-then-resize behaves as a fresh table. Tied to /repo as C03 with "
                "the three enumeration entry points applied in every closure state, callbacks that erase+poison; per-address visit-"
                "count oracle. The link-level layer (lean/Cstl/HashL) proves the same for the pointer code (foreachConst_link_all, "
                "clear_link_once, bucketWalk_sim with a callback erasing its own element).",
        "note": TB + " See C03 for what the HashL translator ties cover.",
        "technique": "Lean 4 proof (refinement of the enumeration entry points to a list-level spec) + exact-state correspondence check",
    },
    "C19": {
        "design_ref": "DESIGN.md 4/C19",
        "text": "Lean 4 theorems on the same hash model, which additionally returns the number of relocated buckets and the hash-call "
                "log of every operation: load = size / effective bucket count, a satisfiable resize lands on the requested geometry "
                "(also while another is pending) and keyed operations / rehash / shrink keep heading there, a settled table consults "
                "the hash function exactly once with (fn, key, n), a keyed operation during a pending rehash relocates at most three "
                "buckets, leaves all other chains untouched and advances the sweep, the rehash finishes within `count` keyed "
                "operations (sharp bound proved too). Tied to /repo as C03, additionally comparing cstl_hash_load, the hash-call log "
                "and the sweep index; load/single-call/relocation-count oracle. Link level (lean/Cstl/HashL): keyed_link_cost_and_progress, "
                "settled_link_single_call, rehash_finishes_link for the pointer code.",
        "note": TB + " See C03 for what the HashL translator ties cover.",
        "technique": "Lean 4 proof (progress measure on the sweep index, cost bound per operation) + exact-state correspondence check",
    },
    "C15": {
        "design_ref": "DESIGN.md 4/C15",
        "text": "Lean 4 theorems: for each container's clear — slist and dlist (link level: callbacks = the represented sequence, for "
                "EVERY behaviour of the callback on the element, i.e. the result does not depend on anything read from an element "
                "after its callback, nothing is written to it afterwards, the list ends initialised), bintree/rbtree/map (callbacks are "
                "a permutation of the held elements in POST/LEAF order, the access trace touches no element after its callback, map "
                "frees every node after its callback, container ends as freshly initialised), heap (same via the tree traversal). "
                "Tied to /repo by running the real clear in every container state of the small-scope closures of all six containers "
                "with a callback that overwrites/poisons the element (ASan), followed by a fresh fill and use, comparing callback "
                "order and resulting state with the models; exactly-once / reference oracles.",
        "note": TB + " That the C code performs no reads of an element other than the modelled ones after its callback is evidenced by ASan-poisoning on every explored state, not proved.",
        "technique": "Lean 4 proof (per-container clear specifications quantified over the callback's effect) + model/implementation correspondence check with poisoning callbacks",
    },
    "C01": {
        "design_ref": "DESIGN.md 4/C01",
        "text": "Lean 4 theorems over a functional tree model (bintree and red-black operations reproducing the C code's shape, "
                "colours and element placement exactly): insert/insert-with-hint keep the in-order multiset and sortedness, a hint "
                "taken from find equals an unhinted insert, find iff held, erase returns and removes exactly one held element with "
                "that key, rotations and recolouring preserve the in-order list, traversal events (each held element exactly one "
                "MID-or-LEAF, non-leaf bracketed by PRE/POST, order = in-order / mirrored, stop rule), clear, and history theorems "
                "bt_run_refines / rb_run_refines against a multiset spec over arbitrary operation lists. Tied to /repo by differential "
                "execution (closure over all shapes with <= 6-8 elements over 3-4 keys incl. duplicates, hinted inserts, every erase "
                "case, traversals with stop at each position; seeded random histories) comparing full shape with ids and colours, "
                "results and event lists; reference-multiset / event-structure oracle. "
                "Second layer (lean/Cstl/TreeL): a link-level model of the pointer code (l/r/p fields, one update per C assignment, hinted "
                "descent, erase link surgery incl. successor = right child) is proved to REFINE the functional model for every history "
                "(bt_history_refines) with every child's parent link pointing back (bt_parent_links_ok), is compared with the real code "
                "on the same scripts, and __cstl_bintree_rotate / __cstl_bintree_erase are re-translated from the C AST on every run "
                "with kernel-checked `translation = model` ties.",
        "note": TB + " tools/c2lean_tree.py additionally regenerates cstl_bintree_insert (pointer-to-pointer), find, slide/next, the full erase and the foreach recursion from the C AST on every run, with kernel-checked ties to the link-level model (Tie2: 25 theorems; form: model finishes with r => translation finishes with r); a third translator (tools/c2lean_tree2.py, TreeL/Tie3.lean, 37 theorems) covers cstl_bintree_foreach's direction switch, cstl_bintree_clear (visitor fires exactly on POST and LEAF; callbacks = clearOrder), height, swap and prev; the comparator and the node/element offset helpers are primitives; bintree refinements assume the (unused) colour field is black.",
        "technique": "Lean 4 proof (structural induction, refinement to a multiset spec over operation lists) + model/implementation correspondence check",
    },
    "C02": {
        "design_ref": "DESIGN.md 4/C02",
        "text": "Lean 4 theorems: Inv = root black, no red-red, equal black count on every root-to-missing-child path (tied to an "
                "inductive balance predicate by inv_iff_bal) is preserved by red-black insert (any hint) and erase, the sibling the C "
                "code dereferences always exists (run_no_segv), for every history (run_inv); height bound 2^((h+1)/2) <= n+1 and "
                "2^h <= (n+1)^2 for every reachable tree. Tied to /repo by colour-exact differential execution (closure over all shapes "
                "and colourings with <= 7-8 elements, random histories with heavy duplication); the harness recomputes the rules, "
                "parent links and cstl_rbtree_height on the C tree. Second layer (lean/Cstl/TreeL): the pointer code — rotations, the insert "
                "and erase fix-up loops navigating upward through parent links, the stack-local stand-in node of the erase fix-up — is "
                "modelled at link level and proved to refine the functional model for every history (rb_history_refines, never a NULL "
                "dereference: rb_history_no_stop), with every child's parent link pointing back at its parent (rb_parent_links_ok); "
                "compared with the real code on the same scripts (links marker exact).",
        "note": TB + " cstl_rbtree_fix_insertion, the insert loop, cstl_rbtree_fix_deletion, the erase loop with its stand-in node, and the whole of cstl_rbtree_insert/erase are regenerated from the C AST on every run (child-selector function pointers become a direction parameter) and tied to the link-level model by kernel-checked theorems (TreeL.Tie2).",
        "technique": "Lean 4 proof (inductive invariant over operation lists) + colour-exact model/implementation correspondence check",
    },
    "C08": {
        "design_ref": "DESIGN.md 4/C08",
        "text": "Lean 4 theorems over the map layer on the red-black model with a malloc oracle and an allocation ledger: insert of an "
                "existing key returns 1 and changes nothing, new key returns 0, malloc failure returns -1 with the state unchanged, "
                "find/erase/erase-by-iterator specs, size, clear calls back once per entry then frees everything, run_refines over "
                "arbitrary histories against Key -> Option (key ptr, value ptr, node) plus the live-block ledger. Tied to /repo by "
                "differential execution (closure over 3-5 keys incl. allocation failures, random histories) comparing return codes, "
                "iterator contents, size, tree dump and malloc/free log; one-entry-per-key reference dict + ledger oracle.",
        "note": TB + " Translator tie (tools/c2lean_map.py, Tree/TieMap.lean, 12 theorems): cstl_map_insert (find remembering the parent, malloc, hinted insert, return codes 1/0/-1, iterator), find, erase, erase by iterator, the node alloc/free/clear steps are regenerated from the C AST of map.c on every run and proved equal to the model's map layer; the rbtree calls, malloc/free and the clear traversal are primitives of the translation.",
        "technique": "Lean 4 proof (refinement to a partial-function spec over operation lists) + model/implementation correspondence check",
    },
    "C11": {
        "design_ref": "DESIGN.md 4/C11",
        "text": "Lean 4 theorems over an index-checked model of array.c's algorithms (partition loop with pivot tracking, three pivot "
                "rules with the random draws as an oracle stream, median-of-three 3-sort, heapsort build/sift/extract, selector "
                "dispatch, binary search with C int arithmetic, linear find, reverse): partition spec, every selector returns a sorted "
                "permutation whenever it returns and never accesses outside [0,count) plus the scratch cell, termination for the "
                "deterministic pivots (fuel = count) and for the random pivot on every stream that eventually draws 0, the exact "
                "non-terminating corner proved, heapsort total, default fallback, search iff on sorted input (<= 2^30 elements), find "
                "returns the first match, reverse mirrors. Tied to /repo by differential execution on all arrays of length <= 7 over 3 "
                "values x every selector x every pivot draw list x element sizes 1,2,3,4,8,16 (fast paths and memcpy path) under ASan "
                "with red-zoned buffers, adversarial larger inputs and random scripts, comparing final arrays AND the exact "
                "comparator/swap call logs; sortedness + multiset + byte-pattern oracle.",
        "note": TB + " Translator tie (tools/c2lean_sort.py, Sort/Tie.lean, 48 theorems): partition with both scans, pivot selection incl. rand() and median-of-three, quicksort recursion, heapsort child selection / sift-down / heapify / extract, selector dispatch, search, find, reverse are regenerated from the C AST of array.c on every run (pointer arithmetic arr + i*size becomes element indices, C int and size_t conversions explicit) and tied to the model; c_sort_sorted_perm states that the TRANSLATED C function returns a sorted permutation. The comparator, cstl_swap and rand() are primitives of the translation. Byte-level cstl_swap is modelled on a byte memory (typed little-endian fast paths for 1/2/4/8 bytes, three memcpy's through the scratch buffer otherwise), proved for EVERY size to exchange the two regions and write nothing else but the scratch (Swap/Props: swap_x, swap_y, swap_frame, swap_is_swapAt = the exchange the sort model assumes) and tied to the C AST (Swap/Tie.swap_tie). C stack depth of the recursive quicksort is not modelled (adversarial sizes stay far below the limit).",
        "technique": "Lean 4 proof (loop invariants, permutation/sortedness by induction, termination measures) + call-log-exact correspondence check",
    },
    "C06": {
        "design_ref": "DESIGN.md 4/C06",
        "text": "Lean 4 theorems over a labelled transition system with one micro-step per atomic operation / non-atomic access of "
                "memory.c's share, reset, weak-from, lock (with the flag spin), weak-reset and use, for ANY number of threads, ANY "
                "programs and ANY schedule: inductive counting invariant, clear/free at most once on every trace and exactly once when "
                "all threads finished with no owner left, no access to a dead block, an owner keeps the memory live until its own "
                "reset, a successful lock yields live memory, bookkeeping accessed only by reference holders, race freedom in the SC "
                "model, lock holder never blocked, no deadlock, decreasing measure, termination under fair and round-robin "
                "schedulers. Tied to /repo on every run: unmodified src/memory.c compiled against shadow <stdatomic.h>/<sched.h>/"
                "<stdlib.h>, threads as coroutines switched at every atomic call, a covering set of schedules of all 2-thread and "
                "selected 3/4-thread scenarios (every reachable transition) plus random schedules replayed on real code and model, "
                "compared step by step (operation, location, observed value, events); ownership-ledger oracle + ASan. Translator tie "
                "(Conc/Tie.lean): the ordered atomic/shared-access skeleton of reset, weak-reset, share, weak-from, lock (with the spin) "
                "and the unique-pointer reset is regenerated from the C AST of memory.c on every run, and stepT_conforms proves that every "
                "micro-step of the model is the next access of that skeleton and branches on the observed value as the C code does.",
        "note": TB + " Theorems are about sequentially consistent interleavings; soundness for real executions rests on C11 DRF-SC "
                "for seq_cst atomics (trusted) together with the proved race freedom. The shadow headers and the ucontext scheduler are trusted.",
        "technique": "Lean 4 proof (inductive invariant over all schedules, measure for progress) + per-step trace correspondence under a deterministic scheduler",
    },
    "C07": {
        "design_ref": "DESIGN.md 4/C07",
        "text": "Lean 4 theorems over a functional model of heap.c (fls mask loop, bit-path navigation, sift-up/down with the C tie "
                "rules): fls = log2 for all 64-bit values, path/slot numbering bijection, findSlot reaches the level-order position on a "
                "complete tree, Inv = heap order ∧ completeness preserved by push and pop, get/pop return a held maximum and pop removes "
                "exactly it (multiset equation), NULL on empty, size = count, run_inv/run_max over arbitrary push/pop/clear histories. "
                "Tied to /repo by differential execution (closure over all shapes up to a small size, drained after every transition, "
                "all short histories, random histories to 1000 live elements) comparing the level-order dump with ids, results, size; "
                "the harness checks every parent link and completeness; reference-multiset oracle.",
        "note": TB + " cstl_heap_promote_child's six-neighbour relinking is translated from the C AST on every run and proved to exchange the two nodes' positions with consistent parent links (heap_promote_child_refines + promoteChild_tie); the whole of heap.c is additionally modelled at link level (lean/Cstl/HeapL: find/push/pop/get/clear on l/r/p links) and proved to refine the functional model for every history with consistent parent links (heap_history_refines, heap_parent_links_ok), compared with the real code on the same scripts, and cstl_fls, cstl_heap_find/push/get/pop are regenerated from the C AST on every run and tied by kernel-checked equalities (HeapL.Tie); unsigned-int truncation of slot numbers is not modelled; theorems carry size+1 < 2^64.",
        "technique": "Lean 4 proof (invariant by induction over operation lists) + model/implementation correspondence check",
    },
    "C17": {
        "design_ref": "DESIGN.md 4/C17",
        "text": "Lean 4 theorems: hashDiv_lt; a binary32 model on scaled naturals (round to 24 significant bits, ties to even) with "
                "rnd_mono/fixed/faithful/nearest, frac_le and hashMul_lt: for ALL naturals k and m >= 1 the modelled cstl_hash_mul "
                "is < m (and < 2^64); table half: for an arbitrary hash function every bucket index used is in range and the keyed "
                "operation aborts iff a consulted result is out of range. Tied to /repo by executing the compiled functions and the "
                "model on the float grid (every exponent, boundary mantissas, smallest m per float), SIZE_MAX neighbours and 10^5-10^6 "
                "random pairs in both the ASan and the release build, and by running every keyed entry point with out-of-range hash "
                "results under ASan (SIGABRT expected).",
        "note": TB + " That the FPU implements IEEE-754 binary32 round-to-nearest-even with FLT_EVAL_METHOD == 0 is trusted (asserted by the harness, validated by the value-exact comparison).",
        "technique": "Lean 4 proof (arithmetic on scaled naturals, all inputs) + value-exact correspondence check",
    },
    "C18": {
        "design_ref": "DESIGN.md 4/C18",
        "text": "Translator-based: on every run tools/linktab.py rebuilds libcstl.a/.so from a scratch copy of /repo's working tree and "
                "regenerates, from nm and the clang AST, the tables of symbols each public header defines/declares and the library "
                "provides (lean/Cstl/Gen/LinkTab.lean); the kernel re-checks tables_ok : TablesOK tab (decide) and the general theorem "
                "link_ok : TablesOK tab -> every program (any non-empty list of TUs, each any list of headers, any order, repetition) "
                "links without duplicate or undefined symbols. In addition every configuration the property lists (each header alone, "
                "every ordered pair, all together, one and two TUs, .a and .so, project flags + -Werror, address-of clients) is compiled, "
                "linked and run.",
        "note": TB + " That each configuration compiles is decided by running gcc over the property's finite configuration list, not by a theorem; the link model (strong definitions, declared functions) and the nm/clang table extraction are trusted.",
        "technique": "Lean 4 proof over translator-generated symbol tables (regenerated from the source each run) + exhaustive compile/link enumeration",
    },
    "C12": {
        "design_ref": "DESIGN.md 4/C12",
        "text": "Lean 4 theorems over a link-level model of dlist.c (both link fields, one update per C assignment; abstraction IsDL: "
                "n-links lead from the head node through the reference sequence back to the head node, p-links through its mirror "
                "image): per-operation specs for insert, erase, push/pop at both ends (NULL on empty), front, back, foreach in both "
                "directions with stop value and with the visit function unlinking the visited element, find (first match in the "
                "direction), clear, concat, swap (incl. empty lists), sort (ordered permutation), reverse (loop invariant of the inward "
                "node-swap loop + adjacent-pair epilogue, termination), and run_refines over arbitrary operation lists on arbitrarily "
                "many lists. Tied to /repo on every run by executing model and real code on the same scripts (closure of all reference "
                "states in a small scope + seeded random histories) comparing forward walk, backward walk, size and results; an "
                "independent reference-sequence oracle decides concrete violations.",
        "note": TB + " Translator ties (tools/c2lean.py, tools/c2lean_lists.py) regenerate 16+ dlist functions incl. reverse/clear loops, sort, foreach, find, swap from the C AST on every run; the link-level sort (temporary heads = fresh scratch addresses, parameter) is proved to refine the sequence-level sort (DList.SortL.sortL_refines) and the translated C sort is proved to sort (c_sort_spec). The comparator is a pure function; foreach/find ties are implications (translated loop finishes => model result).",
        "technique": "Lean 4 proof (induction over operation lists, link-level refinement) + C-AST translator ties + model/implementation correspondence check",
    },
    "C13": {
        "design_ref": "DESIGN.md 4/C13",
        "text": "Lean 4 theorems over a link-level model of slist.c (one update per C assignment; abstraction IsSL: links form the "
                "reference sequence, tail = true last, count = length): per-operation specs for insert_after, erase_after, "
                "push_front/back, pop_front (incl. empty), front, back, reverse (loop invariant), concat, swap, foreach, clear, sort "
                "(ordered permutation), and the history theorem run_refines over arbitrary operation lists on arbitrarily many lists "
                "(induction; no bound). Tied to /repo on every run by executing the compiled model and the real code on the same "
                "scripts (closure of all reference states in a small scope + seeded random histories) and comparing every traversal, "
                "tail, count and result; an independent reference-sequence oracle decides concrete violations.",
        "note": TB + " Translator ties regenerate 13+ slist functions incl. reverse/clear loops, sort, foreach, swap from the C AST on every run; the link-level sort (temporary heads = fresh scratch addresses) is proved to refine the sequence-level sort (SList.SortL.sortL_refines), the translated C sort is proved to sort (c_sort_spec), foreach presents the sequence whatever the visit function does to the visited element (foreachP_spec).",
        "technique": "Lean 4 proof (induction over operation lists, link-level refinement) + C-AST translator ties + model/implementation correspondence check",
    },
}

# search steps and scope additions that are not part of the proofs (they widen what the correspondence
# and the independent oracle see, and how a concrete failing input is looked for when a tie breaks)
EXTRA_NOTES = {
    "C01": " Deep degenerate shapes (chains, zigzags and combs of 70 and 140 levels) are part of the corpus; each tree is swapped with a partner anchored at a second hook of the elements and both objects are used afterwards (swap/alt); after a model/implementation difference the check runs random erase-heavy continuations of the minimised difference.",
    "C02": " Trees are swapped with a partner anchored at a second hook and both objects are used afterwards; random continuations after a difference (latent colouring damage shows as a crash of a later erase).",
    "C05": " `smany`: 70 000 co-owners and weak references of one allocation come and go, every step judged inside the harness (counters narrower than size_t); the harness reads its mirrors of the private structs only from blocks of the expected size.",
    "C06": " The shadow <stdatomic.h> also accepts the _explicit forms and names a weaker-than-seq_cst order in the trace (the SC model then no longer corresponds); when the correspondence or a tie is broken and no SC schedule fails, the scenarios run on real threads under ThreadSanitizer and a reported race is the replay (conc.tsan_search). Scripts in which the clear callback re-enters cstl_weak_ptr_lock run on the implementation only and are judged for termination and the 1/1/1 clear/free ledger (the model's callback is a single step; a re-entrant callback is one particular interleaving of the model).",
    "C07": " `bulk n`: 300 000 (thorough: up to 2 200 000) pushes then pops on one heap, size/get/pop judged at every step inside the harness against a counting ledger, the pop order compared with the model by checksum (slot numbers with long zero runs exist only beyond 131 072 elements). The comparison function returns magnitudes that do not follow the order; the heap is swapped with a partner anchored at a second hook and both objects are used (swap/alt).",
    "C08": " One key object is the NULL pointer and one value object is NULL (looked up through NULL as well); the map's comparison function looks both keys up in a second map (nested library calls); erase is also called with a NULL iterator; random erase-heavy continuations after a difference.",
    "C09": " One function may be registered as both constructor and destructor (init flag 7); element sizes 1-64.",
    "C11": " Element sizes include 33, 36 and 40 bytes (word-wise exchanges with a tail); the comparison function returns magnitudes that do not follow the order.",
    "C12": " `bigsort`: lists of 1024-5000 (thorough: up to 70 000) elements sorted and judged element by element inside the harness (both directions), final order compared with the model's sequence-level merge sort by checksum; a traversal whose visit function moves the removed elements to another list runs on the implementation only (independent oracle); traversal stop values are negative for odd stop positions; list 2 lives on the compile-time initializer only.",
    "C13": " `bigsort` as for C12 (tail checked by a push_back afterwards); stop values negative for odd stop positions; list 2 lives on the compile-time initializer only.",
    "C14": " `amany`: 70 000 views of one buffer come and go (release must be refused meanwhile), judged inside the harness.",
    "C15": " Second map closure that distinguishes the stored key/value pointers (NULL key, NULL value); comb-shaped and 140-level deep trees.",
    "C17": " Caller-supplied hash functions include ones that are in range for one table size and out of range for another, and ones out of range by a multiple of 2^32; the fail-stop judgement is taken from the hash-call log (any call that returned >= m must have aborted the operation).",
    "C20": " The table includes the same stray copy in both argument positions and a co-argument that shares the allocation of the copy's original.",
}
INIT_NOTE = (" Initial states: objects are filled with 0xA5 before their init function runs, one object of every kind lives on the "
             "header's compile-time initializer only (or a statically initialised twin is compared with the init function's result), "
             "and the stack is dirtied before every operation.")

PENDING_REASON = "check under construction in this session: not yet claimed (Lean proof + correspondence machinery for it is not committed yet)"

ALL = ["C%02d" % i for i in range(1, 21)]


def main():
    checks = []
    for pid in ALL:
        if pid not in CLAIMED:
            continue
        c = CLAIMED[pid]
        checks.append({
            "property_id": pid,
            "quick_cmd": "python3 tools/check.py %s --tier quick" % pid,
            "thorough_cmd": "python3 tools/check.py %s --tier thorough" % pid,
            "evidence_file": "/verif/evidence/%s.json" % pid,
            "replay_cmd_template": "python3 tools/check.py %s --replay {path}" % pid,
            "engine": "lean4-proof+correspondence",
            "level_claimed": {"category": "proof", "text": c["text"], "design_ref": c["design_ref"]},
            "level_note": c["note"] + EXTRA_NOTES.get(pid, "") + (INIT_NOTE if pid not in ("C06", "C17", "C18") else ""),
            "technique": c["technique"],
        })
    man = {
        "version": 1,
        "setup_cmd": "python3 tools/check.py --setup",
        "hooks": {
            "guard": "CSTL_VERIF",
            "enable": "no hooks are needed: harnesses are compiled against the unmodified sources of /repo's working tree (public headers, malloc interposer via --wrap, shadow <stdatomic.h> for C06); the guard name is reserved and unused",
            "baseline_off_cmd": "make -C /repo test",
            "source_commits": [],
            "add_only": True,
        },
        "engines": [{
            "name": "lean4-proof+correspondence",
            "path": "/verif/tools/check.py",
            "serves_properties": [c["property_id"] for c in checks],
            "kind_free_text": "Lean 4 theorems about hand-written executable models (lean/Cstl), tied to /repo's working tree on every run by differential execution of the compiled model driver against a C harness built from the current sources; independent property oracle for the failing-input search",
        }],
        "checks": checks,
        "not_applicable": [{"property_id": p, "reason": PENDING_REASON} for p in ALL if p not in CLAIMED],
        "notes": "See DESIGN.md. Every check: lake build + escape-hatch grep + #print axioms audit of the property theorems, harness rebuilt from /repo working tree, model-vs-implementation diff, independent oracle.",
    }
    with open(os.path.join(VERIF, "MANIFEST.json"), "w") as fh:
        json.dump(man, fh, indent=1)
        fh.write("\n")


if __name__ == "__main__":
    main()
