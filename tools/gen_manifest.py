#!/usr/bin/env python3
"""Writes /verif/MANIFEST.json from the table below (kept in one place so the
manifest is always valid and current)."""
import json
import os

VERIF = os.path.dirname(os.path.dirname(os.path.abspath(__file__)))

# property -> (design_ref, level text, level note, technique) for every claimed check
TB = ("Trusted: Lean 4.33 kernel; axioms propext/Classical.choice/Quot.sound only (audited by #print axioms on every run; "
      "no sorry/native_decide/bv_decide); Lean compiler for the model driver; the hand-written model is tied to the C code "
      "only by the correspondence check (differential execution on every run, exact internal state), whose scopes are finite; "
      "gcc/glibc/ASan; the C harness's abstraction functions and the script generators.")

CLAIMED = {
    "C12": {
        "design_ref": "DESIGN.md 4/C12",
        "text": "Lean 4 theorems over a link-level model of dlist.c (both link fields, one update per C assignment; abstraction IsDL: "
                "n-links lead from the head node through the reference sequence back to the head node, p-links through its mirror "
                "image): per-operation specs for insert, erase, push/pop at both ends (NULL on empty), front, back, foreach in both "
                "directions with stop value and with the visit function unlinking the visited element, find (first match in the "
                "direction), clear, concat, swap (incl. empty lists), sort (ordered permutation), reverse (loop invariant of the inward "
                "node-swap loop + adjacent-pair epilogue, termination), and run_refines over arbitrary operation lists on arbitrarily "
                "many lists. Tied to /repo on every run by executing model and real code on the same scripts (closure of all reference "
                "states in a small scope + seeded random histories) comparing forward walk, backward walk, size and results; an "
                "independent reference-sequence oracle decides concrete violations.",
        "note": TB + " sort is modelled on the sequence read from the links followed by a relink (its temporary heads live on the C stack).",
        "technique": "Lean 4 proof (induction over operation lists, link-level refinement) + model/implementation correspondence check",
    },
    "C13": {
        "design_ref": "DESIGN.md 4/C13",
        "text": "Lean 4 theorems over a link-level model of slist.c (one update per C assignment; abstraction IsSL: links form the "
                "reference sequence, tail = true last, count = length): per-operation specs for insert_after, erase_after, "
                "push_front/back, pop_front (incl. empty), front, back, reverse (loop invariant), concat, swap, foreach, clear, sort "
                "(ordered permutation), and the history theorem run_refines over arbitrary operation lists on arbitrarily many lists "
                "(induction; no bound). Tied to /repo on every run by executing the compiled model and the real code on the same "
                "scripts (closure of all reference states in a small scope + seeded random histories) and comparing every traversal, "
                "tail, count and result; an independent reference-sequence oracle decides concrete violations.",
        "note": TB + " sort is modelled on the sequence read from the links followed by a relink (its temporary heads live on the C stack).",
        "technique": "Lean 4 proof (induction over operation lists, link-level refinement) + model/implementation correspondence check",
    },
}

PENDING_REASON = "check under construction in this session: not yet claimed (Lean proof + correspondence machinery for it is not committed yet)"

ALL = ["C%02d" % i for i in range(1, 21)]


def main():
    checks = []
    for pid in ALL:
        if pid not in CLAIMED:
            continue
        c = CLAIMED[pid]
        checks.append({
            "property_id": pid,
            "quick_cmd": "python3 tools/check.py %s --tier quick" % pid,
            "thorough_cmd": "python3 tools/check.py %s --tier thorough" % pid,
            "evidence_file": "/verif/evidence/%s.json" % pid,
            "replay_cmd_template": "python3 tools/check.py %s --replay {path}" % pid,
            "engine": "lean4-proof+correspondence",
            "level_claimed": {"category": "proof", "text": c["text"], "design_ref": c["design_ref"]},
            "level_note": c["note"],
            "technique": c["technique"],
        })
    man = {
        "version": 1,
        "setup_cmd": "python3 tools/check.py --setup",
        "hooks": {
            "guard": "CSTL_VERIF",
            "enable": "no hooks are needed: harnesses are compiled against the unmodified sources of /repo's working tree (public headers, malloc interposer via --wrap, shadow <stdatomic.h> for C06); the guard name is reserved and unused",
            "baseline_off_cmd": "make -C /repo test",
            "source_commits": [],
            "add_only": True,
        },
        "engines": [{
            "name": "lean4-proof+correspondence",
            "path": "/verif/tools/check.py",
            "serves_properties": [c["property_id"] for c in checks],
            "kind_free_text": "Lean 4 theorems about hand-written executable models (lean/Cstl), tied to /repo's working tree on every run by differential execution of the compiled model driver against a C harness built from the current sources; independent property oracle for the failing-input search",
        }],
        "checks": checks,
        "not_applicable": [{"property_id": p, "reason": PENDING_REASON} for p in ALL if p not in CLAIMED],
        "notes": "See DESIGN.md. Every check: lake build + escape-hatch grep + #print axioms audit of the property theorems, harness rebuilt from /repo working tree, model-vs-implementation diff, independent oracle.",
    }
    with open(os.path.join(VERIF, "MANIFEST.json"), "w") as fh:
        json.dump(man, fh, indent=1)
        fh.write("\n")


if __name__ == "__main__":
    main()
